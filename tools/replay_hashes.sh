#!/bin/bash
# tools/replay_hashes.sh <prop> <replay.json>...: re-run recorded cases under every hash seed a thorough shard can have
P=$1; shift
for f in "$@"; do
  for h in 0 1 2 3; do
    python3 - "$f" $h <<'PY'
import json,sys
d=json.load(open(sys.argv[1])); d['hashseed']=sys.argv[2]; json.dump(d,open('/var/tmp/dbg/_replay.json','w'))
PY
    r=$(/verif/check $P --replay /var/tmp/dbg/_replay.json 2>&1 | grep -m1 "^VIOLATION\|^HELD\|^INCONC" | cut -c1-220)
    echo "$(basename $f) hash=$h: $r"
  done
done
