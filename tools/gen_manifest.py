#!/usr/bin/env python3
"""Regenerates /verif/MANIFEST.json from the table below (run after adding a check)."""
import json
import os

VERIF = os.path.dirname(os.path.dirname(os.path.abspath(__file__)))

# id -> (category, technique, level text, level note, design ref)
CHECKS = {
    "C01": ("exploration", "runtime monitor on every simulation entry point + numpy contraction of catalogue matrices as oracle",
            "Each generated unitary program (qubits/qudits, 1-6 wires, explicit moments, zero-qubit phases) is pushed through "
            "Circuit.unitary, final_state_vector, Simulator.simulate / simulate_moment_steps / simulate_sweep (prefix reuse), "
            "DensityMatrixSimulator.simulate and ClassicalStateSimulator under dtype x split_untangled_states x initial-state "
            "form x qubit-order combinations; every observation is compared with one reference value contracted from catalogue "
            "matrices outside Cirq, and the caller's initial-state array is checked for writes.",
            "Trusts the catalogue (C03) and numpy; <=6 wires, <=25 operations; tolerance 1e-4 (complex64) / 1e-7 (complex128).",
            "DESIGN.md 5/C01"),
    "C02": ("exploration", "scripted seed object + decision-tree explorer over the real simulators; exact reference interpreter as oracle",
            "Every random draw of Simulator / DensityMatrixSimulator (run, simulate, StepResult.sample, the free measure_*/sample_* "
            "functions) is dictated by a scripted seed object; the explorer re-executes the real entry point once per branch and "
            "extracts the exact map records -> probability (and post-measurement states), which is compared with an independent "
            "dense branching interpreter for the same abstract program (masks, confusion maps, repeated keys, qutrits, resets, "
            "key/bitmask/sympy conditions); terminal fast path and per-repetition path both judged against the reference; "
            "repetition independence and row decoding checked. No statistics.",
            "Programs <=4 wires, <=7 recorded digits, <=3000 paths; branches below 1e-6 are not forced. Trusts "
            "catalogue + interpreter.", "DESIGN.md 5/C02"),
    "C03": ("exploration", "runtime monitor at cirq.unitary/kraus/mixture + closed-form catalogue oracle",
            "Every generated gate instance (special-value grid x random reals, all exported families incl. qudit, Google and IonQ "
            "gates, channels, named constants) is observed through cirq.unitary / kraus / mixture / qid_shape and judged against a "
            "closed-form catalogue written from the docstrings; held means no observed instance deviated by more than 1e-8.",
            "Trusts the hand-written catalogue (vf/refmodel/gates.py) as the specification and numpy; covers the parameter values "
            "actually drawn, not all reals.", "DESIGN.md 5/C03"),
    "C04": ("exploration", "runtime monitor over every protocol entry point of one value + catalogue-derived expected matrix",
            "For each generated value (catalogue gate x parameters x 0-2 wrappers: tags, qubit permutation, qudit/product-of-sums/"
            "sum-of-products controls, inverse, ParallelGate, CircuitOperation, transform_qubits) the check observes cirq.unitary, "
            "apply_unitary on caller-built tensors (non-adjacent/permuted axes, C/F/strided layouts, c64/c128, NaN-filled "
            "buffers, matrix-shaped targets), decompose_once/decompose products, kraus/mixture/superoperator, apply_channel with "
            "separate left/right axes, act_on for state-vector and density-matrix states, and the has_*/is_measurement answers; "
            "each is compared with the one expected matrix (or Kraus set) the reference model derives from the catalogue.",
            "Trusts the catalogue and numpy; decompositions of MatrixGate-like values compared up to global phase, others exactly; "
            "stabilizer states are covered under C13.", "DESIGN.md 5/C04"),
    "C17": ("exploration", "runtime monitor at the vendor serializers/result classes + independent vendor-side payload interpreters",
            "IonQ JSON programs (QIS and native, single and batch) and AQT operation lists produced by the real serializers are "
            "re-interpreted by readers written from the vendors' gate definitions and compared (up to global phase) with the "
            "catalogue product of the submitted abstract program; measurement metadata is decoded back to key->targets; "
            "unsupported content must raise; IonQ QPU/simulator results, the Job/Service chain over a fake HTTP layer, the AQT local "
            "simulator and the Pasqal request body/result decoding are checked against plain-Python bit bookkeeping.",
            "Vendor gate semantics as quoted in vf/refmodel/ionq_reader.py / aqt_reader.py (pauliexp string order inferred from the "
            "serializer's comment and literal test expectations); fake endpoints model the services.", "DESIGN.md 5/C17"),
    "C05": ("exploration", "offline history checker over uniquely tagged operations after every public Circuit edit + fresh-rebuild query comparison",
            "Random edit histories (every constructor path; append/insert with all five strategies and clamped indices, whole "
            "moments, insert_into_range, insert_at_frontier, batch_insert/_into/_remove/_replace incl. failing all-or-nothing "
            "edits, clear_operations_touching, item and slice assignment/deletion, +, *, zip, concat_ragged, transform_qubits, "
            "copy/freeze/unfreeze/with_tags/slicing followed by further edits) over operations that overlap on qubits, "
            "measurement keys and control keys. After every call: moments are well-formed and their cached qubit/key sets equal a "
            "recomputation; the multiset of operation ids is conserved; conflicting pairs keep the order the edit prescribes "
            "(existing among themselves, inserted among themselves, inserted after everything before the insertion point and "
            "before everything after it, with the property's EARLIEST exemption); documented placements (NEW, single EARLIEST "
            "append, moments inserted intact, batch_insert_into, concatenation) are exact; queries (all_qubits, keys, ==, "
            "freeze, next/prev_moment_operating_on, are_all_measurements_terminal, earliest_available_moment) equal a freshly "
            "rebuilt circuit and a brute-force evaluation over the raw moment list.",
            "Histories <=30 calls, <=5 qubits; insert_into_range / insert_at_frontier / concat_ragged ordered by qubit conflicts "
            "only (documented as geometric).", "DESIGN.md 5/C05"),
    "C06": ("exploration", "generic post-call monitor on every shipped transformer and primitive (registry checked against the public names) + reference interpreter on the input's abstract program",
            "53 registry rows (every public transformer of cirq.transformers, gauge_compiling, cirq_google.transformers and the "
            "transformer primitives; a name without a row makes the run inconclusive). Input meaning comes from the generator's "
            "abstract program through the reference interpreter; the output circuit is lowered op by op through cirq.unitary and "
            "numpy (unitary relation, up to global phase) or observed through the scripted-seed explorer (exact record "
            "distribution, averaged final state). Each transformer is held to the relation its docstring states (U~, D=, rho=, "
            "gauge for every seed and sweep point, sweep, prefix+suffix, rename); for every call additionally: input circuit "
            "unmodified, operations tagged in tags_to_ignore untouched and not merged across, sub-circuit bodies untouched with "
            "deep=False, output moments well-formed; pipelines of 2-3 transformers.",
            "Per-operation protocols and the simulators are trusted here (policed by C03/C04/C02); <=5 qubits.", "DESIGN.md 5/C06"),
    "C07": ("exploration", "runtime monitor on optimize_for_target_gateset, RouteCQC and device validators + independent membership tables, numpy permutation oracle and harness-built device specifications",
            "20 gateset configurations (CZ, sqrt-iSWAP, Sycamore, Google CZ incl. eject_paulis with Pauli families, IonQ API and "
            "native, AQT, Pasqal): every output operation must be accepted by the gateset AND by an independent membership table "
            "written from its docstring, the output must equal the catalogue product of the input up to global phase, documented "
            "count bounds and the keep-old-if-not-worse rule hold, ignored/tagged operations pass through, inputs are not mutated. "
            "Routing: every multi-qubit operation on a device-graph edge, initial map injective, routed unitary equals the "
            "relabelled input up to the reported swap permutation (numpy permutation matrices), inserted ops are (tagged) SWAPs. "
            "Devices: accept/reject equals the predicate known by construction from the harness's own specification.",
            "Input side from catalogue matrices, output side through cirq.unitary(op); tolerance 1e-6 (1e-5 for IonQ native, "
            "sqrt-iSWAP and 3-qubit paths).", "DESIGN.md 5/C07"),
    "C08": ("exploration", "runtime monitor on pow/inverse/controlled/phase_by and the predicates + catalogue eigen-definitions as oracle",
            "g**t is compared with the eigen-decomposition definition (catalogue projectors at exponent e*t) for every EigenGate "
            "family incl. qudits, with closed forms / integer matrix powers / root checks for the others; g.controlled(...) and "
            "controlled_by for value, product-of-sums, sum-of-products, qudit and nested controls are compared with the block "
            "matrix (shortcut types may change, matrices may not); phase_by with Z-conjugation up to phase; commutes / "
            "definitely_commutes / == + hash / approx_eq / equal_up_to_global_phase / has_stabilizer_effect / "
            "trace_distance_bound / pauli_expansion / linalg predicates are checked in the sound direction against matrices.",
            "Predicates are only checked True => matrix fact (converse only counted); approx_eq bound 100*atol; <=3 qubits for "
            "pairs.", "DESIGN.md 5/C08"),
    "C18": ("exploration", "icontract invariant + wrappers on ResultDict/digit functions/Sampler entry points; pure-Python records model as oracle",
            "Generated asymmetric results (0-9 repetitions, repeated keys, qudit digits, up to 70 digits) are observed through every "
            "view (records, measurements, data, histograms, str/repr, ==, +, JSON bit/digit packing) and compared with a plain "
            "Python model of [rep][instance][digit] and big integers; an icontract invariant re-checks the cached private views "
            "around every public access; big_endian_* functions are checked as mutual inverses for mixed radix; Sampler.run / "
            "sample / run_sweep / run_batch and their async variants are driven on fake samplers whose results encode (circuit, "
            "resolver, repetition) under seeded completion orders, plus ZerosSampler and Simulator on deterministic circuits.",
            "Flattened views only for keys measured once per repetition; data frame specified for bits only; cirq_google "
            "EngineResult / ProcessorSampler not covered.", "DESIGN.md 5/C18"),
    "C09": ("exploration", "runtime monitor on the density-matrix simulator, channel converters, trajectories (scripted seed) and noise models; dense Kraus-sum interpreter as oracle",
            "Noisy programs (catalogue unitaries + every library channel incl. p=0/1/tiny, resets, measurements; qubits and "
            "qutrits; basis/pure/mixed initial states) are run on DensityMatrixSimulator (final state and every moment step, "
            "c64/c128, split on/off) and compared with the Kraus-sum evolution computed by the reference interpreter, with "
            "validity (Hermitian, trace 1, PSD) at each step; measurement branches are enumerated with the scripted seed; "
            "kraus/choi/superoperator conversions, Moment/Circuit channel descriptions are compared with the reference map; "
            "state-vector trajectories are enumerated exhaustively (mixture draws and Kraus weights observed through the "
            "scripted uniform) and sum_paths p|psi><psi| must equal the reference rho; noise models are compared with the "
            "documented insertion rule and with circuit.with_noise.",
            "<=4 wires; Kraus branches lighter than 1e-7 never forced; thermal / device-derived noise models not covered yet.",
            "DESIGN.md 5/C09"),
    "C10": ("exploration", "runtime monitor on ParamResolver / resolve_parameters / sweeps / flatten + two independent expression evaluators and pure-Python sweep models",
            "Generated real-valued expression trees are resolved through ParamResolver.value_of (in-situ wrapper on every call), "
            "resolve_parameters on gates/ops/moments/circuits/CircuitOperations/tags, and compared with a plain recursive float "
            "evaluator and sympy xreplace+evalf; resolved gates are compared with catalogue matrices at the substituted numbers; "
            "identity short-cuts are checked against the model's free-symbol set; every sweep class (nested to depth 3) is "
            "compared with a stdlib model for len/iter/index/slice/keys/==/+/*; simulate_sweep[i] vs simulate(s[i]) with the "
            "first parameterized op at random depth; flatten/flatten_with_sweep gate by gate for every assignment.",
            "Expressions kept real and finite at every sub-expression (np.float_power vs complex algebra differ elsewhere); "
            "JSON/proto commutation left to C11/C16.", "DESIGN.md 5/C10"),
    "C14": ("exploration", "runtime monitor on the Pauli algebra API + numpy Kronecker-product oracle; exhaustive small cases",
            "Exhaustive: all ordered pairs of Pauli strings on <=2 wires x coefficients {+-1,+-i} for every binary law, all "
            "one-wire triples, all 24 single-qubit Cliffords (and, in thorough, all 11520 two-qubit Cliffords) as conjugators; "
            "random: strings on <=5 qubits with complex coefficients, Clifford circuits <=12 gates with the conjugator matrix "
            "built from catalogue matrices. Products, sums, powers, commutes, conjugated_by/after/before, mutable in-place "
            "forms, dense strings, PauliSum arithmetic, expectations from state vectors / density matrices / the simulators "
            "with random qubit maps, phasors and sum-exponentials (as products of rotation factors) are compared with matrices.",
            "Direction of conjugation pinned by the docstring examples; observable-measurement utilities (cirq.work) not covered.",
            "DESIGN.md 5/C14"),
    "C19": ("exploration", "runtime monitor on every QASM export entry point + independent OpenQASM reader executing the emitted text",
            "The text Cirq emits (to_qasm, cirq.qasm, QasmOutput str/save, save_qasm; versions 2.0 and 3.0, all qubit orders, "
            "precisions 3-15) is parsed by an independent reader whose gate semantics are qelib1.inc transcribed literally as "
            "macros over U and CX (stdgates table for 3.0) and executed by its own branching simulator; unitary programs are "
            "compared up to global phase with the catalogue product of the abstract program, measured/controlled programs by the "
            "exact joint distribution over creg contents (bit i of the register of key k <-> digit i), classical conditions "
            "evaluated with the creg integer little-endian as the OpenQASM specification says; parse errors are violations.",
            "qelib1.inc / stdgates.inc transcribed from the OpenQASM specifications from memory (self-test against closed forms); "
            "<=5 qubits.", "DESIGN.md 5/C19"),
    "C13": ("exploration", "runtime monitor on stabilizer states after every gate + scripted-seed explorer on the Clifford simulators; dense interpreter and independently enumerated group as oracle",
            "Random Clifford circuits (catalogue families at half-integer exponents with global shifts, only gates with documented "
            "stabilizer effect, n<=5) are applied gate by gate with cirq.act_on to the tableau and CH-form states: every reported "
            "stabilizer must stabilize the reference state (sign included), destabilizers must satisfy their commutation "
            "relations, CH-form amplitudes must equal the reference including global phase; CliffordSimulator.simulate and the "
            "exact run distributions of CliffordSimulator / StabilizerSampler (all randint draws enumerated) are compared with "
            "the Born rule. The 24-element group is checked exhaustively (from_unitary, merged_with for all pairs, powers, "
            "decompositions incl. phase, pauli_tuple, equivalent_gate_before) and the 11520-element two-qubit group through "
            "words over H, S, CZ matrices (sampled in quick, exhaustive in thorough): from_op_list, inverse, powers, tableau "
            "then/inverse, decompositions, action on basis states.",
            "Group enumeration by BFS over generator matrices modulo phase (vf/refmodel/pauli.py); n<=5.", "DESIGN.md 5/C13"),
    "C11": ("exploration", "runtime monitor on to_json/read_json, repr, hash/==, qid ordering, copy and pickle (incl. a child interpreter with another hash seed); stored corpus + field-by-field structural diff as oracle",
            "Exhaustive over the corpus: every stored .json/.json_inward document of the five packages must read to the value "
            "its paired .repr evaluates to (and plain .json values re-serialize and read back equal). Generated values (142 typed "
            "generators covering 207 of 213 registered classes, repr-literal mutation of stored examples, nesting to depth 3 "
            "with shared FrozenCircuits) are round-tripped through JSON and eval(repr) and compared by ==, hash, repr, type and "
            "a field-by-field structural diff that does not go through __eq__ (pool gates also against catalogue matrices), so "
            "a lossy field cannot hide behind a lenient equality; equality/hash contract on near-duplicate pools; qid ordering "
            "laws on mixed triples; copy/deepcopy/pickle after the hash was cached, incl. unpickling in a child process with a "
            "different PYTHONHASHSEED.",
            "Classes the packages list as not serializable are excluded; lazily cached attributes are whitelisted with source "
            "references in the driver.", "DESIGN.md 5/C11"),
    "C12": ("exploration", "runtime monitor on CircuitOperation trees (unitary, keys, scripted-seed outcome distributions, unrolled forms, composing constructors); independently flattened reference program as oracle",
            "Abstract block trees (depth 0-3; repetitions 0/1/2/3/-1/-2; explicit, default or disabled repetition ids; qubit maps; "
            "key maps; measurements; key and sympy controls bound inside or outside their block, incl. shadowing; zero-qubit "
            "operations) are built into CircuitOperations through the public constructor and independently flattened by the "
            "documented rules; the wrapped circuit's unitary, measurement/control key sets and exact outcome distribution "
            "(all random draws enumerated, three simulator configurations) must equal the flat program's, and so must the "
            "outputs of mapped_circuit, mapped_op, decompose, unroll_circuit_op and the greedy unrollers; with_qubit_mapping / "
            "with_measurement_key_mapping / repeat / inverse / with_qubits / with_key_path compositions are checked as "
            "equalities of flat programs; single-qubit bodies (dedicated unitary path) with bound symbols and global phases.",
            "Flattening rules transcribed from the CircuitOperation docstrings; repeat_until loops and parent_path not generated "
            "yet; <=4 qubits, <=6 recorded digits.", "DESIGN.md 5/C12"),
    "C16": ("exploration", "runtime monitor on the Google wire-format writers/readers + structural lock-step comparator, proto-level walk and plain-Python models",
            "Generated programs over the serializable vocabulary (numeric/symbol/expression arguments, every supported tag type, "
            "classical controls, CircuitOperations; palettes that force second/third uses, equal-but-distinct and nearly-equal "
            "operations, tags, moments and sub-circuits so every constants-table hit/miss pattern occurs) go through "
            "CIRCUIT_SERIALIZER serialize/deserialize (also multi-program and circuit-function forms); a structural comparator "
            "walks original and result in lock-step (float32 tolerance where the proto field is float), the proto is walked for "
            "index ranges and unreferenced constants, and unitaries are compared for <=5 qubits; sweeps/run contexts are compared "
            "by enumerated assignments, results/pack_bits for every repetition count 0..70 against plain-Python bit lists, v1 "
            "formats likewise; GridDevice round trips and accept/reject decisions against harness-built specifications.",
            "Uses Cirq's own value equality to decide which uses may share a constant (documented collapses accepted); "
            "api.v2.ndarrays only through arg_to_proto.", "DESIGN.md 5/C16"),
    "C15": ("exploration", "postcondition monitors on every decomposition/synthesis routine (also attachable as icontract ensure wrappers) + numpy Weyl-chamber oracle",
            "Each routine (kak_decomposition / kak_vector / canonicalisation, magic-basis and Kronecker factorisations, "
            "bidiagonalisation, unitary_eig / map_eigenvalues, single-qubit angle / axis-angle / PhasedXZ forms, two-qubit "
            "synthesis to CZ (all option combinations, diagonal and isometry variants), sqrt-iSWAP (every required count), four "
            "FSim, cphase->2 FSim, MS, Sycamore; three-qubit, Shannon and multi-controlled decompositions; two-qubit state "
            "preparation; Clifford tableau synthesis) is called on Haar-random inputs plus the measure-zero set (named gates and "
            "local conjugates, Weyl vertices/edges/faces, degenerate and near-degenerate spectra, near-class inputs at multiples "
            "of atol) and its documented postcondition is evaluated outside Cirq: factors rebuild the input, canonical ranges, "
            "gate-count bounds, documented rejections.",
            "Reconstruction threshold max(100*atol, 1e-5) (10x band only counted); returned operations lowered through "
            "cirq.unitary(op); tabulation-based synthesis not covered.", "DESIGN.md 5/C15"),
    "C20": ("fault_enumeration", "offline history checkers over client-boundary event logs; the fake sampler / model Quantum Engine server is the scheduler and fault injector",
            "Collector layer (duet): a controller task in the same scheduler completes or fails parked sampler futures in "
            "enumerated (all completion orders x batchings x failure positions for <=5 jobs, concurrency 1-3) or seeded "
            "orders; the recorded history is checked for exactly-once delivery of each job's own result, conservation, "
            "concurrency and sample-budget bounds, progress (next_job re-asked when capacity remains), clean stop, first error "
            "raised once; PauliSumCollector and run_batch(_async) ordering likewise. Stream layer: StreamManager runs against a "
            "sequential model of the Quantum Engine (program/job ledger, run counts) on a real asyncio executor thread with a "
            "server-side barrier; all fault sequences of length <=3 over {break-before, break-after, already-exists, "
            "does-not-exist, out-of-order} and seeded longer ones with cancellation and stop(); every future must resolve once "
            "with its own job's result, retries must follow the documented table given what the server processed, message ids "
            "unique, cancellation yields one cancel RPC, bounded progress after quiescence (K loop turns).",
            "Real gRPC is modelled (old request iterator drains to its sentinel, as the code assumes); wall-clock watchdogs map "
            "to INCONCLUSIVE; LINE-event yield injection not built.", "DESIGN.md 5/C20"),
}

# additions after the first complete build (appended to the level text)
ALSO = {
    "C03": " Also: the same gate object re-read after a battery of read-only queries and after the arrays it handed out were overwritten; dictionary-form asymmetric depolarizing channels; gate.with_probability.",
    "C05": " Also: operations on no qubits (global phases, plain and classically controlled), symbolic operations with the parameter caches checked against the operations held, reflected add right after queries.",
    "C20": " Also: EngineJob's result waiting layered over every settled stream future (errors surface, results pass through, only StreamError polls).",
    "C01": " Also: user gates that implement only _unitary_, echo steps, every documented control-value form on the classical simulator; views of the final state (density_matrix_of, bloch_vector_of, compute_amplitudes); per-moment copies kept across the iteration.",
    "C02": " Also: the Clifford simulators (CH form, tableau sampler) with repeated keys and feed-forward; Pauli-product measurements; "
           "nested repeated sub-circuits that re-use key names, on all simulators; the same run after its keys were renamed / prefixed; cirq.sample (the self-dispatching entry point); several conditions on one operation and the cirq.If spelling; repetitions of the Clifford simulators as independent runs.",
    "C04": " Also: Moments as values (operations on interleaved qubit ranges in shuffled order), arbitrary channels, repeated and inverted CircuitOperation wrappers, qudit controls up to dimension 6.",
    "C06": " Also: a 'merge anything connected' option set for the merge primitives, a verdict for outputs that lost every measurement, cirq.ControlledOperation (phase-only sub-operations) and user-defined channels in the input programs.",
    "C07": " Also: named two-qubit gates at integer powers and pairs of named gates alone on one pair; device circuits holding the same gate "
           "with and without the tag that decides its gate family; single-qubit gates at whole-number powers alone on their qubit.",
    "C08": " Also: the same gate on exchanged qubits (parameters snapped onto symmetry lattices), CliffordGate integer powers, "
           "trace-distance bounds through control wrappers; commutes at every tolerance asked for (nearly commuting pairs); controlled operations through their action on a state; operands unchanged by the predicates.",
    "C09": " Also: arbitrary (complex, non-diagonal) channels, ThermalNoiseModel against its documented Lindblad operators, "
           "InsertionNoiseModel identifier matching, device-derived models (NoiseModelFromNoiseProperties), qis measures, coherent noise gates, cirq.final_density_matrix(noise=), joint Pauli measurements, cirq.apply_mixture on caller-owned tensors.",
    "C10": " Also: composed resolvers with overlapping keys, symbolic repetition counts resolving to negative integers, circuits derived (copy / + / radd / insert / slice ...) from a circuit whose parameter answers are already cached.",
    "C11": " Also: mapping arguments in random insertion order, arbitrary channels.",
    "C12": " Also: classically controlled sub-circuits, key maps that re-point control keys, tags at every depth, symbolic / replaced "
           "repetition counts after arbitrary earlier queries, repeat-of-repeat id order and records, parent paths, conditions on earlier records of a repeated key (index / bit mask), confusion maps inside blocks.",
    "C13": " Also: multi-qubit CliffordGate on arbitrary positions of a larger register, every integer power; the state classes as values (copy isolation, collapsing and non-collapsing measurement).",
    "C14": " Also: cirq.work.measure_observables on eigenstates (exact sampled means, both groupings, readout symmetrisation); one PauliSum through a history of in-place edits with queries in between; Sampler.sample_expectation_values; single-qubit Pauli combinations raised to integer powers (pow_pauli_combination, LinearCombinationOfGates).",
    "C15": " Also: the parameterized sqrt-iSWAP decompositions resolved at special values; the known-gate Sycamore table probed with whole-number and negative powers.",
    "C16": " Also: zero / huge bitmasks, string tags spelling qubit ids, comparison aware of 32-bit literals and of gate value equality.",
    "C17": " Also: echo operations (an earlier operation repeated with one parameter changed); Cirq's own unitary of the submitted circuit against the same reference.",
    "C18": " Also: cirq_google EngineResult views and JSON, ProcessorSampler batching against a fake processor, ValidatingSampler, sweeps "
           "spelled in mixed key order, results larger than the histogram's internal batch.",
    "C19": " Also: user gates with only _unitary_ (generic KAK fall-back) and keys measured repeatedly with different widths.",
}

PENDING_REASON = "check not built yet in this round; design in DESIGN.md section 5 (runtime monitor + reference oracle)"


def main():
    ids = ["C%02d" % i for i in range(1, 21)]
    checks = []
    for pid in ids:
        if pid not in CHECKS:
            continue
        cat, tech, text, note, ref = CHECKS[pid]
        text = text + ALSO.get(pid, "")
        checks.append({
            "property_id": pid,
            "quick_cmd": "./check %s quick" % pid,
            "thorough_cmd": "./check %s thorough" % pid,
            "evidence_file": "evidence/%s.json" % pid,
            "replay_cmd_template": "./check %s --replay {path}" % pid,
            "engine": "vf",
            "level_claimed": {"category": cat, "text": text, "design_ref": ref},
            "level_note": note,
            "technique": tech,
        })
    na = [{"property_id": pid, "reason": PENDING_REASON} for pid in ids if pid not in CHECKS]
    m = {
        "version": 1,
        "setup_cmd": "./setup.sh",
        "hooks": {
            "guard": "CIRQ_VERIF",
            "enable": "no source hooks are needed: every observation point is a public function, a class attribute or an object "
                      "the caller passes in; checks import the working tree via PYTHONPATH and wrap from the harness "
                      "(CIRQ_VERIF=1 is set for workers but nothing in the repository reads it)",
            "baseline_off_cmd": "cd /repo && /venv/bin/python -m pytest -ra -q -p no:cacheprovider --timeout=900 "
                                "--continue-on-collection-errors",
            "source_commits": [],
            "add_only": True,
        },
        "engines": [{
            "name": "vf", "path": "vf/",
            "serves_properties": sorted(CHECKS),
            "kind_free_text": "runtime monitoring: real Cirq code from the working tree driven by generated hostile workloads in "
                              "sharded subprocesses; monitors at the public API boundary (wrappers, icontract contracts, scripted "
                              "seed objects, fake samplers/servers as schedulers) judged by an independent numpy/stdlib reference "
                              "model; sys.monitoring coverage observer for must-reach functions; three-valued verdicts",
        }],
        "checks": checks,
        "notes": "Exit codes: 0 held on what was observed, 1 VIOLATION (with replay file), 2 INCONCLUSIVE (monitor not reached / "
                 "wrong import root / watchdog). VERIF_SEED, VERIF_TIER, VERIF_REPO honoured. Known findings: known_findings.json.",
        "not_applicable": na,
    }
    json.dump(m, open(os.path.join(VERIF, "MANIFEST.json"), "w"), indent=1)
    print("MANIFEST.json written: %d checks, %d not claimed" % (len(checks), len(na)))


if __name__ == "__main__":
    main()
