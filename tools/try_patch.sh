#!/bin/bash
# tools/try_patch.sh <seeded-name> <prop> [<prop> ...]: fresh worktree of /repo HEAD + seeded/<name>/patch.diff,
# run the quick checks against it (VERIF_REPO), remove the worktree.  VERIF_SEED is passed through.
NAME=$1; shift
R=/tmp/tryrun-$NAME
git -C /repo worktree remove --force $R 2>/dev/null
git -C /repo worktree add -q --detach $R HEAD || exit 1
git -C $R apply /verif/seeded/$NAME/patch.diff || { echo "patch does not apply"; git -C /repo worktree remove --force $R; exit 1; }
cd /verif
for p in "$@"; do
  VERIF_REPO=$R ./check $p ${TIER:-quick} 2>&1 | grep -v "^  monitor\|^KNOWN-FINDING" | cut -c1-400 | tail -n 3
done
git -C /repo worktree remove --force $R
