#!/usr/bin/env python3
"""Regenerates the generated blocks of DESIGN.md (7.1 fixed, 7.2 known, 13 seeded) from known_findings.json and seeded/*/meta.json."""
import glob
import json
import os
import re

V = os.path.dirname(os.path.dirname(os.path.abspath(__file__)))
kf = json.load(open(os.path.join(V, "known_findings.json")))


def fixed_block():
    out = ["| property | commit | what failed |", "|---|---|---|"]
    for f in kf["fixed"]:
        parts = f.split(" ", 3)
        out.append("| %s | `%s` | %s |" % (parts[1].split("=")[1], parts[2], parts[3].replace("|", "/")))
    return "\n".join(out)


def known_block():
    byp = {}
    for k in kf["known"]:
        byp.setdefault(k["property"], []).append(k)
    out = []
    for prop in sorted(byp):
        out.append("* **%s** (%d): %s" % (prop, len(byp[prop]), "; ".join("`%s`" % k["key"].split(":", 1)[1] for k in byp[prop])))
    return "\n".join(out)


def seeded_block():
    out = ["| seeded change | property | what it needs to manifest | verdict of the checks run against it |", "|---|---|---|---|"]
    for d in sorted(glob.glob(os.path.join(V, "seeded", "*"))):
        try:
            m = json.load(open(os.path.join(d, "meta.json")))
        except Exception:
            continue
        runs = m.get("checks_run_against_change", {})
        verdict = "; ".join("%s: %s" % (p, "CAUGHT (%s)" % re.sub(r".*mechanism=([^ ]*).*", r"\1", r["first_violation"]) if r["exit"] == 1 else ("missed" if r["exit"] == 0 else "inconclusive")) for p, r in runs.items())
        note = m.get("note_from_main_session", "")
        if note:
            verdict += " - " + note.split(".")[0] + "; check strengthened, then caught"
        needs = str(m.get("what_it_needs_to_manifest", ""))
        needs = needs[:260] + ("..." if len(needs) > 260 else "")
        out.append("| `%s` | %s | %s | %s |" % (os.path.basename(d), m.get("property", "?"), needs.replace("|", "/").replace("\n", " "), verdict.replace("|", "/")))
    return "\n".join(out)


def main():
    p = os.path.join(V, "DESIGN.md")
    s = open(p).read()
    for name, fn in (("FIXED", fixed_block), ("KNOWN", known_block), ("SEEDED", seeded_block)):
        a, b = "<!-- GEN:%s -->" % name, "<!-- /GEN:%s -->" % name
        if a in s and b in s:
            s = s[: s.index(a) + len(a)] + "\n" + fn() + "\n" + s[s.index(b):]
    open(p, "w").write(s)
    print("DESIGN.md tables regenerated: %d fixed, %d known, %d seeded" % (len(kf["fixed"]), len(kf["known"]), len(glob.glob(os.path.join(V, "seeded", "*")))))


if __name__ == "__main__":
    main()
