#!/bin/bash
# tools/try_seed.sh <worktree-or-seeded-dir-with-applied-tree> <prop> [<prop> ...]
# Runs the given checks against a scratch tree that carries one seeded change (VERIF_REPO), never against /repo.
T=$1; shift
for p in "$@"; do
  echo "== $p against $T"
  VERIF_REPO=$T ./check $p quick 2>&1 | grep -v "^  monitor\|^KNOWN-FINDING" | cut -c1-260 | tail -4
done
