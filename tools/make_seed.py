#!/usr/bin/env python3
"""tools/make_seed.py <Cxx> <suffix> "<areas already used; pick a different one: hints>"
Creates a scratch worktree /tmp/seed-<Cxx><suffix> of /repo HEAD and the prompt /tmp/seedprompt-<Cxx><suffix>.txt for a
fresh sub-agent.  The prompt holds only the property text (nothing from /verif)."""
import json
import subprocess
import sys

prop, suf, avoid = sys.argv[1], sys.argv[2], sys.argv[3] if len(sys.argv) > 3 else ""
P = None
for line in open("/verif/properties.jsonl"):
    d = json.loads(line)
    if d["id"] == prop:
        P = d
wt = "/tmp/seed-%s%s" % (prop, suf)
subprocess.run(["git", "-C", "/repo", "worktree", "add", "--detach", wt, "HEAD"], check=True, capture_output=True)
pp = ":".join("%s/%s" % (wt, x) for x in ("cirq-core", "cirq-google", "cirq-ionq", "cirq-aqt", "cirq-pasqal"))
where = ", ".join(P["anchors"]["files"])
txt = """You are testing how well a verification suite (which you cannot see) detects subtle regressions in quantumlib/Cirq. You work ONLY in the scratch git worktree {wt} (a checkout of Cirq 1.8.0.dev0 with a few recent bug fixes). Do NOT look at or touch /verif or /repo; nothing there is relevant to you.

Property that must be broken:
  id: {id}
  title: {title}
  statement: {statement}
  quantified over: {quant}
  where the behaviour lives: {where}

Your job: produce ONE small, realistic change to the Cirq source in the worktree (the kind of regression a well-meaning refactor or optimisation could introduce) that BREAKS this property, while
  (a) everything still imports, and
  (b) the existing test suite still passes: at minimum run the upstream tests of the module(s) you touch with the worktree on the path, e.g.
      cd {wt} && PYTHONPATH={pp} /venv/bin/python -m pytest -q -p no:cacheprovider <the test files next to the files you changed, and the test files of close callers>
      (never use -n / xdist). If one of those upstream tests fails with your change, pick a different change: the change must be invisible to the existing tests. (The pinned baseline of this sandbox only runs the vendor packages cirq-google/cirq-ionq/cirq-aqt/cirq-pasqal plus dev_tools/examples against an INSTALLED cirq 1.7.0, so a change to cirq-core cannot fail it; if you touch a vendor package also run `cd {wt} && /venv/bin/python -m pytest -q -p no:cacheprovider <that package's test dir>` and make sure nothing new fails.)
  (c) the breakage needs something specific to manifest - a particular parameter value or range, axis layout, option combination, multi-step sequence of calls, a cache populated by an earlier query, two cooperating sites that each look fine alone - NOT something ordinary use would expose at once.

{avoid}

Also write a demonstration: a small standalone Python program {wt}/demo_{id}.py that exits 0 on the original code and non-zero (assertion failure) with your change applied, run as
      PYTHONPATH={pp} /venv/bin/python {wt}/demo_{id}.py
The demo must check the property itself (e.g. compare against numpy matrices or plain-Python values computed independently), not just "output differs from before". Verify both directions yourself with `git diff > patch.diff; git apply -R patch.diff; <run demo>; git apply patch.diff; <run demo>`. NEVER use `git stash` (the stash is shared with other people's worktrees).

Deliver, in the worktree: the modified source (leave it applied, uncommitted), `patch.diff` (output of `git diff` for the source change only, excluding the demo), the demo file, and `meta.json` with keys: property, summary (one sentence), what_it_needs_to_manifest, files_changed, upstream_tests_run (the exact commands) and their result. Do not commit. Keep the change under ~15 changed lines. Finish with a short report: the diff, why existing tests do not see it, what triggers it.
""".format(wt=wt, pp=pp, id=prop, title=P.get("title", ""), statement=P.get("statement", ""), quant=P["quantifier"]["text"], where=where,
           avoid=("IMPORTANT: " + avoid) if avoid else "")
open("/tmp/seedprompt-%s%s.txt" % (prop, suf), "w").write(txt)
print(wt)
