#!/bin/bash
# tools/seed_eval.sh <worktree> <name> <prop> [<prop>...]: confirm the seeded change, run the checks against the
# worktree (VERIF_REPO), record what happened in seeded/<name>/verdict.json
W=$1; NAME=$2; shift; shift
cd /verif
tools/confirm_seed.sh $W x $NAME | tee /tmp/seed_eval_confirm.log
grep -q CONFIRMED /tmp/seed_eval_confirm.log && ! grep -q "NOT CONFIRMED" /tmp/seed_eval_confirm.log || exit 1
# run the checks against a FRESH worktree of /repo's current HEAD with only this patch applied
R=/tmp/seedrun-$NAME
git -C /repo worktree remove --force $R 2>/dev/null
git -C /repo worktree add -q --detach $R HEAD || exit 1
git -C $R apply /verif/seeded/$NAME/patch.diff || { echo "patch does not apply to current HEAD"; git -C /repo worktree remove --force $R; exit 1; }
echo "{" > /tmp/verdict.json
first=1
for p in "$@"; do
  VERIF_REPO=$R ./check $p quick > /tmp/seed_eval_$p.log 2>&1; rc=$?
  line=$(grep -m1 "^VIOLATION" /tmp/seed_eval_$p.log | cut -c1-400 | sed 's/"/\\"/g' | sed "s#/verif/evidence/scratch-runs/replays/##")
  [ $first -eq 1 ] || echo "," >> /tmp/verdict.json; first=0
  echo "\"$p\": {\"exit\": $rc, \"first_violation\": \"$line\"}" >> /tmp/verdict.json
  echo "$p rc=$rc $line"
done
echo "}" >> /tmp/verdict.json
git -C /repo worktree remove --force $R
python3 - "$NAME" <<'P'
import json,sys,os
name=sys.argv[1]
v=json.load(open('/tmp/verdict.json'))
d='/verif/seeded/%s'%name
m={}
if os.path.exists(d+'/meta.json'):
    try: m=json.load(open(d+'/meta.json'))
    except Exception: m={}
m['confirmed_by_main_session']={'demo_fails_with_change_passes_without':True,'upstream_tests_next_to_changed_files':'pass'}
m['checks_run_against_change']=v
json.dump(m,open(d+'/meta.json','w'),indent=1)
P
