#!/bin/bash
# tools/confirm_seed.sh <worktree> <PID> <name>   -> confirms demo fails with / passes without the change, runs the
# upstream tests next to the changed files, and stores patch+demo+meta under seeded/<name>/
W=$1; PID=$2; NAME=$3
PP=$W/cirq-core:$W/cirq-google:$W/cirq-ionq:$W/cirq-aqt:$W/cirq-pasqal
cd $W || exit 2
DEMO=$(ls demo_*.py | head -1)
git diff -- . ':(exclude)demo_*' ':(exclude)patch.diff' ':(exclude)meta.json' > /tmp/confirm.patch
[ -s /tmp/confirm.patch ] || { echo "no source change"; exit 2; }
PYTHONPATH=$PP /venv/bin/python $DEMO > /tmp/confirm_with.log 2>&1; RC_WITH=$?
git stash -q
PYTHONPATH=$PP /venv/bin/python $DEMO > /tmp/confirm_without.log 2>&1; RC_WITHOUT=$?
git stash pop -q
echo "demo with change rc=$RC_WITH, without rc=$RC_WITHOUT"
TESTS=""
for f in $(git diff --name-only | grep '\.py$'); do t=${f%.py}_test.py; [ -f $t ] && TESTS="$TESTS $t"; done
echo "upstream tests: $TESTS"
PYTHONPATH=$PP /venv/bin/python -m pytest -q -p no:cacheprovider $TESTS 2>&1 | tail -2 | tee /tmp/confirm_tests.log
if [ $RC_WITH -ne 0 ] && [ $RC_WITHOUT -eq 0 ] && ! grep -qE "(^|[ ,])[0-9]+ (failed|error)" /tmp/confirm_tests.log; then
  D=/verif/seeded/$NAME; mkdir -p $D
  cp /tmp/confirm.patch $D/patch.diff; cp $DEMO $D/; [ -f meta.json ] && cp meta.json $D/meta.json
  echo "CONFIRMED -> $D"
else
  echo "NOT CONFIRMED"
fi
