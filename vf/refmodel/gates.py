"""Closed-form gate catalogue written from the class docstrings and textbook
definitions.  numpy only; never imports cirq.  Big-endian qubit order.

Every function returns the matrix (or Kraus list) the *documentation* defines;
this file is the specification side of property C03 and the source of
"the matrix of this operation" for every generated program elsewhere.
"""
from __future__ import annotations

import itertools
import math

import numpy as np

from . import linalg as L

I2 = np.eye(2, dtype=complex)
X = np.array([[0, 1], [1, 0]], dtype=complex)
Y = np.array([[0, -1j], [1j, 0]], dtype=complex)
Z = np.array([[1, 0], [0, -1]], dtype=complex)
H = np.array([[1, 1], [1, -1]], dtype=complex) / math.sqrt(2)
PAULI = {"I": I2, "X": X, "Y": Y, "Z": Z}


def _ph(turn_halves):
    """exp(i*pi*x)"""
    return np.exp(1j * math.pi * turn_halves)


def eig_matrix(components, e, s=0.0):
    """EigenGate definition: sum_k exp(i pi e (theta_k + s)) P_k."""
    return sum(_ph(e * (th + s)) * np.asarray(P, dtype=complex) for th, P in components)


def _pauli_components(P):
    d = P.shape[0]
    return [(0.0, (np.eye(d) + P) / 2), (1.0, (np.eye(d) - P) / 2)]


# ---- eigen-components per family (what "raising to a power" is defined by)
def x_components(d=2):
    if d == 2:
        return _pauli_components(X)
    w = np.exp(2j * math.pi / d)
    comps = []
    for j in range(d):
        v = np.array([w ** (-j * k) for k in range(d)]) / math.sqrt(d)  # shift eigenvector, eigenvalue w^j
        comps.append((2.0 * j / d, np.outer(v, v.conj())))
    return comps


def z_components(d=2):
    comps = []
    for j in range(d):
        P = np.zeros((d, d), dtype=complex)
        P[j, j] = 1
        comps.append((2.0 * j / d, P))
    return comps


def y_components():
    return _pauli_components(Y)


def h_components():
    return _pauli_components(H)


def cz_components():
    return [(0.0, np.diag([1, 1, 1, 0]).astype(complex)), (1.0, np.diag([0, 0, 0, 1]).astype(complex))]


def cx_components():
    cx = np.eye(4, dtype=complex)
    cx[2:, 2:] = X
    return _pauli_components(cx)


SWAP = np.array([[1, 0, 0, 0], [0, 0, 1, 0], [0, 1, 0, 0], [0, 0, 0, 1]], dtype=complex)


def swap_components():
    return _pauli_components(SWAP)


def iswap_components():
    # ISWAP**t = exp(+i pi t (XX+YY)/4): eigenvalue of (XX+YY)/2 in {0, +1, -1}
    g = (np.kron(X, X) + np.kron(Y, Y)) / 2
    w, v = np.linalg.eigh(g)
    comps = []
    for val in (0.0, 1.0, -1.0):
        cols = v[:, np.abs(w - val) < 1e-9]
        comps.append((val / 2, cols @ cols.conj().T))
    return comps


def xx_components():
    return _pauli_components(np.kron(X, X))


def yy_components():
    return _pauli_components(np.kron(Y, Y))


def zz_components():
    return _pauli_components(np.kron(Z, Z))


def ccz_components():
    P = np.zeros((8, 8), dtype=complex)
    P[7, 7] = 1
    return [(0.0, np.eye(8) - P), (1.0, P)]


def ccx_components():
    m = np.eye(8, dtype=complex)
    m[6:, 6:] = X
    return _pauli_components(m)


EIGEN = {
    "XPow": x_components, "YPow": y_components, "ZPow": z_components, "HPow": h_components,
    "CZPow": cz_components, "CXPow": cx_components, "SwapPow": swap_components,
    "ISwapPow": iswap_components, "XXPow": xx_components, "YYPow": yy_components,
    "ZZPow": zz_components, "CCZPow": ccz_components, "CCXPow": ccx_components,
}


def eigen_gate(family, e, s=0.0, d=None):
    comps = EIGEN[family](d) if d is not None and family in ("XPow", "ZPow") else EIGEN[family]()
    return eig_matrix(comps, e, s)


# ---- closed forms straight from the docstrings (used to cross-check the eigen forms in C03)
def xpow_doc(t, s=0.0):
    c, sn = math.cos(math.pi * t / 2), math.sin(math.pi * t / 2)
    return _ph(t * (s + 0.5)) * np.array([[c, -1j * sn], [-1j * sn, c]])


def ypow_doc(t, s=0.0):
    c, sn = math.cos(math.pi * t / 2), math.sin(math.pi * t / 2)
    return _ph(t * (s + 0.5)) * np.array([[c, -sn], [sn, c]])


def zpow_doc(t, s=0.0):
    return _ph(s * t) * np.array([[1, 0], [0, _ph(t)]])


def hpow_doc(t, s=0.0):
    c, sn = math.cos(math.pi * t / 2), math.sin(math.pi * t / 2)
    g = _ph(t / 2)
    r = 1 / math.sqrt(2)
    return _ph(t * s) * np.array([[g * (c - 1j * sn * r), -1j * g * sn * r], [-1j * g * sn * r, g * (c + 1j * sn * r)]])


def czpow_doc(t, s=0.0):
    return _ph(s * t) * np.diag([1, 1, 1, _ph(t)])


def cxpow_doc(t, s=0.0):
    c, sn, g = math.cos(math.pi * t / 2), math.sin(math.pi * t / 2), _ph(t / 2)
    m = np.eye(4, dtype=complex)
    m[2:, 2:] = [[g * c, -1j * g * sn], [-1j * g * sn, g * c]]
    return _ph(s * t) * m


def swappow_doc(t, s=0.0):
    c, sn, g = math.cos(math.pi * t / 2), math.sin(math.pi * t / 2), _ph(t / 2)
    m = np.eye(4, dtype=complex)
    m[1:3, 1:3] = [[g * c, -1j * g * sn], [-1j * g * sn, g * c]]
    return _ph(s * t) * m


def iswappow_doc(t, s=0.0):
    c, sn = math.cos(math.pi * t / 2), math.sin(math.pi * t / 2)
    m = np.eye(4, dtype=complex)
    m[1:3, 1:3] = [[c, 1j * sn], [1j * sn, c]]
    return _ph(s * t) * m


def rx(rads):
    return L.expm_herm(X, -0.5j * rads)


def ry(rads):
    return L.expm_herm(Y, -0.5j * rads)


def rz(rads):
    return L.expm_herm(Z, -0.5j * rads)


def phased_xpow(p, t, s=0.0):
    """Z^p X^t Z^-p (matrix product), docstring matrix of PhasedXPowGate, times exp(i pi s t)."""
    c, sn = math.cos(math.pi * t / 2), math.sin(math.pi * t / 2)
    return _ph(s * t) * np.array([[_ph(t / 2) * c, -1j * _ph(t / 2 - p) * sn],
                                  [-1j * _ph(t / 2 + p) * sn, _ph(t / 2) * c]])


def phased_xz(x, z, a):
    c, sn = math.cos(math.pi * x / 2), math.sin(math.pi * x / 2)
    return np.array([[_ph(x / 2) * c, -1j * _ph(x / 2 - a) * sn],
                     [-1j * _ph(x / 2 + z + a) * sn, _ph(x / 2 + z) * c]])


def fsim(theta, phi):
    a, b, c = math.cos(theta), -1j * math.sin(theta), np.exp(-1j * phi)
    return np.array([[1, 0, 0, 0], [0, a, b, 0], [0, b, a, 0], [0, 0, 0, c]], dtype=complex)


def phased_fsim(theta, zeta, chi, gamma, phi):
    c, s = math.cos(theta), math.sin(theta)
    e = np.exp
    return np.array([
        [1, 0, 0, 0],
        [0, e(-1j * gamma - 1j * zeta) * c, -1j * e(-1j * gamma + 1j * chi) * s, 0],
        [0, -1j * e(-1j * gamma - 1j * chi) * s, e(-1j * gamma + 1j * zeta) * c, 0],
        [0, 0, 0, e(-2j * gamma - 1j * phi)]], dtype=complex)


def phased_iswap(p, t, s=0.0):
    c, sn, f = math.cos(math.pi * t / 2), math.sin(math.pi * t / 2), np.exp(2j * math.pi * p)
    m = np.eye(4, dtype=complex)
    m[1:3, 1:3] = [[c, 1j * sn * f], [1j * sn * np.conj(f), c]]
    return _ph(s * t) * m


def givens(a):
    c, s = math.cos(a), math.sin(a)
    return np.array([[1, 0, 0, 0], [0, c, -s, 0], [0, s, c, 0], [0, 0, 0, 1]], dtype=complex)


def cphase(rads):
    return np.diag([1, 1, 1, np.exp(1j * rads)]).astype(complex)


def ms(rads):
    """cirq.ms(rads): exp(-i rads XX)."""
    return L.expm_herm(np.kron(X, X), -1j * rads)


def syc():
    return fsim(math.pi / 2, math.pi / 6)


def willow():
    return fsim(math.pi / 2, math.pi / 9)


CSWAP = np.eye(8, dtype=complex)
CSWAP[4:, 4:] = SWAP


def qft(n, without_reverse=False, inverse=False):
    N = 2 ** n
    w = np.exp(2j * math.pi / N)
    m = np.array([[w ** (x * y) for y in range(N)] for x in range(N)]) / math.sqrt(N)
    if without_reverse:
        m = bit_reversal(n) @ m
    return m.conj().T if inverse else m


def bit_reversal(n):
    N = 2 ** n
    m = np.zeros((N, N), dtype=complex)
    for x in range(N):
        r = int(format(x, "0%db" % n)[::-1], 2) if n else 0
        m[r, x] = 1
    return m


def phase_gradient(n, t=1.0):
    N = 2 ** n
    return np.diag([np.exp(2j * math.pi * x * t / N) for x in range(N)])


def diagonal(angles):
    return np.diag(np.exp(1j * np.asarray(angles, dtype=float)))


def qubit_permutation(perm):
    """sum_x |x_{p... }> : qubit i is sent to position perm[i]."""
    n = len(perm)
    N = 2 ** n
    m = np.zeros((N, N), dtype=complex)
    for x in range(N):
        bits = [(x >> (n - 1 - i)) & 1 for i in range(n)]
        out = [0] * n
        for i in range(n):
            out[perm[i]] = bits[i]
        y = 0
        for b in out:
            y = 2 * y + b
        m[y, x] = 1
    return m


def pauli_string_matrix(paulis, coef=1.0):
    return coef * L.kron(*[PAULI[p] for p in paulis]) if paulis else coef * np.eye(1, dtype=complex)


def identity(dims):
    return np.eye(L.dim_of(dims), dtype=complex)


# ---- IonQ native gates (arguments in turns)
def gpi(phi):
    return np.array([[0, np.exp(-2j * math.pi * phi)], [np.exp(2j * math.pi * phi), 0]])


def gpi2(phi):
    return np.array([[1, -1j * np.exp(-2j * math.pi * phi)], [-1j * np.exp(2j * math.pi * phi), 1]]) / math.sqrt(2)


def ionq_ms(phi0, phi1, theta=0.25):
    c, s = math.cos(math.pi * theta), math.sin(math.pi * theta)
    e = lambda x: np.exp(2j * math.pi * x)  # noqa
    return np.array([
        [c, 0, 0, -1j * e(-(phi0 + phi1)) * s],
        [0, c, -1j * e(-(phi0 - phi1)) * s, 0],
        [0, -1j * e(phi0 - phi1) * s, c, 0],
        [-1j * e(phi0 + phi1) * s, 0, 0, c]])


def ionq_zz(theta):
    a, b = np.exp(-1j * math.pi * theta), np.exp(1j * math.pi * theta)
    return np.diag([a, b, b, a])


# ---- channels as Kraus lists
def depolarize(p, n=1):
    strs = list(itertools.product("IXYZ", repeat=n))
    ks = []
    for st in strs:
        w = (1 - p) if all(c == "I" for c in st) else p / (4 ** n - 1)
        if w > 0:
            ks.append(math.sqrt(w) * pauli_string_matrix(st))
    return ks


def asymmetric_depolarize(px, py, pz):
    out = []
    for w, m in ((1 - px - py - pz, I2), (px, X), (py, Y), (pz, Z)):
        if w > 0:
            out.append(math.sqrt(w) * m)
    return out


def bit_flip(p):
    return [math.sqrt(1 - p) * I2, math.sqrt(p) * X]


def phase_flip(p):
    return [math.sqrt(1 - p) * I2, math.sqrt(p) * Z]


def amplitude_damp(g):
    return [np.array([[1, 0], [0, math.sqrt(1 - g)]], dtype=complex), np.array([[0, math.sqrt(g)], [0, 0]], dtype=complex)]


def generalized_amplitude_damp(p, g):
    sp, sq = math.sqrt(p), math.sqrt(1 - p)
    return [sp * np.array([[1, 0], [0, math.sqrt(1 - g)]], dtype=complex),
            sp * np.array([[0, math.sqrt(g)], [0, 0]], dtype=complex),
            sq * np.array([[math.sqrt(1 - g), 0], [0, 1]], dtype=complex),
            sq * np.array([[0, 0], [math.sqrt(g), 0]], dtype=complex)]


def phase_damp(g):
    return [np.array([[1, 0], [0, math.sqrt(1 - g)]], dtype=complex), np.array([[0, 0], [0, math.sqrt(g)]], dtype=complex)]


def reset(d=2):
    ks = []
    for i in range(d):
        k = np.zeros((d, d), dtype=complex)
        k[0, i] = 1
        ks.append(k)
    return ks


# ---------------------------------------------------------------- arbitrary channels (derived from an integer so that
# the program description stays small; the generator is plain numpy and shared by the real constructor and the model)
def random_kraus(seed, dim, k):
    """k Kraus operators of a Haar-random Stinespring isometry: complex, non-diagonal effects"""
    rng = np.random.default_rng([int(seed), int(dim), int(k), 77])
    a = rng.normal(size=(k * dim, dim)) + 1j * rng.normal(size=(k * dim, dim))
    q, r = np.linalg.qr(a)
    q = q * (np.diag(r) / np.abs(np.diag(r)))
    return [np.array(q[i * dim:(i + 1) * dim]) for i in range(k)]


def random_mixture(seed, dim, k):
    rng = np.random.default_rng([int(seed), int(dim), int(k), 78])
    ps = rng.dirichlet(np.ones(k))
    us = []
    for _ in range(k):
        a = rng.normal(size=(dim, dim)) + 1j * rng.normal(size=(dim, dim))
        q, r = np.linalg.qr(a)
        us.append(q * (np.diag(r) / np.abs(np.diag(r))))
    return [float(x) for x in ps], us


def weak_measure(theta, phi, strength):
    """two-outcome weak measurement along the Bloch axis (theta, phi): E_+- = (I +- s n.sigma)/2, K = sqrt(E)"""
    n = (math.sin(theta) * math.cos(phi), math.sin(theta) * math.sin(phi), math.cos(theta))
    ns = n[0] * X + n[1] * Y + n[2] * Z
    pp, pm = (I2 + ns) / 2, (I2 - ns) / 2
    a, b = math.sqrt((1 + strength) / 2), math.sqrt((1 - strength) / 2)
    return [a * pp + b * pm, b * pp + a * pm]


def seeded_unitary(seed, dim):
    """Haar-random unitary derived from an integer (so that program descriptions stay small)"""
    rng = np.random.default_rng([int(seed), int(dim), 79])
    z = (rng.standard_normal((dim, dim)) + 1j * rng.standard_normal((dim, dim))) / math.sqrt(2)
    q, r = np.linalg.qr(z)
    return q * (np.diag(r) / np.abs(np.diag(r)))
