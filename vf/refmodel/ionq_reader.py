"""Interpreter for IonQ JSON programs ("ionq.circuit.v1" / "ionq.multi-circuit.v1"
`input` objects).  numpy only; never imports cirq.

The *format* (field names) is what `cirq_ionq.Serializer` emits and what IonQ's
API reference lists for the JSON circuit language:

    {"gateset": "qis" | "native", "qubits": n, "circuit": [op, ...]}
    {"gateset": ..., "qubits": n, "circuits": [{"circuit": [op, ...]}, ...]}
    op = {"gate": name, "target": t | "targets": [t...],
          "control": c | "controls": [c...], "rotation": radians,
          "phase": turns, "phases": [turns, turns], "angle": turns,
          "terms": [...], "coefficients": [...], "time": t}

The *meaning* of each gate is written here from IonQ's published definitions
(docs.ionq.com, "Supported gates" table of the API reference and "Getting
started with native gates"), independently of Cirq:

QIS gate set (`"gateset": "qis"`), rotation angles in radians
    x y z      Pauli matrices                       not = alias of x
    h          Hadamard
    s / si     diag(1, i) / its conjugate transpose
    t / ti     diag(1, e^{i pi/4}) / its conjugate transpose
    v / vi     square root of NOT, (1/2)[[1+i, 1-i], [1-i, 1+i]] / its conjugate transpose
    rx ry rz   exp(-i * rotation * P / 2)
    cnot       alias of x with one control            swap   exchanges two targets
    xx yy zz   exp(-i * rotation * P(x)P / 2)         (Ising gates)
    any gate with "control"/"controls" acts only when all controls are |1>
    pauliexp   exp(-i * time * sum_k coefficients[k] * terms[k])
Native gate set (`"gateset": "native"`), phases and angles in *turns*
    gpi(phase)  gpi2(phase)  ms(phases[0], phases[1], angle=0.25)  zz(angle)
    with the matrices of vf.refmodel.gates (gpi, gpi2, ionq_ms, ionq_zz).
    For native `zz` IonQ's guide names the parameter "angle"; the Cirq
    serializer emits it under "phase".  Either field is read here (this reader
    judges the meaning of the number, not the API's field validation).

Qubit order.  `targets` are register indices 0..qubits-1; index i is the i-th
wire.  The unitary returned here is big-endian over wires (wire 0 is the most
significant tensor factor), which is only a presentation choice of this file.
IonQ registers are little-endian in *result integers*: bit i (value 2**i) of a
histogram key is the outcome of qubit i.  `outcome_probabilities` uses that.

Order of a `pauliexp` term string.  IonQ's convention is little-endian with
respect to `targets`: the LAST (rightmost) character of a term acts on
targets[0], the first character on targets[-1].  Sources: the comment in
cirq-ionq/cirq_ionq/serializer.py ("Cirq uses big-endian ordering while IonQ
API uses little-endian ordering") and the literal expectations in
cirq-ionq/cirq_ionq/serializer_test.py: Z(q0)*I(q1)*Y(q2) is expected as
terms ["YZ"] with targets [0, 2] (Z, the last character, on target 0), and
Z(q0)*Y(q2)*X(q3) as ["XYZ"] with targets [0, 2, 3].  This is also the
convention of Qiskit Pauli labels, which IonQ's own qiskit provider forwards
unchanged.  The IonQ pages themselves are not available offline, so this
orientation is inferred from those two sources and recorded as an assumption.

Measurement metadata (`decode_measurement_metadata`).  IonQ programs carry no
measurement; cirq_ionq passes "key <US> t0,t1,.." records joined by <RS>
(US = chr(31), RS = chr(30)) through the job metadata, cut into values of at
most 40 characters under the keys measurement0, measurement1, ...  The decoder
below is written from that description (docstring of
Serializer._serialize_measurements), not from Job.measurement_dict.
"""
from __future__ import annotations

import json
import math
import re

import numpy as np

from vf.refmodel import gates as G
from vf.refmodel import linalg as L


class PayloadError(Exception):
    """The payload is not a well-formed IonQ program (the API would refuse it)."""


_SQ2 = 1 / math.sqrt(2)
_X = np.array([[0, 1], [1, 0]], dtype=complex)
_Y = np.array([[0, -1j], [1j, 0]], dtype=complex)
_Z = np.array([[1, 0], [0, -1]], dtype=complex)
_I = np.eye(2, dtype=complex)
_PAULI = {"I": _I, "X": _X, "Y": _Y, "Z": _Z}
_S = np.diag([1, 1j]).astype(complex)
_T = np.diag([1, np.exp(0.25j * math.pi)]).astype(complex)
_V = 0.5 * np.array([[1 + 1j, 1 - 1j], [1 - 1j, 1 + 1j]], dtype=complex)

_FIXED_1Q = {
    "x": _X, "not": _X, "y": _Y, "z": _Z,
    "h": np.array([[1, 1], [1, -1]], dtype=complex) * _SQ2,
    "s": _S, "si": _S.conj().T, "t": _T, "ti": _T.conj().T, "v": _V, "vi": _V.conj().T,
}
_ROT_1Q = {"rx": _X, "ry": _Y, "rz": _Z}
_ROT_2Q = {"xx": _X, "yy": _Y, "zz": _Z}
_SWAP = np.array([[1, 0, 0, 0], [0, 0, 1, 0], [0, 1, 0, 0], [0, 0, 0, 1]], dtype=complex)
QIS_NAMES = set(_FIXED_1Q) | set(_ROT_1Q) | set(_ROT_2Q) | {"cnot", "swap", "pauliexp"}
NATIVE_NAMES = {"gpi", "gpi2", "ms", "zz"}


def _rot(P, theta):
    """exp(-i theta P / 2) for P^2 = 1."""
    P = np.asarray(P, dtype=complex)
    return math.cos(theta / 2) * np.eye(P.shape[0], dtype=complex) - 1j * math.sin(theta / 2) * P


def _as_list(op, single, plural):
    out = []
    if plural in op:
        v = op[plural]
        if not isinstance(v, (list, tuple)):
            raise PayloadError("%s is not a list: %r" % (plural, op))
        out += list(v)
    if single in op:
        out.append(op[single])
    for t in out:
        if isinstance(t, bool) or not isinstance(t, int):
            raise PayloadError("register index is not an int: %r" % (op,))
    return out


def _num(op, field):
    if field not in op:
        raise PayloadError("missing %r in %r" % (field, op))
    v = op[field]
    if isinstance(v, bool) or not isinstance(v, (int, float)) or not math.isfinite(v):
        raise PayloadError("%s is not a finite number in %r" % (field, op))
    return float(v)


def pauli_term_matrix(term, ntargets):
    """Matrix of one pauliexp term over (targets[0], targets[1], ...) big-endian:
    the rightmost character acts on targets[0]."""
    if len(term) != ntargets or any(ch not in _PAULI for ch in term):
        raise PayloadError("bad pauliexp term %r for %d targets" % (term, ntargets))
    return L.kron(*[_PAULI[ch] for ch in reversed(term)])


def op_steps(op, gateset):
    """-> list of (matrix, wires) for one serialized operation."""
    name = op.get("gate")
    targets = _as_list(op, "target", "targets")
    controls = _as_list(op, "control", "controls")
    if len(set(targets + controls)) != len(targets + controls):
        raise PayloadError("repeated register index in %r" % (op,))
    steps = []
    if gateset == "native":
        if controls:
            raise PayloadError("controls on a native gate: %r" % (op,))
        if name == "gpi" and len(targets) == 1:
            steps.append((G.gpi(_num(op, "phase")), targets))
        elif name == "gpi2" and len(targets) == 1:
            steps.append((G.gpi2(_num(op, "phase")), targets))
        elif name == "ms" and len(targets) == 2:
            ph = op.get("phases")
            if not isinstance(ph, (list, tuple)) or len(ph) != 2:
                raise PayloadError("ms needs two phases: %r" % (op,))
            ang = _num(op, "angle") if "angle" in op else 0.25
            steps.append((G.ionq_ms(float(ph[0]), float(ph[1]), ang), targets))
        elif name == "zz" and len(targets) == 2:
            ang = _num(op, "angle") if "angle" in op else _num(op, "phase")
            steps.append((G.ionq_zz(ang), targets))
        else:
            raise PayloadError("not a native-gateset operation: %r" % (op,))
        return steps
    if gateset != "qis":
        raise PayloadError("unknown gateset %r" % (gateset,))
    if name in _FIXED_1Q or name in _ROT_1Q:
        if not targets:
            raise PayloadError("no target: %r" % (op,))
        m = _FIXED_1Q[name] if name in _FIXED_1Q else _rot(_ROT_1Q[name], _num(op, "rotation"))
        base = [(m, [t]) for t in targets]
    elif name == "cnot":
        if len(targets) != 1 or not controls:
            raise PayloadError("cnot needs one target and a control: %r" % (op,))
        base = [(_X, targets)]
    elif name == "swap":
        if len(targets) != 2:
            raise PayloadError("swap needs two targets: %r" % (op,))
        base = [(_SWAP, targets)]
    elif name in _ROT_2Q:
        if len(targets) != 2:
            raise PayloadError("%s needs two targets: %r" % (name, op))
        P = _ROT_2Q[name]
        base = [(_rot(np.kron(P, P), _num(op, "rotation")), targets)]
    elif name == "pauliexp":
        terms, coefs = op.get("terms"), op.get("coefficients")
        if not isinstance(terms, (list, tuple)) or not isinstance(coefs, (list, tuple)) or len(terms) != len(coefs) \
                or not terms:
            raise PayloadError("pauliexp needs matching terms/coefficients: %r" % (op,))
        time = _num(op, "time")
        if time < 0:
            raise PayloadError("pauliexp with negative time: %r" % (op,))
        k = len(targets)
        H = np.zeros((2 ** k, 2 ** k), dtype=complex)
        for term, c in zip(terms, coefs):
            if isinstance(c, bool) or not isinstance(c, (int, float)) or not math.isfinite(c):
                raise PayloadError("pauliexp coefficient not a real number: %r" % (op,))
            H = H + float(c) * pauli_term_matrix(term, k)
        base = [(L.expm_herm(H, -1j * time), targets)]
    else:
        raise PayloadError("not a qis-gateset operation: %r" % (op,))
    if controls:
        nc = len(controls)
        base = [(L.controlled(m, [2] * nc, [(1,) * nc]), controls + list(w)) for m, w in base]
    return base


def circuits_of(program):
    """-> list of op lists (one entry for a single-circuit program)."""
    if "circuit" in program and "circuits" in program:
        raise PayloadError("both circuit and circuits present")
    if "circuit" in program:
        return [list(program["circuit"])]
    if "circuits" in program:
        return [list(c["circuit"]) for c in program["circuits"]]
    raise PayloadError("no circuit in program")


def circuit_unitary(ops, nqubits, gateset):
    dims = [2] * nqubits
    D = 2 ** nqubits
    t = np.eye(D, dtype=complex).reshape(dims + [D])
    for op in ops:
        for m, wires in op_steps(op, gateset):
            if any(w < 0 or w >= nqubits for w in wires):
                raise PayloadError("register index out of range 0..%d: %r" % (nqubits - 1, op))
            t = L.apply_on_axes(t, m, list(wires))
    return t.reshape(D, D)


def program_unitaries(program):
    """Unitary (big-endian over wires 0..qubits-1) of every circuit in an IonQ `input` dict."""
    n = program.get("qubits")
    if isinstance(n, bool) or not isinstance(n, int) or n < 1:
        raise PayloadError("bad qubits field %r" % (n,))
    gs = program.get("gateset")
    return [circuit_unitary(ops, n, gs) for ops in circuits_of(program)]


def gate_names(program):
    return [[op.get("gate") for op in ops] for ops in circuits_of(program)]


def little_endian_key(bits):
    """IonQ result integer of an outcome: bit i of the integer is qubit i."""
    return sum(int(b) << i for i, b in enumerate(bits))


def outcome_probabilities(unitary, nqubits, cutoff=1e-13):
    """{little-endian result integer: probability} of measuring U|0..0> on all qubits."""
    amp = np.asarray(unitary)[:, 0]
    out = {}
    for idx in range(2 ** nqubits):
        p = float(abs(amp[idx]) ** 2)
        if p > cutoff:
            bits = [(idx >> (nqubits - 1 - q)) & 1 for q in range(nqubits)]  # wire q of the big-endian index
            out[little_endian_key(bits)] = p
    return out


_MEAS_KEY = re.compile(r"^measurement(\d+)$")


def decode_measurement_metadata(meta):
    """Single-circuit metadata dict -> (ordered list of (key, [targets]), problems)."""
    chunks = []
    problems = []
    for k, v in meta.items():
        m = _MEAS_KEY.match(k)
        if m:
            if not isinstance(v, str):
                problems.append("metadata value %r is not a string" % (k,))
                continue
            if len(v) > 40:
                problems.append("metadata value %r longer than 40 characters" % (k,))
            if len(v) == 0:
                problems.append("metadata value %r is empty" % (k,))
            chunks.append((int(m.group(1)), v))
    chunks.sort()
    if [i for i, _ in chunks] != list(range(len(chunks))):
        problems.append("measurement chunk indices not 0..n-1: %r" % ([i for i, _ in chunks],))
    full = "".join(v for _, v in chunks)
    out = []
    if full == "":
        return out, problems
    for rec in full.split(chr(30)):
        parts = rec.split(chr(31))
        if len(parts) != 2:
            problems.append("record %r does not have exactly one unit separator" % (rec,))
            continue
        key, tg = parts
        try:
            targets = [int(x) for x in tg.split(",")]
        except ValueError:
            problems.append("targets %r not comma separated integers" % (tg,))
            continue
        out.append((key, targets))
    return out, problems


def decode_batch_metadata(meta):
    """Batch metadata -> (list per circuit of [(key, targets)], qubit_numbers, problems)."""
    problems = []
    try:
        per = json.loads(meta["measurements"])
        qn = json.loads(meta["qubit_numbers"])
    except Exception as e:  # noqa
        return [], [], ["batch metadata unreadable: %s" % (e,)]
    outs = []
    for d in per:
        o, p = decode_measurement_metadata(d)
        outs.append(o)
        problems += p
    return outs, qn, problems
