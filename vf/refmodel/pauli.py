"""Oracle side of C14: Pauli strings as (coefficient, letters) over integer
wires, their matrices as Kronecker products of the 2x2 Pauli matrices, and
enumerations of the small Clifford groups as words over catalogue matrices.
numpy only; never imports cirq."""
from __future__ import annotations

import itertools
import math

import numpy as np

from . import gates as G
from . import linalg as L

LETTERS = "IXYZ"
COEFS4 = (1 + 0j, -1 + 0j, 1j, -1j)


def letters_of(sparse, n):
    """dict wire -> 'X'|'Y'|'Z'  ->  list of n letters."""
    return [sparse.get(w, "I") for w in range(n)]


def pmat(letters, coef=1.0):
    """coef * kron(P_0, ..., P_{n-1}) (big-endian; wire 0 is the most significant)."""
    out = np.eye(1, dtype=complex)
    for c in letters:
        out = np.kron(out, G.PAULI[c])
    return complex(coef) * out


def smat(sparse, coef, n):
    return pmat(letters_of(sparse, n), coef)


def sum_mat(terms, n):
    """terms: iterable of (coef, sparse dict) -> dense matrix of the sum on n wires."""
    out = np.zeros((2 ** n, 2 ** n), dtype=complex)
    for coef, sparse in terms:
        out = out + smat(sparse, coef, n)
    return out


def all_patterns(n):
    """All 4**n letter tuples on n wires (identity included), fixed order."""
    return list(itertools.product(LETTERS, repeat=n))


def letters_commute(a, b):
    """Textbook rule: two Pauli strings commute iff they differ-and-both-non-identity on an even number of wires."""
    k = sum(1 for x, y in zip(a, b) if x != "I" and y != "I" and x != y)
    return k % 2 == 0


def mats_commute(A, B, atol=1e-9):
    return L.allclose(A @ B, B @ A, atol)


def matrix_power(M, k):
    if k >= 0:
        return np.linalg.matrix_power(M, k)
    return np.linalg.matrix_power(np.linalg.inv(M), -k)


def phasor(P, e_neg, e_pos):
    """Documented meaning of a Pauli-string phasor: -1 eigenstates of P get exp(i pi e_neg),
    +1 eigenstates get exp(i pi e_pos).  P must square to the identity."""
    d = P.shape[0]
    I = np.eye(d, dtype=complex)
    return np.exp(1j * math.pi * e_pos) * (I + P) / 2 + np.exp(1j * math.pi * e_neg) * (I - P) / 2


def exp_i_theta_pauli(P, theta):
    """exp(i theta P) for P with P@P = I: cos(theta) I + i sin(theta) P."""
    d = P.shape[0]
    return math.cos(theta) * np.eye(d, dtype=complex) + 1j * math.sin(theta) * P


def circuit_matrix(steps, n):
    """steps: list of (matrix, wires) applied in the given (time) order on n qubits."""
    U = np.eye(2 ** n, dtype=complex)
    dims = (2,) * n
    for m, wires in steps:
        if len(wires) == 0:
            U = complex(np.asarray(m).reshape(())) * U
        else:
            U = L.embed(m, list(wires), dims) @ U
    return U


def place(M, wires, n):
    """Matrix on `wires` (in that order) embedded into n wires."""
    return L.embed(M, list(wires), (2,) * n)


def expect_sv(psi, M):
    psi = np.asarray(psi, dtype=complex).reshape(-1)
    return complex(np.vdot(psi, M @ psi))


def expect_dm(rho, M):
    d = M.shape[0]
    return complex(np.trace(np.asarray(rho, dtype=complex).reshape(d, d) @ M))


# ------------------------------------------------------------------ Clifford enumerations
_S = np.diag([1, 1j]).astype(complex)
_CZ = np.diag([1, 1, 1, -1]).astype(complex)


def _phase_key(u):
    v = u.ravel()
    k = int(np.argmax(np.abs(v) > 1e-9))
    w = (u * (abs(v[k]) / v[k])).ravel()
    # entries of Clifford matrices are 0, +-1, +-1/2, +-1/sqrt(2) times 8th roots of unity: 4 decimals separate them
    return (np.round(w.real, 4) + 0.0).tobytes() + (np.round(w.imag, 4) + 0.0).tobytes()


def single_qubit_cliffords():
    """The 24 single-qubit Cliffords modulo phase as shortest words over {'H','S'} (breadth first,
    deterministic).  Returns [(word, matrix)], the word applied left to right in time."""
    gens = [("H", G.H), ("S", _S)]
    seen = {_phase_key(np.eye(2, dtype=complex)): 0}
    out = [((), np.eye(2, dtype=complex))]
    frontier = [0]
    while frontier:
        nxt = []
        for i in frontier:
            word, u = out[i]
            for name, g in gens:
                v = g @ u
                k = _phase_key(v)
                if k not in seen:
                    seen[k] = len(out)
                    out.append((word + (name,), v))
                    nxt.append(len(out) - 1)
        frontier = nxt
    assert len(out) == 24, len(out)
    return out


def two_qubit_cliffords(limit=None):
    """The 11520 two-qubit Cliffords modulo phase as words over (H,0),(H,1),(S,0),(S,1),(CZ,0,1)."""
    I2 = np.eye(2, dtype=complex)
    gens = [(("H", 0), np.kron(G.H, I2)), (("H", 1), np.kron(I2, G.H)), (("S", 0), np.kron(_S, I2)),
            (("S", 1), np.kron(I2, _S)), (("CZ", 0, 1), _CZ)]
    e = np.eye(4, dtype=complex)
    seen = {_phase_key(e)}
    out = [((), e)]
    frontier = [0]
    while frontier:
        nxt = []
        for i in frontier:
            word, u = out[i]
            for name, g in gens:
                v = g @ u
                k = _phase_key(v)
                if k not in seen:
                    seen.add(k)
                    out.append((word + (name,), v))
                    nxt.append(len(out) - 1)
                    if limit is not None and len(out) >= limit:
                        return out
        frontier = nxt
    assert len(out) == 11520, len(out)
    return out
