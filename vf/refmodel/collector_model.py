"""Offline checkers over histories of the duet job-orchestration layer (C20 a).

Pure Python, never imports cirq or duet.  A history is a list of tuples whose
index is the logical clock; it is recorded at the client boundary by
vf.monitors.duet_controller (call event before invoking, return event after
the reply).

Collector events
    ("next_job.call",)
    ("next_job.ret", (jid, ...))        flattened ids of the jobs handed out by this call
    ("start", jid, repetitions)          sampler.run_async invoked for the job
    ("complete", jid, rid)               the controller resolved the job's future with result rid
    ("fail", jid, eid)                   the controller failed the job's future with exception eid
    ("cancelled", jid)                   the job's future was cancelled by the scheduler
    ("deliver", jid, rid, same_object)   Collector.on_job_result(job, result)
    ("block",)                           logical quiescence observed while collect is still running
    ("deadlock",)                        nothing pending, main task not done after N scheduler ticks
    ("return",) | ("raise", eid)         outcome of collect / collect_async

Each checker returns a list of (mechanism, message); an empty list means the
history satisfies the specification.
"""
from __future__ import annotations


def check_collector_history(hist, concurrency, budget, reps):
    """`reps`: {jid: repetitions} of every job the collector may hand out.
    `budget`: max_total_samples or None."""
    bad = []

    def v(mech, msg, i=None):
        bad.append(("C20:collector:" + mech, msg if i is None else "%s (event %d: %r)" % (msg, i, hist[i])))

    handed, started, resolved, completed, failed, cancelled, delivered = [], {}, set(), {}, {}, set(), {}
    used = 0  # repetitions of the jobs started so far
    first_fail_at = None
    last_ret, last_ret_at, last_deliver_at = None, -1, -1
    outcome_at = None
    open_call = False
    for i, ev in enumerate(hist):
        k = ev[0]
        if outcome_at is not None and k in ("next_job.call", "start", "deliver", "complete", "fail"):
            v("activity-after-exit", "%s after collect finished" % k, i)
        if k == "next_job.call":
            open_call = True
        elif k == "next_job.ret":
            open_call = False
            for j in ev[1]:
                if j in handed:
                    v("harness", "job %r handed out twice by the workload" % (j,), i)
                handed.append(j)
            last_ret, last_ret_at = ev[1], i
        elif k == "start":
            j, r = ev[1], ev[2]
            if j not in handed:
                v("start-unknown-job", "sampler asked to run a job that next_job never returned", i)
            if j in started:
                v("job-started-twice", "job %r started twice" % (j,), i)
            if j in reps and reps[j] != r:
                v("wrong-repetitions", "job %r started with repetitions %r, the job says %r" % (j, r, reps[j]), i)
            if budget is not None and not used < budget:
                v("budget-exceeded", "job %r started although %d samples were already requested (max_total_samples=%d)"
                  % (j, used, budget), i)
            started[j] = i
            used += r
            inflight = len(started) - len(resolved)
            if inflight > concurrency:
                v("concurrency-exceeded", "%d jobs in flight at the sampler, concurrency=%d" % (inflight, concurrency), i)
        elif k in ("complete", "fail", "cancelled"):
            j = ev[1]
            if j not in started or j in resolved:
                v("harness", "controller resolved a job that is not in flight", i)
            resolved.add(j)
            if k == "complete":
                completed[j] = (i, ev[2])
            elif k == "fail":
                failed[j] = (i, ev[2])
                if first_fail_at is None:
                    first_fail_at = i
            else:
                cancelled.add(j)
        elif k == "deliver":
            j, rid = ev[1], ev[2]
            last_deliver_at = i
            if j not in started:
                v("deliver-never-started", "on_job_result for a job that was never started", i)
            elif j not in completed:
                v("deliver-not-completed", "on_job_result for a job whose sampler call has not completed successfully", i)
            else:
                if completed[j][1] != rid:
                    v("deliver-wrong-result", "job %r received result %r, its own result is %r" % (j, rid, completed[j][1]), i)
                if first_fail_at is not None and completed[j][0] > first_fail_at:
                    v("deliver-after-error", "result of a job that completed after the first sampler error was delivered", i)
            if j in delivered:
                v("deliver-twice", "job %r delivered twice" % (j,), i)
            delivered[j] = i
            if len(ev) > 3 and not ev[3]:
                v("deliver-foreign-job-object", "on_job_result received a job object that next_job did not return", i)
            if open_call:
                v("harness", "deliver inside next_job", i)
        elif k == "block":
            if outcome_at is not None:
                continue  # another collector of the same scheduler is still running
            inflight = len(started) - len(resolved)
            if first_fail_at is not None:
                v("error-not-raised", "a sampler call failed but the collector went back to waiting", i)
                continue
            if inflight == 0:
                v("deadlock", "collector blocks although no job is in flight", i)
            undelivered = [j for j in completed if j not in delivered]
            if undelivered:
                v("lost-result", "collector blocks although completed jobs %r were not passed to on_job_result" % (undelivered,), i)
            spent = budget is not None and used >= budget
            if inflight < concurrency and not spent:
                unstarted = [j for j in handed if j not in started]
                if unstarted:
                    v("no-progress", "capacity and budget remain but handed-out jobs %r were not started" % (unstarted,), i)
                elif last_ret is None or len(last_ret) != 0 or last_ret_at < last_deliver_at:
                    v("no-progress", "capacity and budget remain but next_job was not asked again after the last result", i)
        elif k == "deadlock":
            v("deadlock", "no sampler call pending, every future resolved, collect did not finish", i)
        elif k in ("return", "raise"):
            if outcome_at is not None:
                v("two-outcomes", "collect finished twice", i)
            outcome_at = i
            inflight = [j for j in started if j not in resolved]
            if inflight:
                v("task-left-running", "collect finished while jobs %r are still in flight" % (inflight,), i)
            if k == "return":
                if failed:
                    v("error-swallowed", "a sampler call failed but collect returned normally", i)
                if cancelled:
                    v("cancelled-on-clean-exit", "jobs %r were cancelled although collect returned normally" % (sorted(cancelled),), i)
                missing = [j for j in completed if j not in delivered]
                if missing:
                    v("lost-result", "collect returned but completed jobs %r were never passed to on_job_result" % (missing,), i)
                if len(started) != len(delivered) + len(failed) + len(cancelled) + len(inflight):
                    v("conservation", "started %d != delivered %d + failed %d + cancelled %d + in flight %d"
                      % (len(started), len(delivered), len(failed), len(cancelled), len(inflight)), i)
                spent = budget is not None and used >= budget
                if not spent:
                    unstarted = [j for j in handed if j not in started]
                    if unstarted:
                        v("stopped-early", "collect returned with budget left and handed-out jobs %r never started" % (unstarted,), i)
                    elif started and (last_ret is None or len(last_ret) != 0 or last_ret_at < last_deliver_at):
                        v("stopped-early", "collect returned with budget left without asking next_job after the last result", i)
                    elif not started and budget != 0 and (last_ret is None or len(last_ret) != 0):
                        v("stopped-early", "collect returned without starting anything although next_job offered work", i)
            else:
                eid = ev[1]
                if eid == "deadlock-abort":
                    pass  # the controller broke a deadlock it has already reported
                elif first_fail_at is None:
                    v("unexpected-exception", "collect raised %r although no sampler call failed" % (eid,), i)
                else:
                    first = hist[first_fail_at][2]
                    if eid != first:
                        v("wrong-exception", "collect raised %r, the first sampler error was %r" % (eid, first), i)
    if outcome_at is None:
        v("no-outcome", "history ends without collect returning or raising")
    return bad


def summarize(hist):
    """Event-kind sequence (the interleaving fingerprint) of a history."""
    short = {"next_job.call": "n", "next_job.ret": "r", "start": "S", "complete": "C", "fail": "F", "cancelled": "X",
             "deliver": "D", "block": "|", "deadlock": "!", "return": "R", "raise": "E"}
    out = []
    for ev in hist:
        s = short.get(ev[0], "?")
        if ev[0] in ("start", "complete", "fail", "cancelled", "deliver"):
            s += str(ev[1])
        elif ev[0] == "next_job.ret":
            s += str(len(ev[1]))
        out.append(s)
    return " ".join(out)


# ------------------------------------------------------------------ batch / sweep layer
def check_batch_history(hist, programs, limit=None):
    """programs: list of (pid, n_resolvers, repetitions) in the order given to run_batch_async.

    Events: ("start", pid, repetitions, n_resolvers) ("complete", pid, (rid, ...)) ("fail", pid, eid)
    ("cancelled", pid) ("return", nested rids) ("raise", eid) ("deadlock",) ("block",)."""
    bad = []

    def v(mech, msg, i=None):
        bad.append(("C20:batch:" + mech, msg if i is None else "%s (event %d: %r)" % (msg, i, hist[i])))

    want = {p[0]: p for p in programs}
    started, resolved, completed, failed = {}, set(), {}, {}
    first_fail_at, outcome_at = None, None
    for i, ev in enumerate(hist):
        k = ev[0]
        if k == "start":
            p = ev[1]
            if outcome_at is not None:
                v("activity-after-exit", "program started after the call finished", i)
            if p not in want:
                v("start-unknown-program", "sampler asked to run a program that is not in the batch", i)
                continue
            if p in started:
                v("program-started-twice", "program %r run twice" % (p,), i)
            if ev[2] != want[p][2] or ev[3] != want[p][1]:
                v("wrong-arguments", "program %r run with repetitions=%r and %r resolvers, the batch says %r and %r"
                  % (p, ev[2], ev[3], want[p][2], want[p][1]), i)
            started[p] = i
            if limit is not None and len(started) - len(resolved) > limit:
                v("concurrency-exceeded", "%d calls in flight, limit %d" % (len(started) - len(resolved), limit), i)
        elif k in ("complete", "fail", "cancelled"):
            resolved.add(ev[1])
            if k == "complete":
                completed[ev[1]] = ev[2]
            elif k == "fail":
                failed[ev[1]] = ev[2]
                if first_fail_at is None:
                    first_fail_at = i
        elif k == "deadlock":
            v("deadlock", "every sampler call resolved but the batch call did not finish", i)
        elif k in ("return", "raise"):
            outcome_at = i
            left = [p for p in started if p not in resolved]
            if left:
                v("task-left-running", "call finished while programs %r are in flight" % (left,), i)
            if k == "return":
                if failed:
                    v("error-swallowed", "a sampler call failed but the batch call returned", i)
                exp = [tuple(completed.get(p[0], ())) for p in programs]
                got = [tuple(x) for x in ev[1]]
                if got != exp:
                    v("result-order", "returned results %r, expected (program order, sweep order) %r" % (got, exp), i)
                missing = [p[0] for p in programs if p[0] not in started]
                if missing:
                    v("program-not-run", "programs %r were never run" % (missing,), i)
            else:
                if ev[1] == "deadlock-abort":
                    pass
                elif first_fail_at is None:
                    v("unexpected-exception", "raised %r although no sampler call failed" % (ev[1],), i)
                elif ev[1] != hist[first_fail_at][2]:
                    v("wrong-exception", "raised %r, first sampler error was %r" % (ev[1], hist[first_fail_at][2]), i)
    if outcome_at is None:
        v("no-outcome", "history ends without an outcome")
    return bad


# ------------------------------------------------------------------ PauliSumCollector estimate
def pauli_sum_estimate(terms, identity_offset, tallies):
    """terms: list of (term_id, coefficient); tallies: {term_id: (zeros, ones)}.  Documented estimator:
    sum_t coef_t * (zeros - ones) / (zeros + ones) over the terms that have samples, plus the identity offset."""
    e = 0j
    for t, coef in terms:
        a, b = tallies.get(t, (0, 0))
        if a + b:
            e += coef * (a - b) / (a + b)
    return complex(e) + identity_offset
