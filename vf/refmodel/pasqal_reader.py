"""Reader for the Pasqal request body.  numpy/stdlib only; never imports cirq.

`cirq_pasqal.PasqalSampler` posts the circuit as Cirq JSON text.  A server that
executes it has to understand the document as plain JSON; this file does that
for the gate vocabulary of `PasqalGateset` (H, X/Y/Z powers, PhasedXPow,
integer powers of CZ / CNOT / CCNOT / CCZ, identity, measurement, ParallelGate
of the single-qubit families, the Rx/Ry/Rz spellings), taking each gate's
meaning from the closed-form catalogue (vf.refmodel.gates).
"""
from __future__ import annotations

import json

import numpy as np

from vf.refmodel import gates as G
from vf.refmodel import linalg as L


class PayloadError(Exception):
    pass


_EIGEN = {"XPowGate": "XPow", "YPowGate": "YPow", "ZPowGate": "ZPow", "HPowGate": "HPow", "CZPowGate": "CZPow",
          "CXPowGate": "CXPow", "CNotPowGate": "CXPow", "CCXPowGate": "CCXPow", "CCNotPowGate": "CCXPow",
          "CCZPowGate": "CCZPow"}
_NAMED = {"_PauliX": ("XPow", 1.0), "_PauliY": ("YPow", 1.0), "_PauliZ": ("ZPow", 1.0)}


def qubit_id(q):
    t = q.get("cirq_type")
    if t == "NamedQubit":
        return ("N", q["name"])
    if t == "LineQubit":
        return ("L", q["x"])
    if t == "GridQubit":
        return ("G", q["row"], q["col"])
    if t == "TwoDQubit":
        return ("2D", q["x"], q["y"])
    if t == "ThreeDQubit":
        return ("3D", q["x"], q["y"], q["z"])
    raise PayloadError("unknown qubit type %r" % (t,))


def gate_matrix(g):
    """-> matrix, or ("measure", key, invert_mask) for a measurement."""
    t = g.get("cirq_type")
    if t in _EIGEN:
        return G.eigen_gate(_EIGEN[t], float(g["exponent"]), float(g.get("global_shift", 0.0)))
    if t in _NAMED:
        fam, e = _NAMED[t]
        return G.eigen_gate(fam, float(g.get("exponent", e)), float(g.get("global_shift", 0.0)))
    if t == "PhasedXPowGate":
        return G.phased_xpow(float(g["phase_exponent"]), float(g["exponent"]), float(g.get("global_shift", 0.0)))
    if t in ("Rx", "Ry", "Rz"):
        return {"Rx": G.rx, "Ry": G.ry, "Rz": G.rz}[t](float(g["rads"]))
    if t == "IdentityGate":
        shape = g.get("qid_shape") or [2] * int(g["num_qubits"])
        return np.eye(L.dim_of(shape), dtype=complex)
    if t == "ParallelGate":
        sub = gate_matrix(g["sub_gate"])
        if isinstance(sub, tuple):
            raise PayloadError("parallel measurement")
        return L.kron(*[sub] * int(g["num_copies"]))
    if t == "MeasurementGate":
        if g.get("confusion_map") or (g.get("qid_shape") and any(d != 2 for d in g["qid_shape"])):
            raise PayloadError("measurement outside the reader's vocabulary")
        return ("measure", g["key"], list(g.get("invert_mask", [])))
    raise PayloadError("unknown gate type %r" % (t,))


def read(text):
    """-> dict(qubits=[ids in first-use order], steps=[(matrix, [qubit ids])], measurements=[(key, [qubit ids], mask)],
    moment_of_first_measure, ops_after_measure)"""
    doc = json.loads(text)
    if doc.get("cirq_type") not in ("Circuit", "FrozenCircuit"):
        raise PayloadError("not a circuit document: %r" % (doc.get("cirq_type"),))
    qubits, steps, meas = [], [], []
    after = 0
    for mom in doc["moments"]:
        if mom.get("cirq_type") != "Moment":
            raise PayloadError("not a moment")
        for op in mom["operations"]:
            if op.get("cirq_type") != "GateOperation":
                raise PayloadError("not a gate operation: %r" % (op.get("cirq_type"),))
            qs = [qubit_id(q) for q in op["qubits"]]
            for q in qs:
                if q not in qubits:
                    qubits.append(q)
            m = gate_matrix(op["gate"])
            if isinstance(m, tuple):
                meas.append((m[1], qs, m[2]))
            else:
                if meas:
                    after += 1
                if m.shape[0] != 2 ** len(qs):
                    raise PayloadError("gate size does not match its qubits")
                steps.append((m, qs))
    return {"qubits": qubits, "steps": steps, "measurements": meas, "ops_after_measure": after}


def unitary(steps, order):
    """Unitary over the given qubit-id order (big-endian)."""
    n = len(order)
    pos = {q: i for i, q in enumerate(order)}
    D = 2 ** n
    t = np.eye(D, dtype=complex).reshape([2] * n + [D])
    for m, qs in steps:
        t = L.apply_on_axes(t, m, [pos[q] for q in qs])
    return t.reshape(D, D)


def pack_bits_hex(rows):
    """Hex text of bits packed 8 per byte, most significant bit first, row-major, zero padded -
    the documented "packed_digits" of a Cirq result document (numpy.packbits layout)."""
    flat = [int(b) for row in rows for b in row]
    while len(flat) % 8:
        flat.append(0)
    out = []
    for i in range(0, len(flat), 8):
        v = 0
        for b in flat[i:i + 8]:
            v = (v << 1) | b
        out.append("%02x" % v)
    return "".join(out)
