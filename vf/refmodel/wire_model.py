"""Oracle-side models for the wire-format property (C16).  stdlib only; never imports cirq.

* single-precision comparison rule of DESIGN 4.1
* little-endian bit packing written from the docstrings of pack_bits / unpack_results
* the documented enumeration semantics of Linspace / Points / Zip / ZipLongest / Product / Concat
"""
from __future__ import annotations

import itertools


# ---------------------------------------------------------------- numbers
def f32_close(x, y, scale=1.0):
    """|x-y| within single-precision rounding of the larger magnitude (rel 2e-7, abs 1e-7)."""
    x, y = float(x), float(y)
    if x != x or y != y:
        return False
    return abs(x - y) <= scale * (2e-7 * max(abs(x), abs(y)) + 1e-7)


def f64_equal(x, y):
    return float(x) == float(y)


# ---------------------------------------------------------------- bit packing
def pack_bits_ref(bits):
    """bits[8k+j] is bit j (least significant first) of byte k; the tail is zero padded."""
    out = bytearray()
    bits = [1 if b else 0 for b in bits]
    for k in range(0, len(bits), 8):
        byte = 0
        for j, b in enumerate(bits[k:k + 8]):
            byte |= b << j
        out.append(byte)
    return bytes(out)


def unpack_bits_ref(data, n):
    bits = []
    for byte in bytes(data):
        for j in range(8):
            bits.append((byte >> j) & 1)
    return bits[:n]


# ---------------------------------------------------------------- sweeps
# A sweep is a nested tuple:
#   ("unit",)
#   ("points", key, [v...])            ("linspace", key, start, stop, n)
#   ("zip", [s...]) ("ziplongest", [s...]) ("product", [s...]) ("concat", [s...])
#   ("list", [ {key: v}... ])
# enumerate_sweep returns the list of assignments, each a list of (key, value) in key order of the
# documentation (keys of the sub-sweeps concatenated left to right).

def sweep_keys(s):
    k = s[0]
    if k == "unit":
        return []
    if k in ("points", "linspace"):
        return [s[1]]
    if k == "concat":
        return sweep_keys(s[1][0]) if s[1] else []
    if k == "list":
        return list(s[1][0].keys()) if s[1] else []
    out = []
    for c in s[1]:
        out += sweep_keys(c)
    return out


def linspace_values(start, stop, n):
    if n == 1:
        return [start]
    return [start * (1 - i / (n - 1)) + stop * (i / (n - 1)) for i in range(n)]


def enumerate_sweep(s):
    k = s[0]
    if k == "unit":
        return [[]]
    if k == "points":
        return [[(s[1], v)] for v in s[2]]
    if k == "linspace":
        return [[(s[1], v)] for v in linspace_values(s[2], s[3], s[4])]
    if k == "list":
        return [list(d.items()) for d in s[1]]
    subs = [enumerate_sweep(c) for c in s[1]]
    if k == "product":
        out = []
        for combo in itertools.product(*subs):  # last factor fastest
            row = []
            for part in combo:
                row += part
            out.append(row)
        return out
    if k == "zip":
        if not subs:
            return []
        n = min(len(x) for x in subs)
        return [sum((x[i] for x in subs), []) for i in range(n)]
    if k == "ziplongest":
        if not subs:
            return []
        n = max(len(x) for x in subs)
        return [sum((x[min(i, len(x) - 1)] for x in subs), []) for i in range(n)]
    if k == "concat":
        out = []
        for x in subs:
            out += x
        return out
    raise ValueError(k)


def sweep_len(s):
    return len(enumerate_sweep(s))
