"""Exact dense reference interpreter with classical branching.  numpy only.

A program is a list of steps over wires with dimensions `dims`:
  U(matrix, wires)                      unitary (or any matrix) on wires
  K(kraus, wires, key=None)             channel; with a key the Kraus index is recorded
  M(key, wires, invert_mask, confusion) projective measurement, confusion map THEN invert mask
                                        (the order the MeasurementGate docstring gives)
  If(cond, step)                        cond(records) -> bool decides whether `step` runs
State: one unnormalised density matrix per classical record history; `run`
returns the exact map  records -> rho  (trace = probability of that history).
"""
from __future__ import annotations

import itertools

import numpy as np

from . import linalg as L


class U:
    def __init__(self, matrix, wires):
        self.matrix, self.wires = np.asarray(matrix, dtype=complex), tuple(wires)


class K:
    def __init__(self, kraus, wires, key=None):
        self.kraus, self.wires, self.key = [np.asarray(k, dtype=complex) for k in kraus], tuple(wires), key


class M:
    def __init__(self, key, wires, invert_mask=(), confusion=None, invert_first=False):
        self.key, self.wires = key, tuple(wires)
        self.invert_first = invert_first  # only used to *explain* a known wrong order, never as the specification
        self.invert_mask = tuple(bool(b) for b in invert_mask)
        self.confusion = dict(confusion or {})  # {tuple(indices into wires): row-stochastic matrix}


class If:
    def __init__(self, cond, step):
        self.cond, self.step = cond, step


def latest(records, key, index=-1):
    inst = [d for k, d in records if k == key]
    if not inst:
        raise KeyError(key)
    return inst[index]


def _confuse(digits, dims_m, confusion):
    """distribution over reported digits after the confusion maps (applied in dict order)."""
    dist = {tuple(digits): 1.0}
    for idxs, mat in confusion.items():
        mat = np.asarray(mat, dtype=float)
        sub_dims = [dims_m[i] for i in idxs]
        new = {}
        for digs, p in dist.items():
            # NOTE: each confusion matrix row is chosen by the TRUE digits (as the simulators do:
            # `row` is computed from the unconfused bits), not by already-confused ones.
            row = L.digits_to_index([digits[i] for i in idxs], sub_dims)
            for col in range(mat.shape[1]):
                q = mat[row, col]
                if q <= 0:
                    continue
                nd = list(digs)
                for i, v in zip(idxs, L.index_to_digits(col, sub_dims)):
                    nd[i] = v
                new[tuple(nd)] = new.get(tuple(nd), 0.0) + p * q
        dist = new
    return dist


def _invert(digits, mask):
    out = list(digits)
    for i, m in enumerate(mask):
        if i < len(out) and m and out[i] < 2:
            out[i] ^= 1
    return tuple(out)


def _apply(step, rec, rho, dims):
    if isinstance(step, U):
        yield rec, L.apply_to_rho(rho, [step.matrix], step.wires, dims)
    elif isinstance(step, K):
        if step.key is None:
            yield rec, L.apply_to_rho(rho, step.kraus, step.wires, dims)
        else:
            for i, k in enumerate(step.kraus):
                yield rec + ((step.key, (i,)),), L.apply_to_rho(rho, [k], step.wires, dims)
    elif isinstance(step, M):
        dm = [dims[w] for w in step.wires]
        for digs in itertools.product(*[range(d) for d in dm]):
            P = np.zeros((L.dim_of(dm),) * 2)
            i = L.digits_to_index(digs, dm)
            P[i, i] = 1
            r2 = L.apply_to_rho(rho, [P], step.wires, dims)
            if abs(np.trace(r2)) < 1e-15:
                continue
            if step.invert_first:
                for rep, q in _confuse(_invert(digs, step.invert_mask), dm, step.confusion).items():
                    yield rec + ((step.key, rep),), r2 * q
                continue
            for rep, q in _confuse(digs, dm, step.confusion).items():
                yield rec + ((step.key, _invert(rep, step.invert_mask)),), r2 * q
    elif isinstance(step, If):
        if step.cond(rec):
            yield from _apply(step.step, rec, rho, dims)
        else:
            yield rec, rho
    else:
        raise TypeError(step)


def run(steps, dims, rho0=None, prune=1e-14):
    D = L.dim_of(dims)
    if rho0 is None:
        rho0 = np.zeros((D, D), dtype=complex)
        rho0[0, 0] = 1
    rho0 = np.asarray(rho0, dtype=complex)
    if rho0.ndim == 1:
        rho0 = np.outer(rho0, rho0.conj())
    branches = {(): rho0}
    for st in steps:
        new = {}
        for rec, rho in branches.items():
            for rec2, r2 in _apply(st, rec, rho, dims):
                if abs(np.trace(r2).real) < prune:
                    continue
                if rec2 in new:
                    new[rec2] = new[rec2] + r2
                else:
                    new[rec2] = r2
        branches = new
    return branches


def run_branches(branches, steps, dims, prune=1e-14):
    """continue a set of branches {records: rho} through more steps"""
    for st in steps:
        new = {}
        for rec, rho in branches.items():
            for rec2, r2 in _apply(st, rec, rho, dims):
                if abs(np.trace(r2).real) < prune:
                    continue
                new[rec2] = new[rec2] + r2 if rec2 in new else r2
        branches = new
    return branches


def by_key(rec):
    """chronological records -> canonical per-key form ((key, (instance digits, ...)), ...) sorted by key."""
    d = {}
    for k, digs in rec:
        d.setdefault(k, []).append(tuple(int(x) for x in digs))
    return tuple(sorted((k, tuple(v)) for k, v in d.items()))


def distribution(branches):
    dist = {}
    for rec, rho in branches.items():
        k = by_key(rec)
        dist[k] = dist.get(k, 0.0) + float(np.trace(rho).real)
    return dist


def average_state(branches):
    return sum(branches.values())


def unitary_of(steps, dims):
    D = L.dim_of(dims)
    u = np.eye(D, dtype=complex)
    for st in steps:
        assert isinstance(st, U)
        u = L.embed(st.matrix, st.wires, dims) @ u
    return u


def state_after(steps, dims, psi0):
    psi = np.asarray(psi0, dtype=complex)
    for st in steps:
        psi = L.apply_to_state(psi, st.matrix, st.wires, dims)
    return psi


def superop_of(steps, dims):
    """Superoperator (row-major vec convention) of a program of U / keyless K steps: product of sum_k K (x) conj(K)."""
    D = L.dim_of(dims)
    S = np.eye(D * D, dtype=complex)
    for st in steps:
        ks = [st.matrix] if isinstance(st, U) else st.kraus
        full = [L.embed(k, st.wires, dims) for k in ks]
        S = L.superop(full) @ S
    return S
