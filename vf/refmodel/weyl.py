"""Oracle-side two-qubit local-equivalence theory (numpy only, never imports cirq).

U = g . (a1 (x) a0) . exp(i (x XX + y YY + z ZZ)) . (b1 (x) b0)

Everything here is written from the textbook definitions (Kraus-Cirac / Zhang et
al. "Geometric theory of nonlocal two-qubit operations", Shende-Bullock-Markov
CNOT counts, Huang et al. SQiSW regions) and is used to judge Cirq's KAK
routines and gate counts without calling them."""
from __future__ import annotations

import itertools
import math

import numpy as np

PI4 = math.pi / 4
I2 = np.eye(2, dtype=complex)
X = np.array([[0, 1], [1, 0]], dtype=complex)
Y = np.array([[0, -1j], [1j, 0]], dtype=complex)
Z = np.array([[1, 0], [0, -1]], dtype=complex)
XX, YY, ZZ = np.kron(X, X), np.kron(Y, Y), np.kron(Z, Z)
H = np.array([[1, 1], [1, -1]], dtype=complex) / math.sqrt(2)
S = np.diag([1, 1j]).astype(complex)

# magic (Bell) basis: columns are phased Bell states; conjugation by it maps SU(2)xSU(2) -> SO(4)
MAGIC = np.array([[1, 0, 0, 1j], [0, 1j, 1, 0], [0, 1j, -1, 0], [1, 0, 0, -1j]], dtype=complex) / math.sqrt(2)
MAGIC_H = MAGIC.conj().T
# XX, YY, ZZ are diagonal in the magic basis: eigen-phases of exp(i(aXX+bYY+cZZ)) are a*DX+b*DY+c*DZ
DX = np.real(np.diag(MAGIC_H @ XX @ MAGIC))
DY = np.real(np.diag(MAGIC_H @ YY @ MAGIC))
DZ = np.real(np.diag(MAGIC_H @ ZZ @ MAGIC))
assert np.allclose(MAGIC_H @ XX @ MAGIC, np.diag(DX)) and np.allclose(MAGIC_H @ YY @ MAGIC, np.diag(DY))
assert np.allclose(MAGIC_H @ ZZ @ MAGIC, np.diag(DZ))


def interaction(x, y, z):
    """exp(i (x XX + y YY + z ZZ)), closed form (the three terms commute)."""
    out = np.eye(4, dtype=complex)
    for c, P in ((x, XX), (y, YY), (z, ZZ)):
        out = out @ (math.cos(c) * np.eye(4) + 1j * math.sin(c) * P)
    return out


def kak_product(g, a1, a0, xyz, b1, b0):
    return complex(g) * (np.kron(a1, a0) @ interaction(*xyz) @ np.kron(b1, b0))


def in_weyl_chamber(x, y, z, tol=1e-9):
    """0 <= |z| <= y <= x <= pi/4, and z >= 0 when x = pi/4 (all within tol)."""
    if not (abs(z) <= y + tol and y <= x + tol and x <= PI4 + tol and y >= -tol):
        return False
    return True


def chamber_z_sign_ok(x, z, x_tol, z_tol=1e-9):
    """The 'if x = pi/4 then z >= 0' clause; x_tol is the documented closeness of x to pi/4."""
    if x > PI4 - x_tol and z < -z_tol:
        return False
    return True


def local_spectrum(u):
    """Sorted eigen-phases-squared invariant: eigenvalues of m = Ub^T Ub for the SU(4) representative.

    Defined up to an overall sign (the SU(4) representative is fixed up to i^k)."""
    u = np.asarray(u, dtype=complex)
    us = u / np.linalg.det(u) ** 0.25
    ub = MAGIC_H @ us @ MAGIC
    return normal_eigvals(ub.T @ ub)


def normal_eigvals(m):
    """Eigenvalues of a normal matrix via Hermitian eigensolvers only.

    LAPACK's general QR iteration (zgeev / zgees) occasionally fails to converge on nearly scalar unitaries (seen on
    i*I + O(1e-17)); eigh always converges.  m = A + iB with commuting Hermitian A, B; the eigenvectors of
    A cos(phi) + B sin(phi) diagonalise m unless two eigen-phases are mirror images about phi, so two fixed angles are
    tried and the one with the smaller residual is kept."""
    m = np.asarray(m, dtype=complex)
    a = (m + m.conj().T) / 2
    b = (m - m.conj().T) / 2j
    best, best_res = None, float("inf")
    for phi in (0.7312, 2.2195, -1.0471):
        _, v = np.linalg.eigh(math.cos(phi) * a + math.sin(phi) * b)
        lam = np.einsum("ij,ij->j", v.conj(), m @ v)
        res = float(np.abs(m @ v - v * lam).max())
        if res < best_res:
            best, best_res = lam, res
        if res < 1e-13:
            break
    return best


def spectrum_of_coordinates(x, y, z):
    th = x * DX + y * DY + z * DZ
    return np.exp(2j * th)


def _multiset_dist(a, b):
    """min over pairings of max |a_i - b_pi(i)| for 4-element complex multisets."""
    best = float("inf")
    for p in itertools.permutations(range(4)):
        d = max(abs(a[i] - b[p[i]]) for i in range(4))
        best = min(best, d)
    return best


def coordinates_match(u, xyz):
    """Distance between the local invariant of u and that of exp(i(x XX+y YY+z ZZ)) (0 = locally equivalent)."""
    s = local_spectrum(u)
    t = spectrum_of_coordinates(*xyz)
    return min(_multiset_dist(s, t), _multiset_dist(s, -t))


def canonicalize(a, b, c):
    """Map any (a, b, c) to the Weyl chamber 0 <= |z| <= y <= x <= pi/4 (z >= 0 if x == pi/4)."""
    v = [((t + PI4) % (2 * PI4)) - PI4 for t in (a, b, c)]  # each into [-pi/4, pi/4)
    v.sort(key=lambda t: -abs(t))
    x, y, z = v
    if x < 0:
        x, z = -x, -z
    if y < 0:
        y, z = -y, -z
    if x >= PI4 and z < 0:
        z = -z
    return x, y, z


def weyl_coordinates(u):
    """Canonical (x, y, z) of a 4x4 unitary, from the eigenvalues of Ub^T Ub."""
    lam = local_spectrum(u)
    th = np.angle(lam) / 2.0  # each defined mod pi
    s = float(np.sum(th))
    k = int(round(s / math.pi))  # sum must be 0 mod 2pi for an SU(4) representative: fix parity on one entry
    if k % 2:
        th[0] += math.pi
    a = float(np.dot(th, DX)) / 4.0
    b = float(np.dot(th, DY)) / 4.0
    c = float(np.dot(th, DZ)) / 4.0
    return canonicalize(a, b, c)


# ------------------------------------------------------------------ gate-count classes
def cz_class(xyz, band):
    """Minimal number of CNOT/CZ for canonical coordinates, treating |t| <= band as zero."""
    x, y, z = xyz
    if abs(x) <= band and abs(y) <= band and abs(z) <= band:
        return 0
    if abs(x - PI4) <= band and abs(y) <= band and abs(z) <= band:
        return 1
    if abs(z) <= band:
        return 2
    return 3


def sqrt_iswap_class(xyz, band):
    """Minimal number of sqrt-iSWAP (Huang et al. 2021): 0 at the origin, 1 at (pi/8, pi/8, 0),
    2 iff x >= y + |z|, else 3."""
    x, y, z = xyz
    if abs(x) <= band and abs(y) <= band and abs(z) <= band:
        return 0
    if abs(x - PI4 / 2) <= band and abs(y - PI4 / 2) <= band and abs(z) <= band:
        return 1
    if x + band >= y + abs(z):
        return 2
    return 3


# ------------------------------------------------------------------ named points of the chamber (units of pi/4)
VERTICES = {
    "I": (0, 0, 0), "CZ": (1, 0, 0), "ISWAP": (1, 1, 0), "SWAP": (1, 1, 1), "SQRT_ISWAP": (0.5, 0.5, 0),
    "SQRT_SWAP": (0.5, 0.5, 0.5), "SQRT_SWAP_INV": (0.5, 0.5, -0.5), "SQRT_CZ": (0.5, 0, 0), "B": (1, 0.5, 0),
    "QUARTER_CZ": (0.25, 0, 0), "ECP": (1, 0.5, 0.5),
}


def named_gate(name):
    n = name
    if n == "I":
        return np.eye(4, dtype=complex)
    if n == "CZ":
        return np.diag([1, 1, 1, -1]).astype(complex)
    if n == "CNOT":
        return np.array([[1, 0, 0, 0], [0, 1, 0, 0], [0, 0, 0, 1], [0, 0, 1, 0]], dtype=complex)
    if n == "CNOT_REV":
        return np.array([[1, 0, 0, 0], [0, 0, 0, 1], [0, 0, 1, 0], [0, 1, 0, 0]], dtype=complex)
    if n == "SWAP":
        return np.array([[1, 0, 0, 0], [0, 0, 1, 0], [0, 1, 0, 0], [0, 0, 0, 1]], dtype=complex)
    if n == "-SWAP":
        return -named_gate("SWAP")
    if n == "ISWAP":
        return np.array([[1, 0, 0, 0], [0, 0, 1j, 0], [0, 1j, 0, 0], [0, 0, 0, 1]], dtype=complex)
    if n == "ISWAP_INV":
        return named_gate("ISWAP").conj().T
    if n == "SQRT_ISWAP":
        r = 1 / math.sqrt(2)
        return np.array([[1, 0, 0, 0], [0, r, 1j * r, 0], [0, 1j * r, r, 0], [0, 0, 0, 1]], dtype=complex)
    if n == "SQRT_ISWAP_INV":
        return named_gate("SQRT_ISWAP").conj().T
    if n == "SQRT_SWAP":
        a, b = (1 + 1j) / 2, (1 - 1j) / 2
        return np.array([[1, 0, 0, 0], [0, a, b, 0], [0, b, a, 0], [0, 0, 0, 1]], dtype=complex)
    if n == "CS":
        return np.diag([1, 1, 1, 1j]).astype(complex)
    if n == "CY":
        out = np.eye(4, dtype=complex)
        out[2:, 2:] = Y
        return out
    if n == "CH":
        out = np.eye(4, dtype=complex)
        out[2:, 2:] = H
        return out
    if n == "XX":
        return XX.copy()
    if n == "ZZ":
        return ZZ.copy()
    if n == "SYC":  # FSim(pi/2, pi/6)
        return np.array([[1, 0, 0, 0], [0, 0, -1j, 0], [0, -1j, 0, 0], [0, 0, 0, np.exp(-1j * math.pi / 6)]], dtype=complex)
    if n == "MS":  # exp(-i pi/4 XX)
        return interaction(-PI4, 0, 0)
    raise KeyError(name)


NAMED = ["I", "CZ", "CNOT", "CNOT_REV", "SWAP", "-SWAP", "ISWAP", "ISWAP_INV", "SQRT_ISWAP", "SQRT_ISWAP_INV",
         "SQRT_SWAP", "CS", "CY", "CH", "XX", "ZZ", "SYC", "MS"]


def haar_su2(rng):
    z = (rng.standard_normal((2, 2)) + 1j * rng.standard_normal((2, 2))) / math.sqrt(2)
    q, r = np.linalg.qr(z)
    q = q * (np.diag(r) / np.abs(np.diag(r)))
    return q / np.sqrt(np.linalg.det(q))


CLIFFORD_1Q = [I2, X, Y, Z, H, S, S.conj().T, H @ S, S @ H, H @ S @ H]


def local_unitary(rng, style=None):
    """A 2x2 unitary: 'id', 'clifford' (hits exact zeros/degeneracies), 'z' (diagonal), or Haar."""
    style = style or ["haar", "haar", "haar", "clifford", "id", "z"][int(rng.integers(6))]
    if style == "id":
        return I2.copy()
    if style == "clifford":
        return CLIFFORD_1Q[int(rng.integers(len(CLIFFORD_1Q)))].copy()
    if style == "z":
        return np.diag([1, np.exp(1j * rng.uniform(-math.pi, math.pi))]).astype(complex)
    return haar_su2(rng) * np.exp(1j * rng.uniform(-math.pi, math.pi))


def local_pair(rng, style=None):
    return np.kron(local_unitary(rng, style), local_unitary(rng, style))
