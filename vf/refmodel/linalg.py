"""Oracle-side linear algebra.  numpy only; never imports cirq."""
from __future__ import annotations

import itertools
import math

import numpy as np


def kron(*ms):
    out = np.eye(1, dtype=complex)
    for m in ms:
        out = np.kron(out, np.asarray(m, dtype=complex))
    return out


def dim_of(dims):
    return int(np.prod(dims, dtype=np.int64)) if len(dims) else 1


def apply_on_axes(tensor, matrix, axes, dims_of_axes=None):
    """Left-multiply `matrix` onto `axes` (in that order, big-endian) of `tensor`.

    Returns a new array with the same axis order as `tensor`."""
    tensor = np.asarray(tensor)
    k = len(axes)
    if k == 0:
        return tensor * complex(np.asarray(matrix).reshape(()))
    ds = [tensor.shape[a] for a in axes] if dims_of_axes is None else list(dims_of_axes)
    m = np.asarray(matrix, dtype=complex).reshape(ds + ds)
    moved = np.tensordot(m, tensor, axes=(list(range(k, 2 * k)), list(axes)))
    # result axes: k new axes first, then the remaining axes in original order
    return np.moveaxis(moved, list(range(k)), list(axes))


def embed(matrix, wires, dims):
    """Full matrix (big-endian over range(len(dims))) of `matrix` acting on `wires`."""
    n = len(dims)
    D = dim_of(dims)
    t = np.eye(D, dtype=complex).reshape(list(dims) + [D])
    t = apply_on_axes(t, matrix, list(wires), [dims[w] for w in wires])
    return t.reshape(D, D)


def apply_to_state(psi, matrix, wires, dims):
    t = np.asarray(psi, dtype=complex).reshape(dims)
    return apply_on_axes(t, matrix, list(wires), [dims[w] for w in wires]).reshape(-1)


def apply_to_rho(rho, kraus, wires, dims):
    """rho -> sum_k K rho K^dagger with K acting on `wires`."""
    n = len(dims)
    D = dim_of(dims)
    t = np.asarray(rho, dtype=complex).reshape(list(dims) + list(dims))
    out = np.zeros_like(t)
    ds = [dims[w] for w in wires]
    for K in kraus:
        a = apply_on_axes(t, K, list(wires), ds)
        a = apply_on_axes(a, np.conj(K), [n + w for w in wires], ds)
        out = out + a
    return out.reshape(D, D)


def permute_wires(matrix, perm, dims):
    """Matrix M' with M' acting on wires reordered: new wire i is old wire perm[i]."""
    n = len(dims)
    D = dim_of(dims)
    t = np.asarray(matrix).reshape(list(dims) * 2)
    t = np.transpose(t, list(perm) + [n + p for p in perm])
    return t.reshape(D, D)


def allclose(a, b, atol=1e-7):
    a, b = np.asarray(a), np.asarray(b)
    if a.shape != b.shape:
        return False
    if a.size == 0:
        return True
    d = np.abs(a - b)
    return bool(np.all(np.isfinite(d)) and d.max() <= atol)


def maxdiff(a, b):
    a, b = np.asarray(a), np.asarray(b)
    if a.shape != b.shape:
        return float("inf")
    if a.size == 0:
        return 0.0
    d = np.abs(a - b)
    return float(d.max()) if np.all(np.isfinite(d)) else float("inf")


def phase_align(a, b):
    """Return a*phase such that it best matches b (phase fixed on b's largest entry)."""
    a, b = np.asarray(a, dtype=complex), np.asarray(b, dtype=complex)
    if a.shape != b.shape or a.size == 0:
        return a
    k = int(np.argmax(np.abs(b)))
    x, y = a.ravel()[k], b.ravel()[k]
    if abs(x) < 1e-12 or abs(y) < 1e-12:
        return a
    return a * ((y / abs(y)) / (x / abs(x)))


def phase_equal(a, b, atol=1e-7):
    a, b = np.asarray(a), np.asarray(b)
    if a.shape != b.shape:
        return False
    return allclose(phase_align(a, b), b, atol)


def phase_diff(a, b):
    a, b = np.asarray(a), np.asarray(b)
    if a.shape != b.shape:
        return float("inf")
    return maxdiff(phase_align(a, b), b)


def is_unitary(u, atol=1e-7):
    u = np.asarray(u)
    return u.ndim == 2 and u.shape[0] == u.shape[1] and allclose(u @ u.conj().T, np.eye(u.shape[0]), atol)


def choi(kraus):
    """Choi matrix sum_k vec(K) vec(K)^dagger (row-major vec); basis-independent of Kraus choice."""
    ks = [np.asarray(k, dtype=complex) for k in kraus]
    d2 = ks[0].size
    c = np.zeros((d2, d2), dtype=complex)
    for k in ks:
        v = k.reshape(-1)
        c += np.outer(v, v.conj())
    return c


def superop(kraus):
    """Superoperator acting on row-major vec(rho): sum_k K (x) conj(K)."""
    ks = [np.asarray(k, dtype=complex) for k in kraus]
    return sum(np.kron(k, k.conj()) for k in ks)


def is_trace_preserving(kraus, atol=1e-7):
    ks = [np.asarray(k, dtype=complex) for k in kraus]
    s = sum(k.conj().T @ k for k in ks)
    return allclose(s, np.eye(s.shape[0]), atol)


def controlled(u, control_dims, allowed, target_dim=None):
    """Block matrix applying u on the target iff the control digits tuple is in `allowed`.

    Controls come first (big-endian), then the target wires of u."""
    u = np.asarray(u, dtype=complex)
    dt = u.shape[0]
    dc = dim_of(control_dims)
    out = np.eye(dc * dt, dtype=complex)
    allowed = set(tuple(a) for a in allowed)
    for idx, digs in enumerate(itertools.product(*[range(d) for d in control_dims])):
        if digs in allowed:
            out[idx * dt:(idx + 1) * dt, idx * dt:(idx + 1) * dt] = u
    return out


def ptrace_keep(rho, keep, dims):
    n = len(dims)
    t = np.asarray(rho).reshape(list(dims) * 2)
    cur = n
    for w in sorted([w for w in range(n) if w not in keep], reverse=True):
        t = np.trace(t, axis1=w, axis2=w + cur)
        cur -= 1
    d = dim_of([dims[k] for k in sorted(keep)])
    return t.reshape(d, d)


def haar_unitary(rng, d):
    z = (rng.standard_normal((d, d)) + 1j * rng.standard_normal((d, d))) / math.sqrt(2)
    q, r = np.linalg.qr(z)
    ph = np.diag(r) / np.abs(np.diag(r))
    return q * ph


def random_state(rng, d):
    v = rng.standard_normal(d) + 1j * rng.standard_normal(d)
    return v / np.linalg.norm(v)


def random_rho(rng, d, rank=None):
    rank = rank or d
    a = rng.standard_normal((d, rank)) + 1j * rng.standard_normal((d, rank))
    r = a @ a.conj().T
    return r / np.trace(r).real


def expm_herm(h, coef):
    """exp(coef * h) for Hermitian h via eigh (coef complex)."""
    w, v = np.linalg.eigh(np.asarray(h, dtype=complex))
    return (v * np.exp(coef * w)) @ v.conj().T


def tv_distance(p, q):
    keys = set(p) | set(q)
    return 0.5 * sum(abs(p.get(k, 0.0) - q.get(k, 0.0)) for k in keys)


def digits_to_index(digs, dims):
    i = 0
    for d, b in zip(digs, dims):
        i = i * b + int(d)
    return i


def index_to_digits(i, dims):
    out = []
    for b in reversed(dims):
        out.append(i % b)
        i //= b
    return tuple(reversed(out))
