"""Plain recursive float evaluator over an expression tree - "ordinary algebra".

Works on any tree object exposing sympy's structural protocol (`.args`,
`.is_Symbol`, `.is_Add`, `.is_Mul`, `.is_Pow`, `.is_Number`, `.name`, `.p`,
`.q`) by duck typing: this module imports neither sympy nor cirq.  It is one of
the two oracle opinions of C10 (the other one is sympy's own xreplace + evalf,
called from the driver); neither touches Cirq's ParamResolver fast paths.

It is also the *domain guard*: `evaluate` raises OutOfDomain as soon as any
sub-expression leaves the real, finite, well-conditioned domain in which
"ordinary algebra" is unambiguous (Cirq evaluates powers with np.float_power,
which legitimately returns nan where complex algebra returns a complex number):

  * negative base raised to a non-integer exponent
  * a base within 1e-6 of zero raised to a negative exponent (division by ~0)
  * |exponent| > MAX_EXPONENT, any intermediate magnitude > MAX_MAG
  * non-finite values, unknown node types, unassigned symbols
"""
from __future__ import annotations

import math

MAX_EXPONENT = 6.0
MAX_MAG = 1e6
EPS_DIV = 1e-6


class OutOfDomain(Exception):
    pass


class Unassigned(OutOfDomain):
    pass


class Trace:
    """Collects the largest intermediate magnitude (for the comparison tolerance) and node statistics."""

    def __init__(self):
        self.scale = 1.0
        self.nodes = 0
        self.kinds = set()

    def see(self, v, kind):
        self.nodes += 1
        self.kinds.add(kind)
        a = abs(v)
        if a > self.scale:
            self.scale = a


def _num(expr):
    """Numeric leaf -> python float, or None."""
    if isinstance(expr, bool):
        return None
    if isinstance(expr, (int, float)):
        return float(expr)
    tn = type(expr).__name__
    if tn == "Pi":
        return math.pi
    if tn == "Exp1":
        return math.e
    if getattr(expr, "is_Integer", False):
        return float(int(expr.p))
    if getattr(expr, "is_Rational", False):
        return int(expr.p) / int(expr.q)
    if getattr(expr, "is_Float", False):
        return float(expr)
    if hasattr(expr, "dtype") and hasattr(expr, "item"):  # numpy scalar
        v = expr.item()
        if isinstance(v, (int, float)) and not isinstance(v, bool):
            return float(v)
    return None


def _check(v):
    if isinstance(v, complex) or not math.isfinite(v) or abs(v) > MAX_MAG:
        raise OutOfDomain("magnitude")
    return v


def power(b, e):
    if abs(e) > MAX_EXPONENT:
        raise OutOfDomain("huge exponent")
    if b < 0 and e != math.floor(e):
        raise OutOfDomain("negative base, fractional exponent")
    if abs(b) < EPS_DIV and e < 0:
        raise OutOfDomain("division by ~0")
    if b == 0 and e == 0:
        raise OutOfDomain("0**0")
    try:
        v = math.pow(b, e)
    except (OverflowError, ValueError):
        raise OutOfDomain("pow")
    return _check(v)


_FUNCS = {
    "sin": math.sin, "cos": math.cos,
    "exp": lambda x: _check(math.exp(x)) if abs(x) <= 10 else (_ for _ in ()).throw(OutOfDomain("exp")),
}


def evaluate(expr, env, trace=None):
    """Value of `expr` with symbol names bound by `env` (name -> float)."""
    v = _num(expr)
    if v is not None:
        if trace is not None:
            trace.see(v, "num")
        return _check(v)
    if getattr(expr, "is_Symbol", False):
        if expr.name not in env:
            raise Unassigned(expr.name)
        v = float(env[expr.name])
        if trace is not None:
            trace.see(v, "sym")
        return _check(v)
    args = getattr(expr, "args", None)
    if not args:
        raise OutOfDomain("unknown leaf %s" % type(expr).__name__)
    if getattr(expr, "is_Add", False):
        v = 0.0
        for a in args:
            v += evaluate(a, env, trace)
        kind = "Add"
    elif getattr(expr, "is_Mul", False):
        v = 1.0
        for a in args:
            v *= evaluate(a, env, trace)
        kind = "Mul"
    elif getattr(expr, "is_Pow", False) and len(args) == 2:
        v = power(evaluate(args[0], env, trace), evaluate(args[1], env, trace))
        kind = "Pow"
    else:
        fn = _FUNCS.get(type(expr).__name__)
        if fn is None or len(args) != 1:
            raise OutOfDomain("unsupported node %s" % type(expr).__name__)
        v = fn(evaluate(args[0], env, trace))
        kind = "Func"
    if trace is not None:
        trace.see(v, kind)
    return _check(v)


def free_names(expr, out=None):
    """Names of the symbols occurring in the tree (own walk; not sympy's free_symbols)."""
    if out is None:
        out = set()
    if getattr(expr, "is_Symbol", False):
        out.add(expr.name)
        return out
    for a in getattr(expr, "args", ()) or ():
        free_names(a, out)
    return out


def substitute(expr, mapping):
    """One simultaneous substitution step: every symbol whose name is in `mapping` is replaced by the mapped
    tree/number; the node constructors (`expr.func`) rebuild the tree.  No evaluation happens here."""
    if getattr(expr, "is_Symbol", False):
        return mapping.get(expr.name, expr)
    args = getattr(expr, "args", None)
    if not args:
        return expr
    return expr.func(*[substitute(a, mapping) for a in args])


def fixed_point_env(defs):
    """`defs`: name -> number | tree.  Iterated substitution to a fixed point.

    Returns (env, looping, open_): `env` maps every name that resolves to a number to its float value; `looping` is
    the set of names that lie on, or lead into, a definition cycle; `open_` the names that bottom out in a symbol
    without a definition (they resolve to an expression, not a number)."""
    env, looping, open_ = {}, set(), set()

    def solve(name, stack):
        if name in env:
            return "num"
        if name in looping:
            return "loop"
        if name in open_:
            return "open"
        if name in stack:
            return "loop"
        d = defs[name]
        v = _num(d)
        if v is not None:
            env[name] = v
            return "num"
        res = "num"
        for dep in sorted(free_names(d)):
            r = solve(dep, stack + [name]) if dep in defs else "open"
            if r == "loop":
                res = "loop"
            elif r == "open" and res != "loop":
                res = "open"
        if res == "loop":
            looping.add(name)
        elif res == "open":
            open_.add(name)
        else:
            env[name] = evaluate(d, env)
        return res

    for n in defs:
        solve(n, [])
    return env, looping, open_
