"""Interpreter for AQT operation lists.  numpy only; never imports cirq.

Two spellings of the same program are understood.

Legacy list form (what `cirq_aqt.AQTSampler._generate_json` produces; its
docstring: "[[op_string, gate_exponent, qubits]] ... op_string: 'Z','MS','R',
'Meas' ... gate_exponent: float that specifies the gate_exponent of the
operation"):

    ["R",  theta, phi, [q]]      ["Z", t, [q]]      ["MS", t, [q0, q1]]

Arnica v1 form (what `_parse_legacy_circuit_json` converts to; the TypedDicts
in aqt_sampler.py: GateR "single-qubit rotation around an arbitrary axis on the
Bloch sphere's equatorial plane", GateRZ "rotation around the Bloch sphere's
z-axis", GateRXX "two-qubit entangling gate of Molmer-Sorenson-type", Measure
"projective measurement of all qubits"):

    {"operation": "R", "qubit": q, "theta": theta, "phi": phi}
    {"operation": "RZ", "qubit": q, "phi": t}
    {"operation": "RXX", "qubits": [q0, q1], "theta": t}
    {"operation": "MEASURE"}

Gate definitions, from AQT's published API description (arnica.aqt.eu
"quantum_circuit" schema; all angles are expressed in units of pi):

    R(theta, phi) = exp(-i * (theta*pi)/2 * (cos(phi*pi) X + sin(phi*pi) Y))
    RZ(t)         = exp(-i * (t*pi)/2 * Z)
    RXX(t)        = exp(-i * (t*pi)/2 * X(x)X)

Qubit index q is the q-th ion / wire; the returned unitary is big-endian over
wires 0..n-1.  Measurement is of all qubits, outcome list index j = qubit j.
"""
from __future__ import annotations

import math

import numpy as np

from vf.refmodel import linalg as L


class PayloadError(Exception):
    pass


_X = np.array([[0, 1], [1, 0]], dtype=complex)
_Y = np.array([[0, -1j], [1j, 0]], dtype=complex)
_Z = np.array([[1, 0], [0, -1]], dtype=complex)


def _rot(P, angle):
    P = np.asarray(P, dtype=complex)
    return math.cos(angle / 2) * np.eye(P.shape[0], dtype=complex) - 1j * math.sin(angle / 2) * P


def r_gate(theta, phi):
    axis = math.cos(math.pi * phi) * _X + math.sin(math.pi * phi) * _Y
    return _rot(axis, math.pi * theta)


def rz_gate(t):
    return _rot(_Z, math.pi * t)


def rxx_gate(t):
    return _rot(np.kron(_X, _X), math.pi * t)


def _f(x):
    if isinstance(x, bool) or not isinstance(x, (int, float)) or not math.isfinite(x):
        raise PayloadError("not a finite number: %r" % (x,))
    return float(x)


def _qs(x, n):
    if not isinstance(x, (list, tuple)) or len(x) != n or any(isinstance(q, bool) or not isinstance(q, int) for q in x) \
            or len(set(x)) != n:
        raise PayloadError("bad qubit list %r" % (x,))
    return list(x)


def legacy_steps(ops):
    """-> (list of (matrix, wires), number of 'Meas' entries)."""
    steps, meas = [], 0
    for op in ops:
        if not isinstance(op, (list, tuple)) or not op:
            raise PayloadError("bad operation %r" % (op,))
        if op[0] == "R" and len(op) == 4:
            steps.append((r_gate(_f(op[1]), _f(op[2])), _qs(op[3], 1)))
        elif op[0] == "Z" and len(op) == 3:
            steps.append((rz_gate(_f(op[1])), _qs(op[2], 1)))
        elif op[0] == "MS" and len(op) == 3:
            steps.append((rxx_gate(_f(op[1])), _qs(op[2], 2)))
        elif op[0] == "Meas":
            meas += 1
        else:
            raise PayloadError("unknown legacy operation %r" % (op,))
    return steps, meas


def arnica_steps(ops):
    """-> (list of (matrix, wires), positions of MEASURE operations)."""
    steps, meas = [], []
    for i, op in enumerate(ops):
        kind = op.get("operation")
        if kind == "R":
            steps.append((r_gate(_f(op["theta"]), _f(op["phi"])), _qs([op["qubit"]], 1)))
        elif kind == "RZ":
            steps.append((rz_gate(_f(op["phi"])), _qs([op["qubit"]], 1)))
        elif kind == "RXX":
            steps.append((rxx_gate(_f(op["theta"])), _qs(op["qubits"], 2)))
        elif kind == "MEASURE":
            meas.append(i)
        else:
            raise PayloadError("unknown arnica operation %r" % (op,))
    return steps, meas


def unitary(steps, nqubits):
    dims = [2] * nqubits
    D = 2 ** nqubits
    t = np.eye(D, dtype=complex).reshape(dims + [D])
    for m, wires in steps:
        if any(w < 0 or w >= nqubits for w in wires):
            raise PayloadError("qubit index out of range: %r" % (wires,))
        t = L.apply_on_axes(t, m, list(wires))
    return t.reshape(D, D)


def max_index(steps):
    return max([w for _, ws in steps for w in ws], default=-1)
