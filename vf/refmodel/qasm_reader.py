"""Independent reader for the OpenQASM text Cirq emits.  numpy/stdlib only; never imports cirq.

* tokenizer + recursive-descent parser for the OpenQASM 2.0 subset (OPENQASM, include, qreg/creg, `gate`
  definitions, gate applications with real-expression arguments, measure, reset, barrier, `if (c==n) qop;`,
  comments) and the 3.0 spellings Cirq uses (`qubit[n] q;`, `bit[n] c;`, `c[i] = measure q[j];`,
  `if (c==n) ...`, `if (c!=0 && d!=0) ...`);
* gate semantics are the standard library's: `qelib1.inc` is transcribed below *as text* and parsed by this very
  parser into macros over the two built-ins `U(theta,phi,lambda)` and `CX`; `stdgates.inc` (3.0) is a table of the
  matrices its definitions denote (`ctrl @ g` = block-diagonal(1, g), `pow(1/2) @ g` = principal root, gphase
  included);
* the program is run by a small dense simulator of its own: unitary programs give the matrix on the declared
  qubit order (first declared qubit = most significant), programs with measure/reset/if give the exact joint
  distribution over the final contents of all classical registers (density matrix per classical state, so
  branches that agree classically are merged).  `if (c==n)` reads the register as an integer with bit 0 as the
  LOW-order bit, as the OpenQASM specification says.
"""
from __future__ import annotations

import cmath
import math
import re

import numpy as np

from . import linalg as L


class QasmError(Exception):
    """The text is not a program of the language (kind: lex | parse | semantic | undefined-gate)."""

    def __init__(self, kind, msg, line=None, name=None):
        super().__init__("%s error%s: %s" % (kind, "" if line is None else " (line %d)" % line, msg))
        self.kind, self.msg, self.line, self.name = kind, msg, line, name


# --------------------------------------------------------------------------------------------------------------
# qelib1.inc, transcribed literally (Quantum Experience standard header as distributed with OpenQASM 2.0 /
# Qiskit).  `lambda` is a parameter NAME here - hence a real expression parser, not eval.
QELIB1 = r"""
// Quantum Experience (QE) Standard Header
// file: qelib1.inc

// --- QE Hardware primitives ---

// 3-parameter 2-pulse single qubit gate
gate u3(theta,phi,lambda) q { U(theta,phi,lambda) q; }
// 2-parameter 1-pulse single qubit gate
gate u2(phi,lambda) q { U(pi/2,phi,lambda) q; }
// 1-parameter 0-pulse single qubit gate
gate u1(lambda) q { U(0,0,lambda) q; }
// controlled-NOT
gate cx c,t { CX c,t; }
// idle gate (identity)
gate id a { U(0,0,0) a; }
// idle gate (identity) with length gamma*sqglen
gate u0(gamma) q { U(0,0,0) q; }

// --- QE Standard Gates ---

// generic single qubit gate
gate u(theta,phi,lambda) q { U(theta,phi,lambda) q; }
// phase gate
gate p(lambda) q { U(0,0,lambda) q; }
// Pauli gate: bit-flip
gate x a { u3(pi,0,pi) a; }
// Pauli gate: bit and phase flip
gate y a { u3(pi,pi/2,pi/2) a; }
// Pauli gate: phase flip
gate z a { u1(pi) a; }
// Clifford gate: Hadamard
gate h a { u2(0,pi) a; }
// Clifford gate: sqrt(Z) phase gate
gate s a { u1(pi/2) a; }
// Clifford gate: conjugate of sqrt(Z)
gate sdg a { u1(-pi/2) a; }
// C3 gate: sqrt(S) phase gate
gate t a { u1(pi/4) a; }
// C3 gate: conjugate of sqrt(S)
gate tdg a { u1(-pi/4) a; }

// --- Standard rotations ---
// Rotation around X-axis
gate rx(theta) a { u3(theta, -pi/2,pi/2) a; }
// rotation around Y-axis
gate ry(theta) a { u3(theta,0,0) a; }
// rotation around Z axis
gate rz(phi) a { u1(phi) a; }

// --- QE Standard User-Defined Gates  ---

// sqrt(X)
gate sx a { sdg a; h a; sdg a; }
// inverse sqrt(X)
gate sxdg a { s a; h a; s a; }
// controlled-Phase
gate cz a,b { h b; cx a,b; h b; }
// controlled-Y
gate cy a,b { sdg b; cx a,b; s b; }
// swap
gate swap a,b { cx a,b; cx b,a; cx a,b; }
// controlled-H
gate ch a,b {
h b; sdg b;
cx a,b;
h b; t b;
cx a,b;
t b; h b; s b; x b; s a;
}
// C3 gate: Toffoli
gate ccx a,b,c
{
  h c;
  cx b,c; tdg c;
  cx a,c; t c;
  cx b,c; tdg c;
  cx a,c; t b; t c; h c;
  cx a,b; t a; tdg b;
  cx a,b;
}
// cswap (Fredkin)
gate cswap a,b,c
{
  cx c,b;
  ccx a,b,c;
  cx c,b;
}
// controlled rx rotation
gate crx(lambda) a,b
{
  u1(pi/2) b;
  cx a,b;
  u3(-lambda/2,0,0) b;
  cx a,b;
  u3(lambda/2,-pi/2,0) b;
}
// controlled ry rotation
gate cry(lambda) a,b
{
  ry(lambda/2) b;
  cx a,b;
  ry(-lambda/2) b;
  cx a,b;
}
// controlled rz rotation
gate crz(lambda) a,b
{
  rz(lambda/2) b;
  cx a,b;
  rz(-lambda/2) b;
  cx a,b;
}
// controlled phase rotation
gate cu1(lambda) a,b
{
  u1(lambda/2) a;
  cx a,b;
  u1(-lambda/2) b;
  cx a,b;
  u1(lambda/2) b;
}
gate cp(lambda) a,b
{
  p(lambda/2) a;
  cx a,b;
  p(-lambda/2) b;
  cx a,b;
  p(lambda/2) b;
}
// controlled-U
gate cu3(theta,phi,lambda) c, t
{
  // implements controlled-U(theta,phi,lambda) with  target t and control c
  u1((lambda+phi)/2) c;
  u1((lambda-phi)/2) t;
  cx c,t;
  u3(-theta/2,0,-(phi+lambda)/2) t;
  cx c,t;
  u3(theta/2,phi,0) t;
}
// controlled-sqrt(X)
gate csx a,b { h b; cu1(pi/2) a,b; h b; }
// controlled-U gate
gate cu(theta,phi,lambda,gamma) c, t
{ p(gamma) c;
  p((lambda+phi)/2) c;
  p((lambda-phi)/2) t;
  cx c,t;
  u(-theta/2,0,-(phi+lambda)/2) t;
  cx c,t;
  u(theta/2,phi,0) t;
}
// two-qubit XX rotation
gate rxx(theta) a,b
{
  u3(pi/2, theta, 0) a;
  h b;
  cx a,b;
  u1(-theta) b;
  cx a,b;
  h b;
  u2(-pi, pi-theta) a;
}
// two-qubit ZZ rotation
gate rzz(theta) a,b
{
  cx a,b;
  u1(theta) b;
  cx a,b;
}
// relative-phase CCX
gate rccx a,b,c
{
  u2(0,pi) c;
  u1(pi/4) c;
  cx b, c;
  u1(-pi/4) c;
  cx a, c;
  u1(pi/4) c;
  cx b, c;
  u1(-pi/4) c;
  u2(0,pi) c;
}
"""

_KEYWORDS2 = {"OPENQASM", "include", "qreg", "creg", "gate", "opaque", "barrier", "measure", "reset", "if", "pi", "U", "CX",
              "sin", "cos", "tan", "exp", "ln", "sqrt"}
_KEYWORDS3 = {"OPENQASM", "include", "qubit", "bit", "gate", "barrier", "measure", "reset", "if", "else", "pi", "U",
              "sin", "cos", "tan", "exp", "ln", "sqrt", "qreg", "creg", "int", "uint", "float", "angle", "bool", "const",
              "def", "for", "while", "in", "let", "input", "output", "return", "ctrl", "negctrl", "inv", "pow", "gphase"}
_FUNCS = {"sin": math.sin, "cos": math.cos, "tan": math.tan, "exp": math.exp, "ln": math.log, "sqrt": math.sqrt}

_TOKEN_RE = re.compile(r"""
    (?P<ws>[ \t\r\n]+)
  | (?P<comment>//[^\n]*)
  | (?P<bcomment>/\*.*?\*/)
  | (?P<string>"[^"\n]*")
  | (?P<real>(?:[0-9]+\.[0-9]*|\.[0-9]+)(?:[eE][-+]?[0-9]+)?)
  | (?P<int>[0-9]+)
  | (?P<id>[A-Za-z_][A-Za-z0-9_]*)
  | (?P<sym>==|!=|&&|\|\||->|[;,()\[\]{}+\-*/^=@<>!])
""", re.X | re.S)

_ID2 = re.compile(r"[a-z][A-Za-z0-9_]*\Z")
_ID3 = re.compile(r"[A-Za-z_][A-Za-z0-9_]*\Z")


def tokenize(text, version_hint="2.0"):
    """-> (tokens [(kind, value, line)], comments {line: text after //})."""
    toks, comments = [], {}
    pos, line, n = 0, 1, len(text)
    while pos < n:
        m = _TOKEN_RE.match(text, pos)
        if m is None:
            raise QasmError("lex", "unexpected character %r" % text[pos], line)
        kind = m.lastgroup
        val = m.group(kind)
        if kind == "comment":
            comments.setdefault(line, val[2:].strip())
        elif kind == "bcomment":
            pass
        elif kind != "ws":
            if kind == "real" and pos + len(val) < n and (text[pos + len(val)].isalpha() or text[pos + len(val)] == "_"):
                raise QasmError("lex", "malformed number %r" % text[pos:pos + len(val) + 6], line)
            toks.append((kind, val, line))
        line += val.count("\n")
        pos = m.end()
    toks.append(("eof", "", line))
    return toks, comments


# --------------------------------------------------------------------------------------------------------------
# expressions
def eval_expr(e, env):
    k = e[0]
    if k == "num":
        return e[1]
    if k == "pi":
        return math.pi
    if k == "id":
        if e[1] not in env:
            raise QasmError("semantic", "unknown parameter %r in expression" % e[1], name=e[1])
        return env[e[1]]
    if k == "neg":
        return -eval_expr(e[1], env)
    if k == "call":
        return _FUNCS[e[1]](eval_expr(e[2], env))
    a, b = eval_expr(e[2], env), eval_expr(e[3], env)
    op = e[1]
    if op == "+":
        return a + b
    if op == "-":
        return a - b
    if op == "*":
        return a * b
    if op == "/":
        if b == 0:
            raise QasmError("semantic", "division by zero in expression")
        return a / b
    return a ** b


class _Parser:
    def __init__(self, text, lib_mode=False, version=None):
        self.toks, self.comments = tokenize(text)
        self.i = 0
        self.lib_mode = lib_mode
        self.version = version

    # -- token helpers
    def peek(self, k=0):
        return self.toks[min(self.i + k, len(self.toks) - 1)]

    def next(self):
        t = self.toks[self.i]
        if t[0] != "eof":
            self.i += 1
        return t

    def err(self, msg, tok=None):
        tok = tok or self.peek()
        raise QasmError("parse", "%s, found %r" % (msg, tok[1] or "end of text"), tok[2])

    def accept(self, val):
        t = self.peek()
        if t[0] in ("sym", "id") and t[1] == val:
            self.i += 1
            return True
        return False

    def expect(self, val):
        t = self.peek()
        if not (t[0] in ("sym", "id") and t[1] == val):
            self.err("expected %r" % val)
        self.i += 1
        return t

    def ident(self, what="identifier", allow_builtin=False):
        t = self.peek()
        if t[0] != "id":
            self.err("expected %s" % what)
        self.i += 1
        name = t[1]
        if allow_builtin and name in ("U", "CX"):
            return name
        v3 = self.version is not None and self.version.startswith("3")
        if v3:
            if not _ID3.match(name) or name in _KEYWORDS3:
                raise QasmError("lex", "%r is not a valid OpenQASM 3 identifier" % name, t[2], name=name)
        else:
            if not _ID2.match(name) or name in _KEYWORDS2:
                raise QasmError("lex", "%r is not a valid OpenQASM 2 identifier ([a-z][A-Za-z0-9_]*)" % name, t[2], name=name)
        return name

    def integer(self):
        t = self.peek()
        if t[0] != "int":
            self.err("expected a non-negative integer")
        self.i += 1
        return int(t[1])

    # -- expressions:  expr := term (('+'|'-') term)* ; term := unary (('*'|'/') unary)* ;
    #                  unary := '-' unary | power ; power := atom ('^' unary)?
    def expr(self):
        a = self.term()
        while True:
            t = self.peek()
            if t[0] == "sym" and t[1] in "+-" and len(t[1]) == 1:
                self.i += 1
                a = ("bin", t[1], a, self.term())
            else:
                return a

    def term(self):
        a = self.unary()
        while True:
            t = self.peek()
            if t[0] == "sym" and t[1] in ("*", "/"):
                self.i += 1
                a = ("bin", t[1], a, self.unary())
            else:
                return a

    def unary(self):
        if self.accept("-"):
            return ("neg", self.unary())
        if self.accept("+"):
            return self.unary()
        a = self.atom()
        if self.accept("^"):
            return ("bin", "^", a, self.unary())
        return a

    def atom(self):
        t = self.next()
        if t[0] == "real":
            return ("num", float(t[1]))
        if t[0] == "int":
            return ("num", float(int(t[1])))
        if t[0] == "id":
            if t[1] == "pi":
                return ("pi",)
            if t[1] in _FUNCS:
                self.expect("(")
                a = self.expr()
                self.expect(")")
                return ("call", t[1], a)
            return ("id", t[1])
        if t[0] == "sym" and t[1] == "(":
            a = self.expr()
            self.expect(")")
            return a
        self.err("expected an expression", t)

    # -- arguments
    def arg(self):
        t = self.peek()
        name = self.ident("a register name")
        if self.accept("["):
            idx = self.integer()
            self.expect("]")
            return (name, idx, t[2])
        return (name, None, t[2])

    def arglist(self):
        out = [self.arg()]
        while self.accept(","):
            out.append(self.arg())
        return out

    # -- statements
    def program(self):
        stmts = []
        t = self.peek()
        if not self.lib_mode:
            if not (t[0] == "id" and t[1] == "OPENQASM"):
                self.err("expected OPENQASM header")
            self.i += 1
            v = self.next()
            if v[0] not in ("real", "int"):
                self.err("expected a version number", v)
            self.version = v[1]
            if not (v[1].startswith("2") or v[1].startswith("3")):
                raise QasmError("semantic", "unsupported OPENQASM version %s" % v[1], v[2])
            self.expect(";")
            stmts.append(("version", v[1]))
        while self.peek()[0] != "eof":
            stmts.append(self.statement())
        return stmts

    def statement(self):
        t = self.peek()
        v3 = self.version is not None and self.version.startswith("3")
        if t[0] == "sym" and t[1] == ";":
            self.err("empty statement")
        if t[0] != "id":
            self.err("expected a statement")
        w = t[1]
        if w == "include":
            self.i += 1
            s = self.next()
            if s[0] != "string":
                self.err("expected a file name string", s)
            self.expect(";")
            return ("include", s[1][1:-1], t[2])
        if w in ("qreg", "creg"):
            self.i += 1
            name = self.ident("a register name")
            self.expect("[")
            n = self.integer()
            self.expect("]")
            self.expect(";")
            return (w, name, n, t[2])
        if v3 and w in ("qubit", "bit"):
            self.i += 1
            n = None
            if self.accept("["):
                n = self.integer()
                self.expect("]")
            name = self.ident("a register name")
            if w == "bit" and self.accept("="):
                self.err("initialised bit declarations are not supported by this reader")
            self.expect(";")
            return ("qreg" if w == "qubit" else "creg", name, 1 if n is None else n, t[2], n is None)
        if w == "gate":
            return self.gatedef()
        if w == "if":
            return self.ifstmt()
        return self.qop()

    def qop(self):
        t = self.peek()
        v3 = self.version is not None and self.version.startswith("3")
        w = t[1]
        if w == "measure":
            self.i += 1
            q = self.arg()
            if self.accept("->"):
                c = self.arg()
                self.expect(";")
                return ("measure", q, c, t[2])
            if v3:
                self.expect(";")
                return ("measure", q, None, t[2])
            self.err("expected '->'")
        if w == "reset":
            self.i += 1
            q = self.arg()
            self.expect(";")
            return ("reset", q, t[2])
        if w == "barrier":
            self.i += 1
            a = self.arglist()
            self.expect(";")
            return ("barrier", a, t[2])
        # 3.0 measurement assignment:  c[i] = measure q[j];
        if v3 and t[0] == "id":
            j = 1
            if self.peek(1)[1] == "[":
                j = 4
            if self.peek(j)[0] == "sym" and self.peek(j)[1] == "=":
                c = self.arg()
                self.expect("=")
                self.expect("measure")
                q = self.arg()
                self.expect(";")
                return ("measure", q, c, t[2])
        return self.gateapp()

    def gateapp(self):
        t = self.peek()
        name = self.ident("a gate name", allow_builtin=True)
        params = []
        if self.accept("("):
            if not self.accept(")"):
                params.append(self.expr())
                while self.accept(","):
                    params.append(self.expr())
                self.expect(")")
        args = self.arglist()
        self.expect(";")
        return ("apply", name, params, args, t[2])

    def ifstmt(self):
        t = self.expect("if")
        v3 = self.version is not None and self.version.startswith("3")
        self.expect("(")
        conds = [self.cond()]
        while v3 and self.accept("&&"):
            conds.append(self.cond())
        self.expect(")")
        if v3 and self.accept("{"):
            body = []
            while not self.accept("}"):
                if self.peek()[0] == "eof":
                    self.err("unterminated block")
                body.append(self.qop())
        else:
            if self.peek()[0] == "eof":
                self.err("`if (...)` is not followed by an operation")
            if self.peek()[1] in ("if", "gate", "qreg", "creg", "include", "qubit", "bit"):
                self.err("`if (...)` must be followed by a quantum operation")
            body = [self.qop()]
        return ("if", conds, body, t[2])

    def cond(self):
        v3 = self.version is not None and self.version.startswith("3")
        reg = self.arg()
        t = self.next()
        if not (t[0] == "sym" and (t[1] == "==" or (v3 and t[1] == "!="))):
            self.err("expected '=='" + (" or '!='" if v3 else ""), t)
        if reg[1] is not None and not v3:
            self.err("OpenQASM 2 conditions compare a whole register", t)
        n = self.integer()
        return (reg, t[1], n)

    def gatedef(self):
        t = self.expect("gate")
        name = self.ident("a gate name")
        params = []
        if self.accept("("):
            if not self.accept(")"):
                params.append(self.ident("a parameter name"))
                while self.accept(","):
                    params.append(self.ident("a parameter name"))
                self.expect(")")
        qargs = [self.ident("a qubit argument name")]
        while self.accept(","):
            qargs.append(self.ident("a qubit argument name"))
        self.expect("{")
        body = []
        while not self.accept("}"):
            tk = self.peek()
            if tk[0] == "eof":
                self.err("unterminated gate body")
            if tk[1] == "barrier":
                self.i += 1
                self.arglist()
                self.expect(";")
                continue
            st = self.gateapp()
            for a in st[3]:
                if a[1] is not None:
                    raise QasmError("parse", "indexed argument inside a gate body", a[2])
                if a[0] not in qargs:
                    raise QasmError("semantic", "gate body of %r uses undeclared qubit %r" % (name, a[0]), a[2])
            body.append(st)
        if len(set(qargs)) != len(qargs) or len(set(params)) != len(params):
            raise QasmError("semantic", "duplicate formal argument in gate %r" % name, t[2])
        return ("gatedef", name, params, qargs, body, t[2])


# --------------------------------------------------------------------------------------------------------------
# gate semantics
def u_matrix(theta, phi, lam):
    """U(theta,phi,lambda) of the OpenQASM 2.0 specification."""
    c, s = math.cos(theta / 2), math.sin(theta / 2)
    return np.array([[c, -cmath.exp(1j * lam) * s],
                     [cmath.exp(1j * phi) * s, cmath.exp(1j * (phi + lam)) * c]], dtype=complex)


CX_MATRIX = np.array([[1, 0, 0, 0], [0, 1, 0, 0], [0, 0, 0, 1], [0, 0, 1, 0]], dtype=complex)


def _ctrl(m):
    m = np.asarray(m, dtype=complex)
    d = m.shape[0]
    out = np.eye(2 * d, dtype=complex)
    out[d:, d:] = m
    return out


def _std3():
    """stdgates.inc of OpenQASM 3, as the matrices its definitions denote.  (U3 there is e^{i theta/2} times the
    2.0 matrix; every named gate below carries the gphase its definition adds.)"""
    pi = math.pi
    e = cmath.exp
    X = np.array([[0, 1], [1, 0]], dtype=complex)
    Y = np.array([[0, -1j], [1j, 0]], dtype=complex)
    Z = np.diag([1, -1]).astype(complex)
    H = np.array([[1, 1], [1, -1]], dtype=complex) / math.sqrt(2)
    SWAP = np.eye(4, dtype=complex)[[0, 2, 1, 3]]

    def U3(t, p, l):  # noqa: E741
        return e(1j * t / 2) * u_matrix(t, p, l)

    def ph(l):  # noqa: E741
        return np.diag([1, e(1j * l)]).astype(complex)

    def rx(t):
        return np.array([[math.cos(t / 2), -1j * math.sin(t / 2)], [-1j * math.sin(t / 2), math.cos(t / 2)]], dtype=complex)

    def ry(t):
        return np.array([[math.cos(t / 2), -math.sin(t / 2)], [math.sin(t / 2), math.cos(t / 2)]], dtype=complex)

    def rz(l):  # noqa: E741
        return np.diag([e(-1j * l / 2), e(1j * l / 2)]).astype(complex)

    sx = np.array([[1 + 1j, 1 - 1j], [1 - 1j, 1 + 1j]], dtype=complex) / 2  # pow(1/2) @ x, principal root
    g = {
        "p": (1, 1, ph), "x": (0, 1, lambda: X), "y": (0, 1, lambda: Y), "z": (0, 1, lambda: Z), "h": (0, 1, lambda: H),
        "s": (0, 1, lambda: ph(pi / 2)), "sdg": (0, 1, lambda: ph(-pi / 2)),
        "t": (0, 1, lambda: ph(pi / 4)), "tdg": (0, 1, lambda: ph(-pi / 4)),
        "sx": (0, 1, lambda: sx), "rx": (1, 1, rx), "ry": (1, 1, ry), "rz": (1, 1, rz),
        "cx": (0, 2, lambda: _ctrl(X)), "cy": (0, 2, lambda: _ctrl(Y)), "cz": (0, 2, lambda: _ctrl(Z)),
        "cp": (1, 2, lambda l: _ctrl(ph(l))), "crx": (1, 2, lambda t: _ctrl(rx(t))),  # noqa: E741
        "cry": (1, 2, lambda t: _ctrl(ry(t))), "crz": (1, 2, lambda t: _ctrl(rz(t))),
        "ch": (0, 2, lambda: _ctrl(H)), "swap": (0, 2, lambda: SWAP),
        "ccx": (0, 3, lambda: _ctrl(_ctrl(X))), "cswap": (0, 3, lambda: _ctrl(SWAP)),
        "cu": (4, 2, lambda t, p, l, gm: np.kron(ph(gm - t / 2), np.eye(2)) @ _ctrl(U3(t, p, l))),  # noqa: E741
        "CX": (0, 2, lambda: _ctrl(X)), "phase": (1, 1, ph), "cphase": (1, 2, lambda l: _ctrl(ph(l))),  # noqa: E741
        "id": (0, 1, lambda: np.eye(2, dtype=complex)), "u1": (1, 1, ph),
        "u2": (2, 1, lambda p, l: e(-1j * (p + l + pi / 2) / 2) * U3(pi / 2, p, l)),  # noqa: E741
        "u3": (3, 1, lambda t, p, l: e(-1j * (p + l + t) / 2) * U3(t, p, l)),  # noqa: E741
    }
    return g, U3


_STD3, _U3_V3 = _std3()
# gates that are NOT part of stdgates.inc but that a lenient reading may supply (inverse of sx)
NONSTANDARD_3 = {"sxdg": (0, 1, lambda: np.array([[1 - 1j, 1 + 1j], [1 + 1j, 1 - 1j]], dtype=complex) / 2)}


class _Macro:
    def __init__(self, name, params, qargs, body):
        self.name, self.params, self.qargs, self.body = name, params, qargs, body


class _Builtin:
    def __init__(self, name, nparams, nqubits, fn):
        self.name, self.nparams, self.nqubits, self.fn = name, nparams, nqubits, fn


_QELIB_CACHE = {}


def _qelib1_gates():
    if "g" not in _QELIB_CACHE:
        p = _Parser(QELIB1, lib_mode=True, version="2.0")
        gates = {"U": _Builtin("U", 3, 1, u_matrix), "CX": _Builtin("CX", 0, 2, lambda: CX_MATRIX)}
        for st in p.program():
            if st[0] != "gatedef":
                raise AssertionError("qelib1 transcription contains a non-definition")
            _define(gates, st)
        _QELIB_CACHE["g"] = gates
    return dict(_QELIB_CACHE["g"])


def _define(gates, st):
    _, name, params, qargs, body, line = st
    if name in gates:
        raise QasmError("semantic", "gate %r is already defined" % name, line, name=name)
    for b in body:
        if b[1] not in gates:
            raise QasmError("undefined-gate", "gate %r used in the body of %r is not defined" % (b[1], name), b[4], name=b[1])
    gates[name] = _Macro(name, params, qargs, body)


class Program:
    """Parsed program.  Qubits are numbered in declaration order (register by register)."""

    def __init__(self):
        self.version = None
        self.includes = []
        self.qregs = {}      # name -> (offset, size)
        self.cregs = {}      # name -> size   (declaration order)
        self.creg_comment = {}
        self.creg_line = {}
        self.gates = {}
        self.ops = []        # ("u", matrix, wires) | ("measure", wire, creg, bit) | ("reset", wire) | ("if", conds, [ops])
        self.nqubits = 0
        self.n_gate_statements = 0
        self.n_params = 0     # number of printed real parameters over all gate statements
        self.gate_names_used = {}
        self.identifiers = set()
        self._mcache = {}

    @property
    def is_unitary(self):
        return all(o[0] == "u" for o in self.ops)

    # -- matrices of (possibly composite) gates, memoised
    def gate_matrix(self, name, params, line=None):
        key = (name, tuple(params))
        m = self._mcache.get(key)
        if m is not None:
            return m
        g = self.gates.get(name)
        if g is None:
            raise QasmError("undefined-gate", "gate %r is not defined" % name, line, name=name)
        if isinstance(g, _Builtin):
            if len(params) != g.nparams:
                raise QasmError("semantic", "gate %r takes %d parameters, got %d" % (name, g.nparams, len(params)), line)
            m = np.asarray(g.fn(*params), dtype=complex)
        else:
            if len(params) != len(g.params):
                raise QasmError("semantic", "gate %r takes %d parameters, got %d" % (name, len(g.params), len(params)), line)
            env = dict(zip(g.params, params))
            k = len(g.qargs)
            pos = {q: i for i, q in enumerate(g.qargs)}
            t = np.eye(2 ** k, dtype=complex).reshape([2] * k + [2 ** k])
            for b in g.body:
                sub = self.gate_matrix(b[1], [eval_expr(x, env) for x in b[2]], b[4])
                wires = [pos[a[0]] for a in b[3]]
                if 2 ** len(wires) != sub.shape[0]:
                    raise QasmError("semantic", "gate %r applied to %d qubits in the body of %r" % (b[1], len(wires), name), b[4])
                if len(set(wires)) != len(wires):
                    raise QasmError("semantic", "repeated qubit in the body of %r" % name, b[4])
                t = L.apply_on_axes(t, sub, wires, [2] * len(wires))
            m = t.reshape(2 ** k, 2 ** k)
        self._mcache[key] = m
        return m


def parse(text, lenient_gates=False):
    """Parse and elaborate `text`.  Raises QasmError when it is not a valid program of the subset."""
    p = _Parser(text)
    stmts = p.program()
    prog = Program()
    prog.version = p.version
    v3 = p.version.startswith("3")
    prog.gates = {"U": _Builtin("U", 3, 1, _U3_V3 if v3 else u_matrix)}
    if not v3:
        prog.gates["CX"] = _Builtin("CX", 0, 2, lambda: CX_MATRIX)

    def qubits_of(arg):
        name, idx, line = arg
        if name not in prog.qregs:
            raise QasmError("semantic", "%r is not a declared quantum register" % name, line, name=name)
        off, size = prog.qregs[name]
        if idx is None:
            return [off + i for i in range(size)]
        if idx >= size:
            raise QasmError("semantic", "index %d out of range for %s[%d]" % (idx, name, size), line)
        return [off + idx]

    def cbits_of(arg):
        name, idx, line = arg
        if name not in prog.cregs:
            raise QasmError("semantic", "%r is not a declared classical register" % name, line, name=name)
        size = prog.cregs[name]
        if idx is None:
            return [(name, i) for i in range(size)]
        if idx >= size:
            raise QasmError("semantic", "index %d out of range for %s[%d]" % (idx, name, size), line)
        return [(name, idx)]

    def lower_qop(st):
        out = []
        if st[0] == "apply":
            _, name, pexprs, args, line = st
            params = [eval_expr(x, {}) for x in pexprs]
            m = prog.gate_matrix(name, params, line)
            k = int(round(math.log2(m.shape[0])))
            if len(args) != k:
                raise QasmError("semantic", "gate %r acts on %d qubits, %d given" % (name, k, len(args)), line)
            lists = [qubits_of(a) for a in args]
            width = max(len(x) for x in lists)
            for x in lists:
                if len(x) not in (1, width):
                    raise QasmError("semantic", "register sizes do not match in broadcast of %r" % name, line)
            for j in range(width):
                wires = [x[j] if len(x) > 1 else x[0] for x in lists]
                if len(set(wires)) != len(wires):
                    raise QasmError("semantic", "gate %r applied to a repeated qubit" % name, line)
                out.append(("u", m, wires))
            prog.n_gate_statements += 1
            prog.n_params += len(params)
            prog.gate_names_used[name] = prog.gate_names_used.get(name, 0) + 1
        elif st[0] == "measure":
            _, q, c, line = st
            qs = qubits_of(q)
            if c is None:
                for w in qs:
                    out.append(("measure", w, None, None))
            else:
                cs = cbits_of(c)
                if len(qs) != len(cs):
                    raise QasmError("semantic", "measure: register sizes differ", line)
                for w, (cn, ci) in zip(qs, cs):
                    out.append(("measure", w, cn, ci))
        elif st[0] == "reset":
            for w in qubits_of(st[1]):
                out.append(("reset", w))
        elif st[0] == "barrier":
            for a in st[1]:
                qubits_of(a)
        else:
            raise AssertionError(st[0])
        return out

    for st in stmts:
        k = st[0]
        if k == "version":
            continue
        if k == "include":
            prog.includes.append(st[1])
            if st[1] == "qelib1.inc" and not v3:
                for n, g in _qelib1_gates().items():
                    if n in prog.gates and n not in ("U", "CX"):
                        raise QasmError("semantic", "gate %r already defined before include" % n, st[2])
                    prog.gates.setdefault(n, g)
            elif st[1] == "stdgates.inc" and v3:
                for n, (np_, nq, fn) in _STD3.items():
                    prog.gates[n] = _Builtin(n, np_, nq, fn)
                if lenient_gates:
                    for n, (np_, nq, fn) in NONSTANDARD_3.items():
                        prog.gates[n] = _Builtin(n, np_, nq, fn)
            else:
                raise QasmError("semantic", "cannot include %r in an OPENQASM %s program" % (st[1], p.version), st[2])
        elif k in ("qreg", "creg"):
            name, n, line = st[1], st[2], st[3]
            if name in prog.qregs or name in prog.cregs or name in prog.gates:
                raise QasmError("semantic", "identifier %r declared twice" % name, line, name=name)
            if n == 0:
                raise QasmError("semantic", "register %r has size 0" % name, line, name=name)
            prog.identifiers.add(name)
            if k == "qreg":
                prog.qregs[name] = (prog.nqubits, n)
                prog.nqubits += n
            else:
                prog.cregs[name] = n
                prog.creg_comment[name] = p.comments.get(line)
                prog.creg_line[name] = line
        elif k == "gatedef":
            if st[1] in prog.qregs or st[1] in prog.cregs:
                raise QasmError("semantic", "identifier %r declared twice" % st[1], st[5], name=st[1])
            _define(prog.gates, st)
            prog.identifiers.add(st[1])
        elif k == "if":
            _, conds, body, line = st
            cc = []
            for (reg, op, n) in conds:
                name, idx, l2 = reg
                if name not in prog.cregs:
                    raise QasmError("semantic", "%r is not a declared classical register" % name, l2, name=name)
                if idx is not None and idx >= prog.cregs[name]:
                    raise QasmError("semantic", "index out of range in condition", l2)
                cc.append((name, idx, op, n))
            inner = []
            for b in body:
                inner.extend(lower_qop(b))
            prog.ops.append(("if", cc, inner))
        else:
            prog.ops.extend(lower_qop(st))
    return prog


# --------------------------------------------------------------------------------------------------------------
# execution
def unitary(prog):
    """Matrix of a measurement-free program on the declared qubit order (first declared qubit most significant)."""
    if not prog.is_unitary:
        raise ValueError("program is not unitary")
    n = prog.nqubits
    D = 2 ** n
    t = np.eye(D, dtype=complex).reshape([2] * n + [D])
    for _, m, wires in prog.ops:
        t = L.apply_on_axes(t, m, wires, [2] * len(wires))
    return t.reshape(D, D)


_P0 = np.diag([1.0, 0.0]).astype(complex)
_P1 = np.diag([0.0, 1.0]).astype(complex)
_X = np.array([[0, 1], [1, 0]], dtype=complex)


def creg_value(bits):
    """Integer value of a classical register: bit 0 is the low-order bit (OpenQASM 2.0, section 3.3 / 3.0 casting)."""
    return sum(int(b) << i for i, b in enumerate(bits))


def distribution(prog, const_map=None, prune=1e-15):
    """Exact joint distribution over the final contents of all classical registers.

    Returns {(bits_of_creg_0, bits_of_creg_1, ...): probability}, registers in declaration order, every register a
    tuple of bits with bit 0 first.  `const_map(name, width, n) -> n'` lets the caller re-read the comparison
    constants of `if` statements (used only to *classify* a known defect, never to judge)."""
    n = prog.nqubits
    dims = [2] * n
    D = 2 ** n
    names = list(prog.cregs)
    pos = {c: i for i, c in enumerate(names)}
    rho0 = np.zeros((D, D), dtype=complex)
    rho0[0, 0] = 1.0
    state = {tuple(tuple([0] * prog.cregs[c]) for c in names): rho0}

    def holds(cl, conds):
        for (name, idx, op, k) in conds:
            bits = cl[pos[name]]
            v = int(bits[idx]) if idx is not None else creg_value(bits)
            if const_map is not None and idx is None:
                k = const_map(name, len(bits), k)
            if (v == k) != (op == "=="):
                return False
        return True

    def step(state, op, only=None):
        out = {}

        def add(cl, rho):
            if cl in out:
                out[cl] = out[cl] + rho
            else:
                out[cl] = rho

        for cl, rho in state.items():
            if only is not None and not holds(cl, only):
                add(cl, rho)
                continue
            k = op[0]
            if k == "u":
                add(cl, L.apply_to_rho(rho, [op[1]], op[2], dims))
            elif k == "reset":
                r0 = L.apply_to_rho(rho, [_P0], [op[1]], dims)
                r1 = L.apply_to_rho(rho, [_X @ _P1], [op[1]], dims)
                add(cl, r0 + r1)
            elif k == "measure":
                for b, P in ((0, _P0), (1, _P1)):
                    r = L.apply_to_rho(rho, [P], [op[1]], dims)
                    if abs(np.trace(r).real) <= prune:
                        continue
                    if op[2] is None:
                        add(cl, r)
                    else:
                        i = pos[op[2]]
                        bits = list(cl[i])
                        bits[op[3]] = b
                        add(cl[:i] + (tuple(bits),) + cl[i + 1:], r)
            else:
                raise AssertionError(k)
        return out

    for op in prog.ops:
        if op[0] == "if":
            # the condition is evaluated once, before the (single-statement or block) body runs
            sel = {cl: r for cl, r in state.items() if holds(cl, op[1])}
            rest = {cl: r for cl, r in state.items() if cl not in sel}
            for inner in op[2]:
                sel = step(sel, inner)
            state = rest
            for cl, r in sel.items():
                state[cl] = state[cl] + r if cl in state else r
        else:
            state = step(state, op)
    return {cl: float(np.trace(r).real) for cl, r in state.items() if np.trace(r).real > prune}


# --------------------------------------------------------------------------------------------------------------
def self_test():
    """The transcribed library must denote the gates its comments name (guards against transcription slips)."""
    pi = math.pi
    prog = Program()
    prog.gates = _qelib1_gates()
    X = np.array([[0, 1], [1, 0]], dtype=complex)
    Y = np.array([[0, -1j], [1j, 0]], dtype=complex)
    Z = np.diag([1, -1]).astype(complex)
    H = np.array([[1, 1], [1, -1]], dtype=complex) / math.sqrt(2)

    def ph(l):  # noqa: E741
        return np.diag([1, cmath.exp(1j * l)])

    def rot(P, t):
        return math.cos(t / 2) * np.eye(2) - 1j * math.sin(t / 2) * P

    SWAP = np.eye(4)[[0, 2, 1, 3]]
    th, p_, lm = 0.73, -1.21, 2.4
    exact = {  # equal as matrices
        ("cx", ()): _ctrl(X), ("cz", ()): _ctrl(Z), ("cy", ()): _ctrl(Y), ("swap", ()): SWAP,
        ("ccx", ()): _ctrl(_ctrl(X)), ("cswap", ()): _ctrl(SWAP),
        ("crz", (th,)): _ctrl(rot(Z, th)), ("cry", (th,)): _ctrl(rot(Y, th)), ("crx", (th,)): _ctrl(rot(X, th)),
        ("cu1", (lm,)): _ctrl(ph(lm)), ("cp", (lm,)): _ctrl(ph(lm)), ("cu3", (th, p_, lm)): _ctrl(u_matrix(th, p_, lm)),
        ("z", ()): Z, ("s", ()): ph(pi / 2), ("sdg", ()): ph(-pi / 2), ("t", ()): ph(pi / 4), ("tdg", ()): ph(-pi / 4),
        ("u1", (lm,)): ph(lm), ("rz", (lm,)): ph(lm), ("h", ()): H, ("ry", (th,)): rot(Y, th), ("rx", (th,)): rot(X, th),
        ("id", ()): np.eye(2), ("csx", ()): _ctrl(np.array([[1 + 1j, 1 - 1j], [1 - 1j, 1 + 1j]]) / 2),
        ("rzz", (th,)): np.diag([1, cmath.exp(1j * th), cmath.exp(1j * th), 1]),
    }
    upto = {  # equal up to a global phase
        ("x", ()): X, ("y", ()): Y, ("ch", ()): _ctrl(H), ("sx", ()): rot(X, pi / 2), ("sxdg", ()): rot(X, -pi / 2),
        ("rxx", (th,)): math.cos(th / 2) * np.eye(4) - 1j * math.sin(th / 2) * np.kron(X, X),
        ("u2", (p_, lm)): u_matrix(pi / 2, p_, lm), ("u3", (th, p_, lm)): u_matrix(th, p_, lm),
    }
    for (name, params), want in exact.items():
        got = prog.gate_matrix(name, list(params))
        if not L.allclose(got, want, 1e-12):
            raise AssertionError("qelib1 transcription: %s%r is not the documented gate" % (name, params))
    for (name, params), want in upto.items():
        got = prog.gate_matrix(name, list(params))
        if not L.phase_equal(got, want, 1e-12):
            raise AssertionError("qelib1 transcription: %s%r is not the documented gate (up to phase)" % (name, params))
    # 3.0 table agrees with the 2.0 library up to global phase on every shared name
    for name, (np_, nq, fn) in _STD3.items():
        if name in prog.gates and name not in ("cu", "CX"):
            ps = [th, p_, lm, 0.3][:np_]
            a = np.asarray(fn(*ps), dtype=complex)
            b = prog.gate_matrix(name, ps)
            if not L.phase_equal(a, b, 1e-12):
                raise AssertionError("stdgates table: %s differs from qelib1 beyond a global phase" % name)
    # expression parser: lambda is an identifier, precedence, unary minus, scientific notation
    pr = _Parser("-lambda/2+pi*-0.5^2*(1.0e-1+2.E+0)", lib_mode=True, version="2.0")
    v = eval_expr(pr.expr(), {"lambda": 3.0})
    if abs(v - (-1.5 + pi * -(0.5 ** 2) * 2.1)) > 1e-12:
        raise AssertionError("expression parser")
    # creg integer: bit 0 low-order
    t = ('OPENQASM 2.0;\ninclude "qelib1.inc";\nqreg q[3];\ncreg c[2];\ncreg d[1];\nx q[0];\nmeasure q[0] -> c[0];\n'
         'measure q[1] -> c[1];\nif (c==1) x q[2];\nmeasure q[2] -> d[0];\n')
    d = distribution(parse(t))
    if d != {((1, 0), (1,)): 1.0}:
        raise AssertionError("creg integer convention: %r" % d)
    return True
