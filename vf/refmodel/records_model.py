"""Pure-Python model of measurement records and every view of them (oracle of C18).

A result is `RecordsModel(keys, recs, shapes, params)`:

    recs[key][rep][instance][digit]   plain Python ints
    shapes[key] = (instances, ndigits) (needed when there are 0 repetitions)

All integer views are exact Python big integers.  Nothing here imports cirq or
numpy; the few places that talk about numpy (`npy_*`) parse / build the
documented `.npy` container with `struct` only.
"""
from __future__ import annotations

import ast
import collections
import struct


class Flattening(Exception):
    """A flattened view was requested for a key measured more than once per repetition."""


class ShapeMismatch(Exception):
    """Concatenation of results whose keys / per-repetition shapes / parameters differ."""


# --------------------------------------------------------------------------- integers <-> digits
def bits_to_int(bits):
    v = 0
    for b in bits:
        v = v * 2 + (1 if b else 0)
    return v


def int_to_bits(val, n):
    """Two's complement, high bits dropped (documented for cirq.big_endian_int_to_bits)."""
    val %= 1 << n if n else 1
    return [(val // (1 << (n - 1 - i))) % 2 for i in range(n)]


def digits_to_int(digits, bases):
    """Big-endian mixed radix: the LAST digit is the least significant, bases listed in the same order."""
    digits, bases = list(digits), list(bases)
    if len(digits) != len(bases):
        raise ValueError("length")
    v = 0
    for d, b in zip(digits, bases):
        if not 0 <= d < b:
            raise ValueError("digit out of range")
        v = v * b + d
    return v


def int_to_digits(val, bases):
    bases = list(bases)
    weights, w = [], 1
    for b in reversed(bases):
        weights.append(w)
        w *= b
    weights.reverse()
    if not 0 <= val < w:
        raise ValueError("value out of range")
    return [(val // wt) % b for wt, b in zip(weights, bases)]


def radix_capacity(bases):
    w = 1
    for b in bases:
        w *= b
    return w


def wrapped_digits_to_int(digits, bases, bits, signed):
    """What fixed-width integer arithmetic (wrap-around at `bits`) makes of digits_to_int.
    Used only to *classify* a failure as explained by accumulator overflow."""
    mod = 1 << bits
    v = 0
    for d, b in zip(digits, bases):
        v = (v * b + d) % mod
    if signed and v >= mod // 2:
        v -= mod
    return v


# --------------------------------------------------------------------------- the model
class RecordsModel:
    def __init__(self, keys, recs, shapes, params=None):
        self.keys = list(keys)
        self.recs = {k: [[list(map(int, inst)) for inst in rep] for rep in recs[k]] for k in self.keys}
        self.shapes = {k: tuple(shapes[k]) for k in self.keys}
        self.params = dict(params or {})
        reps = {len(self.recs[k]) for k in self.keys}
        if len(reps) > 1:
            raise AssertionError("model: ragged repetitions")
        self.reps = reps.pop() if reps else 0
        for k in self.keys:
            ni, nd = self.shapes[k]
            for rep in self.recs[k]:
                if len(rep) != ni or any(len(inst) != nd for inst in rep):
                    raise AssertionError("model: ragged record for key %r" % (k,))

    # ---- basic views
    def record_shape(self, k):
        return (self.reps,) + self.shapes[k]

    def flattenable(self, k=None):
        ks = self.keys if k is None else [k]
        return all(self.shapes[x][0] == 1 for x in ks)

    def measurements(self):
        if not self.flattenable():
            raise Flattening()
        return {k: [rep[0] for rep in self.recs[k]] for k in self.keys}

    def rows(self, k):
        """[rep] -> digits of the single instance of k."""
        if self.shapes[k][0] != 1:
            raise Flattening()
        return [rep[0] for rep in self.recs[k]]

    def is_binary(self, k=None):
        ks = self.keys if k is None else [k]
        return all(d in (0, 1) for x in ks for rep in self.recs[x] for inst in rep for d in inst)

    def data_columns(self):
        """key -> [big-endian integer of row r]; only specified for bits."""
        if not self.flattenable():
            raise Flattening()
        return {k: [bits_to_int(row) for row in self.rows(k)] for k in self.keys}

    def data_needs_object(self):
        return any(self.shapes[k][1] > 63 for k in self.keys)

    # ---- histograms
    def histogram(self, k, fold):
        return collections.Counter(fold(row) for row in self.rows(k))

    def multi_histogram(self, ks, fold):
        rows = [self.rows(k) for k in ks]
        c = collections.Counter()
        for r in range(self.reps):
            c[fold(tuple(col[r] for col in rows))] += 1
        return c

    # ---- concatenation
    def concat(self, other):
        if self.params != other.params:
            raise ShapeMismatch("params")
        if set(self.keys) != set(other.keys) or any(self.shapes[k] != other.shapes[k] for k in self.keys):
            raise ShapeMismatch("shapes")
        return RecordsModel(self.keys, {k: self.recs[k] + other.recs[k] for k in self.keys}, self.shapes, self.params)

    def same_story(self, other):
        return (set(self.keys) == set(other.keys) and self.params == other.params and self.reps == other.reps
                and all(self.shapes[k] == other.shapes[k] and self.recs[k] == other.recs[k] for k in self.keys))

    # ---- text
    def text(self):
        """Keys sorted; one line per (key, instance); per digit position the values over the repetitions,
        concatenated when every value is a single character, else separated by blanks."""
        lines = []
        for k in sorted(self.keys):
            ni, nd = self.shapes[k]
            for j in range(ni):
                cols = []
                for i in range(nd):
                    vals = [str(self.recs[k][r][j][i]) for r in range(self.reps)]
                    cols.append(("" if all(len(s) == 1 for s in vals) else " ").join(vals))
                lines.append("%s=%s" % (k, ", ".join(cols)))
        return "\n".join(lines)

    def flat(self, k):
        return [d for rep in self.recs[k] for inst in rep for d in inst]

    def fingerprint(self):
        return (tuple((k, self.shapes[k], tuple(self.flat(k))) for k in self.keys), self.reps,
                tuple(sorted(self.params.items())))

    # ---- asymmetry, the measured non-triviality of a case
    def asymmetry(self):
        """Which slips this content can expose (measured, per result):
        endianness     some row differs from its reversal
        reps_differ    not all repetitions carry the same record (>= 2 repetitions)
        inst_differ    some repetition has two different instances of a key
        rows_distinct  every (rep, instance) row of every key is different from the others of that key
        cols_distinct  every digit column of every key is different from the others of that key
        """
        out = {"endianness": False, "reps_differ": False, "inst_differ": False, "rows_distinct": True,
               "cols_distinct": True}
        for k in self.keys:
            ni, nd = self.shapes[k]
            recs = self.recs[k]
            rows = [tuple(inst) for rep in recs for inst in rep]
            if any(r != r[::-1] for r in rows):
                out["endianness"] = True
            if any(rep != recs[0] for rep in recs[1:]):
                out["reps_differ"] = True
            if any(inst != rep[0] for rep in recs for inst in rep[1:]):
                out["inst_differ"] = True
            if len(set(rows)) != len(rows):
                out["rows_distinct"] = False
            cols = [tuple(r[i] for r in rows) for i in range(nd)]
            if len(set(cols)) != len(cols):
                out["cols_distinct"] = False
        return out


# --------------------------------------------------------------------------- bit packing (JSON form, binary)
def pack_bits_hex(flat_bits):
    """Bits packed 8 per byte, first bit in the most significant position, zero padded at the END."""
    flat_bits = list(flat_bits)
    out = bytearray()
    for i in range(0, len(flat_bits), 8):
        chunk = flat_bits[i:i + 8]
        chunk = chunk + [0] * (8 - len(chunk))
        b = 0
        for x in chunk:
            b = (b << 1) | (1 if x else 0)
        out.append(b)
    return bytes(out).hex()


def unpack_bits_hex(hexstr, count):
    raw = bytes.fromhex(hexstr)
    bits = []
    for byte in raw:
        for i in range(7, -1, -1):
            bits.append((byte >> i) & 1)
    if len(bits) < count:
        raise ValueError("payload too short")
    return bits[:count], bits[count:]


def reshape3(flat, shape):
    a, b, c = shape
    if len(flat) != a * b * c:
        raise ValueError("size mismatch")
    it = iter(flat)
    return [[[next(it) for _ in range(c)] for _ in range(b)] for _ in range(a)]


def reshape(flat, shape):
    shape = list(shape)
    n = 1
    for s in shape:
        n *= s
    if len(flat) != n:
        raise ValueError("size mismatch")
    if not shape:
        return flat[0]
    if len(shape) == 1:
        return list(flat)
    step = n // shape[0] if shape[0] else 0
    return [reshape(flat[i * step:(i + 1) * step], shape[1:]) for i in range(shape[0])]


# --------------------------------------------------------------------------- .npy container (JSON form, digits)
_NPY_CODES = {"b1": ("?", 1), "i1": ("b", 1), "u1": ("B", 1), "i2": ("h", 2), "u2": ("H", 2), "i4": ("i", 4),
              "u4": ("I", 4), "i8": ("q", 8), "u8": ("Q", 8)}
DTYPE_DESCR = {"bool": "|b1", "int8": "|i1", "uint8": "|u1", "int16": "<i2", "uint16": "<u2", "int32": "<i4",
               "uint32": "<u4", "int64": "<i8", "uint64": "<u8"}
DESCR_DTYPE = {v: k for k, v in DTYPE_DESCR.items()}


def npy_parse(raw):
    """Parse a version 1/2/3 .npy byte string of an integer/bool array.
    Returns (dtype name, shape tuple, flat list in C order)."""
    if raw[:6] != b"\x93NUMPY":
        raise ValueError("not an npy payload")
    major = raw[6]
    if major == 1:
        hlen = struct.unpack("<H", raw[8:10])[0]
        off = 10
    else:
        hlen = struct.unpack("<I", raw[8:12])[0]
        off = 12
    header = ast.literal_eval(raw[off:off + hlen].decode("latin1"))
    descr, fortran, shape = header["descr"], header["fortran_order"], tuple(header["shape"])
    order = descr[0]
    code = descr[1:]
    if code not in _NPY_CODES:
        raise ValueError("unsupported dtype " + descr)
    ch, size = _NPY_CODES[code]
    n = 1
    for s in shape:
        n *= s
    body = raw[off + hlen:]
    if len(body) != n * size:
        raise ValueError("npy body length %d != %d" % (len(body), n * size))
    endian = ">" if order == ">" else "<"
    flat = [int(x) for x in struct.unpack(endian + ch * n, body)] if n else []
    if fortran and len(shape) > 1:
        # convert Fortran order to C order
        idx = _fortran_to_c(shape)
        flat = [flat[i] for i in idx]
    name = DESCR_DTYPE.get(("|" if size == 1 else "<") + code, descr)
    return name, shape, flat


def _fortran_to_c(shape):
    import itertools

    strides, s = [], 1
    for d in shape:
        strides.append(s)
        s *= d
    return [sum(i * st for i, st in zip(ix, strides)) for ix in itertools.product(*[range(d) for d in shape])]


def npy_build(dtype_name, shape, flat):
    """A version-1.0 .npy byte string, C order, little endian."""
    descr = DTYPE_DESCR[dtype_name]
    ch, size = _NPY_CODES[descr[1:]]
    shp = "(%s)" % "".join("%d, " % s for s in shape) if len(shape) == 1 else "(%s)" % ", ".join(str(s) for s in shape)
    header = "{'descr': '%s', 'fortran_order': False, 'shape': %s, }" % (descr, shp)
    pad = 64 - ((10 + len(header) + 1) % 64)
    header = header + " " * (pad % 64) + "\n"
    raw = b"\x93NUMPY\x01\x00" + struct.pack("<H", len(header)) + header.encode("latin1")
    return raw + struct.pack("<" + ch * len(flat), *flat)
