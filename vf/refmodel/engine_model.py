"""Sequential specification of a Quantum Engine stream server, of the documented client retry protocol, and the
offline checker over stream histories (C20 b).

Pure Python: no cirq, no protobuf, no asyncio.  vf.monitors.engine_fake translates protobuf requests into the plain
tuples used here and the model's decisions back into QuantumRunStreamResponse messages.

Server side (what Quantum Engine does with each request of the QuantumRunStream RPC)
    create_quantum_program_and_job(program, job)  PROGRAM_ALREADY_EXISTS if the program is known, else create both and run
    create_quantum_job(program, job)              PROGRAM_DOES_NOT_EXIST / JOB_ALREADY_EXISTS / create and run
    get_quantum_result(job)                       JOB_DOES_NOT_EXIST or the result
    run_count[job] increments whenever a job is created (a job that runs twice has run_count 2).

Client side (documented in StreamManager._manage_execution and _get_retry_request_or_raise)
    first request: create_quantum_program_and_job
    retryable stream break (InternalServerError, ServiceUnavailable, Unknown)     -> get_quantum_result
    PROGRAM_DOES_NOT_EXIST answering create_quantum_job                          -> create_quantum_program_and_job
    PROGRAM_ALREADY_EXISTS answering create_quantum_program_and_job             -> get_quantum_result
    JOB_DOES_NOT_EXIST answering get_quantum_result                              -> create_quantum_job
    JOB_ALREADY_EXISTS answering anything but get_quantum_result                 -> get_quantum_result
    any other (code, request) pair                                               -> StreamError(error.message) to the caller
    non-retryable GoogleAPICallError on the stream                               -> that exception to the caller
    `result` / `job` response                                                    -> returned to the caller
"""
from __future__ import annotations

CPJ, CJ, GR = "create_quantum_program_and_job", "create_quantum_job", "get_quantum_result"
KINDS = (CPJ, CJ, GR)

CODES = ("CODE_UNSPECIFIED", "INTERNAL", "INVALID_ARGUMENT", "PERMISSION_DENIED", "PROGRAM_ALREADY_EXISTS",
         "JOB_ALREADY_EXISTS", "PROGRAM_DOES_NOT_EXIST", "JOB_DOES_NOT_EXIST", "PROCESSOR_DOES_NOT_EXIST",
         "INVALID_PROCESSOR_FOR_JOB")

RETRYABLE_EXCEPTIONS = ("InternalServerError", "ServiceUnavailable", "Unknown")
FATAL_EXCEPTIONS = ("DeadlineExceeded", "FailedPrecondition", "Forbidden", "InvalidArgument", "ResourceExhausted",
                    "TooManyRequests", "Unauthenticated", "Unauthorized", "Aborted", "NotFound")


# ------------------------------------------------------------------------------------------- server specification
class EngineLedger:
    def __init__(self):
        self.programs = {}     # program name -> set of job names
        self.jobs = {}         # job name -> program name
        self.run_count = {}    # job name -> times created since it last did not exist
        self.total_runs = {}   # job name -> times created ever
        self.cancelled = []    # job names passed to cancel_quantum_job, in order
        self.log = []

    # requests of the stream
    def handle(self, kind, program, job):
        """-> ("result", job) | ("error", CODE)"""
        if kind == CPJ:
            if program in self.programs:
                out = ("error", "PROGRAM_ALREADY_EXISTS")
            else:
                self.programs[program] = set()
                self._create_job(program, job)
                out = ("result", job)
        elif kind == CJ:
            if program not in self.programs:
                out = ("error", "PROGRAM_DOES_NOT_EXIST")
            elif job in self.jobs:
                out = ("error", "JOB_ALREADY_EXISTS")
            else:
                self._create_job(program, job)
                out = ("result", job)
        elif kind == GR:
            out = ("result", job) if job in self.jobs else ("error", "JOB_DOES_NOT_EXIST")
        else:
            raise ValueError("unknown request kind %r" % (kind,))
        self.log.append((kind, program, job, out))
        return out

    def _create_job(self, program, job):
        self.jobs[job] = program
        self.programs[program].add(job)
        self.run_count[job] = self.run_count.get(job, 0) + 1
        self.total_runs[job] = self.total_runs.get(job, 0) + 1

    def cancel(self, job):
        self.cancelled.append(job)

    # the world outside the stream client (other clients, garbage collection): used by the fault injector
    def external_create_program(self, program):
        self.programs.setdefault(program, set())

    def external_create_job(self, program, job):
        self.external_create_program(program)
        if job not in self.jobs:
            self._create_job(program, job)

    def external_delete_job(self, job):
        p = self.jobs.pop(job, None)
        if p is not None:
            self.programs[p].discard(job)
            self.run_count.pop(job, None)

    def external_delete_program(self, program):
        for j in list(self.programs.pop(program, ())):
            self.jobs.pop(j, None)
            self.run_count.pop(j, None)


# ------------------------------------------------------------------------------------------- client specification
def next_request(kind, outcome):
    """What the client must do after `outcome` answered its request of type `kind`.

    outcome: ("result", run count) | ("job",) | ("error", CODE) | ("break", retryable: bool, exception name)
    -> ("send", kind) | ("return", "result" | "job") | ("raise", "StreamError") | ("raise", exception name)"""
    o = outcome[0]
    if o in ("result", "job"):
        return ("return", o)
    if o == "break":
        return ("send", GR) if outcome[1] else ("raise", outcome[2])
    code = outcome[1]
    if code == "PROGRAM_DOES_NOT_EXIST" and kind == CJ:
        return ("send", CPJ)
    if code == "PROGRAM_ALREADY_EXISTS" and kind == CPJ:
        return ("send", GR)
    if code == "JOB_DOES_NOT_EXIST" and kind == GR:
        return ("send", CJ)
    if code == "JOB_ALREADY_EXISTS" and kind != GR:
        return ("send", GR)
    return ("raise", "StreamError")


def terminal_codes(kind):
    """Error codes that are documented to surface as StreamError when they answer a request of this kind."""
    return [c for c in CODES if next_request(kind, ("error", c))[0] == "raise"]


# ------------------------------------------------------------------------------------------- offline checker
def check_stream_history(hist, submits, run_count):
    """hist: list of event tuples (index = logical clock) recorded by vf.monitors.engine_fake:

      ("request", stream, message_id, kind, job, program, live, well_formed)
      ("outcome", message_id, job, outcome)      client-visible fate of that request (see next_request) or ("void", why)
      ("cancel-rpc", job)
      ("cancel", job, accepted)                  driver called future.cancel()
      ("stop",)
      ("future", job, kind, detail, callbacks)   kind: result | job | exception | cancelled | timeout
      ("lost-response", job, what) ("missing-request", job, kind) ("unexpected-request", job, kind)   brain verdicts
      ("demux-left", n_pending, n_done)
    submits: {job: program}; run_count: the ledger's run_count at the end.
    Returns a list of (mechanism, message)."""
    bad = []

    def v(mech, msg):
        bad.append(("C20:stream:" + mech, msg))

    seen_ids = {}
    reqs = {j: [] for j in submits}
    outcome = {}
    cancel_rpcs = {}
    cancelled, stopped_at = {}, []
    futures = {}
    for i, ev in enumerate(hist):
        k = ev[0]
        if k == "request":
            _, stream, mid, kind, job, program, live, well = ev
            if mid in seen_ids:
                v("message-id-reused", "message id %r used by request %d and request %d" % (mid, seen_ids[mid], i))
            seen_ids[mid] = i
            if job not in reqs:
                v("request-for-unknown-job", "request %r names job %r that was never submitted" % (kind, job))
                continue
            if not well or submits[job] != program:
                v("malformed-request", "request %r for job %r carries program %r (submitted with %r)" % (kind, job, program, submits[job]))
            reqs[job].append((i, mid, kind))
        elif k == "outcome":
            outcome[ev[1]] = (i, ev[3])
        elif k == "cancel-rpc":
            cancel_rpcs[ev[1]] = cancel_rpcs.get(ev[1], 0) + 1
        elif k == "cancel":
            if ev[2]:
                cancelled[ev[1]] = i
        elif k == "stop":
            stopped_at.append(i)
        elif k == "future":
            if ev[1] in futures:
                v("harness", "two future events for %r" % (ev[1],))
            futures[ev[1]] = (i,) + tuple(ev[2:])
        elif k == "lost-response":
            if ev[2].startswith("done"):
                v("lost-response", "job %r was in flight at %s() but its future was not done within the bounded number of "
                                   "event-loop turns" % (ev[1], ev[2].split()[-1]))
            else:
                v("lost-response", "server emitted the terminal response (%s) for job %r on a live stream but the future was "
                                   "not done within the bounded number of event-loop turns" % (ev[2], ev[1]))
        elif k == "missing-request":
            v("missing-request", "job %r: the protocol prescribes a %s request, none arrived within the bounded number "
                                 "of event-loop turns" % (ev[1], ev[2]))
        elif k == "demux-left":
            if ev[1]:
                v("subscriber-left", "%d pending subscriber(s) left in the ResponseDemux after every execution ended" % ev[1])

    for job, program in submits.items():
        rs = reqs[job]
        fut = futures.get(job)
        was_cancelled = job in cancelled
        expect = ("send", CPJ)
        final = None
        voided = False
        derailed = False
        for n, (i, mid, kind) in enumerate(rs):
            if expect[0] != "send":
                v("request-after-terminal", "job %r: request %s sent although the previous outcome was terminal (%r)" % (job, kind, expect))
                derailed = True
                break
            if kind != expect[1]:
                prev = rs[n - 1][2] if n else None
                prev_out = outcome.get(rs[n - 1][1], (None, None))[1] if n else None
                mech = "wrong-retry-request"
                if prev_out and prev_out[0] == "break" and kind in (CPJ, CJ):
                    mech = "retry-after-break-recreates"
                v(mech, "job %r: after %s answered by %r the protocol prescribes %s, the client sent %s"
                  % (job, prev, prev_out, expect[1], kind))
                derailed = True
                break
            o = outcome.get(mid)
            if o is None or o[1][0] == "void":
                voided = True   # cancelled / stopped / never answered: no further expectation
                expect = ("void",)
                if n != len(rs) - 1:
                    v("request-after-cancel", "job %r: request sent after its execution was cancelled" % (job,))
                break
            expect = next_request(kind, o[1])
            final = o[1]
        if not rs:
            v("no-request", "job %r was submitted but no request reached the server" % (job,))
            continue
        if fut is None:
            v("harness", "no future event for %r" % (job,))
            continue
        _, fkind, fdetail, ncb = fut
        if ncb != 1 and fkind != "timeout":
            v("future-resolved-%d-times" % ncb, "done-callback of the submit future of %r ran %d times" % (job, ncb))
        if derailed:
            continue  # the client left the protocol; what happens afterwards is a consequence, not a second finding
        if fkind == "timeout":
            continue  # the brain's logical verdicts (lost-response / missing-request) decide; wall clock never does
        stopped = bool(stopped_at) and rs[0][0] < stopped_at[-1]
        if was_cancelled or (voided and stopped):
            if fkind == "cancelled":
                pass
            elif was_cancelled:
                v("cancel-not-honoured", "future.cancel() of job %r was accepted but the future ended as %s %r" % (job, fkind, fdetail))
            if was_cancelled and cancel_rpcs.get(job, 0) != 1:
                v("cancel-rpc-count", "cancelling the future of %r produced %d cancel_quantum_job calls (expected exactly 1)"
                  % (job, cancel_rpcs.get(job, 0)))
            if not was_cancelled and cancel_rpcs.get(job, 0) > 1:
                v("cancel-rpc-count", "stop() produced %d cancel_quantum_job calls for %r" % (cancel_rpcs.get(job, 0), job))
            o_last = outcome.get(rs[-1][1])
            if (not was_cancelled and fkind == "cancelled" and cancel_rpcs.get(job, 0) == 0 and o_last is not None
                    and tuple(o_last[1]) == ("void", "stop")):
                # the job's last request was waiting for its answer on the server when stop() came: the caller is told
                # "cancelled", so the remote job must have been cancelled too
                v("stop-without-cancel-rpc", "stop() ended the future of %r as cancelled while its request was waiting for an "
                                             "answer, but cancel_quantum_job was never called for it" % (job,))
            continue
        if cancel_rpcs.get(job, 0):
            v("spurious-cancel-rpc", "cancel_quantum_job(%r) called although the job was never cancelled" % (job,))
        if expect[0] == "send":
            v("missing-request", "job %r: history ends while the protocol prescribes a %s request" % (job, expect[1]))
        elif expect[0] == "return":
            if fkind != expect[1]:
                v("wrong-future-outcome", "job %r: server answered %r, future ended as %s %r" % (job, final, fkind, fdetail))
            elif fdetail != job:
                v("foreign-result", "the future of job %r resolved with the %s of %r" % (job, fkind, fdetail))
            elif fkind == "result" and len(final) > 1 and final[1] != 1:
                v("job-ran-%s-times" % final[1], "a result was returned for %r which had run %r times" % (job, final[1]))
        elif expect[0] == "raise":
            if fkind != "exception" or fdetail[0] != expect[1]:
                v("wrong-future-outcome", "job %r: documented outcome is %s, future ended as %s %r" % (job, expect[1], fkind, fdetail))
            elif expect[1] == "StreamError" and final and final[0] == "error" and len(final) > 2 and fdetail[1] != final[2]:
                v("wrong-error-message", "job %r: StreamError message %r, server sent %r" % (job, fdetail[1], final[2]))
    for job in cancel_rpcs:
        if job not in submits:
            v("spurious-cancel-rpc", "cancel_quantum_job(%r) for a job that was never submitted" % (job,))
    return bad


def fingerprint(hist):
    """Event-kind sequence of a stream history (job names abstracted to first-appearance indices)."""
    names = {}

    def idx(j):
        return names.setdefault(j, len(names))

    out = []
    for ev in hist:
        k = ev[0]
        if k == "request":
            out.append("q%d%s%s" % (idx(ev[4]), {CPJ: "P", CJ: "J", GR: "G"}.get(ev[3], "?"), "" if ev[6] else "x"))
        elif k == "outcome":
            o = ev[3]
            out.append("o%d:%s" % (idx(ev[2]), o[0][0] + (o[1][:5] if o[0] in ("error", "void") else ("R" if o[0] == "break" and o[1] else ""))))
        elif k == "future":
            out.append("f%d%s" % (idx(ev[1]), ev[2][0]))
        elif k in ("cancel", "cancel-rpc"):
            out.append("%s%d" % ("c" if k == "cancel" else "C", idx(ev[1])))
        elif k == "stop":
            out.append("S")
        elif k == "stream-open":
            out.append("O")
        elif k == "submit":
            out.append("s%d" % idx(ev[1]))
    return " ".join(out)
