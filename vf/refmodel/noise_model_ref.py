"""Reference forms of the documented noise-model channels (numpy only, never imports cirq).

ThermalNoiseModel docstring: heating Lindblad op sqrt(gh)*a^dag, cooling sqrt(gc)*a, dephasing sqrt(2*gd)*n with
n = a^dag a; the channel of a moment of duration t is exp(t*Lindbladian).  Row-major vectorisation:
vec(A rho B) = (A kron B^T) vec(rho), the convention of vf.refmodel.linalg.superop."""
from __future__ import annotations

import math

import numpy as np


def expm(a):
    """matrix exponential by scaling and squaring with a Taylor series (small matrices)"""
    a = np.asarray(a, dtype=complex)
    nrm = np.linalg.norm(a, 1)
    s = max(0, int(math.ceil(math.log2(nrm))) + 4) if nrm > 0 else 0
    b = a / (2 ** s)
    term = np.eye(a.shape[0], dtype=complex)
    out = term.copy()
    for k in range(1, 40):
        term = term @ b / k
        out = out + term
        if np.linalg.norm(term, 1) < 1e-20:
            break
    for _ in range(s):
        out = out @ out
    return out


def lindbladian(ops, dim):
    eye = np.eye(dim)
    tot = np.zeros((dim * dim, dim * dim), dtype=complex)
    for a in ops:
        ad = a.conj().T
        sq = ad @ a
        tot += np.kron(a, ad.T) - 0.5 * (np.kron(sq, eye) + np.kron(eye, sq.T))
    return tot


def thermal_superop(dim, heat, cool, dephase, t):
    a = np.diag(np.sqrt(np.arange(1, dim)), 1).astype(complex)
    n = a.conj().T @ a
    ops = [math.sqrt(heat) * a.conj().T, math.sqrt(cool) * a, math.sqrt(2 * dephase) * n]
    return expm(t * lindbladian(ops, dim))


def kraus_from_superop(s, dim, tol=1e-12):
    """Kraus operators of a superoperator (row-major vec convention) through the eigendecomposition of its Choi matrix"""
    s4 = np.asarray(s).reshape(dim, dim, dim, dim)  # S[(i,j),(k,l)]: rho_kl -> rho'_ij = sum K_ik conj(K_jl)
    choi = np.transpose(s4, (0, 2, 1, 3)).reshape(dim * dim, dim * dim)  # C[(i,k),(j,l)]
    w, v = np.linalg.eigh((choi + choi.conj().T) / 2)
    ks = []
    for val, vec in zip(w, v.T):
        if val > tol:
            ks.append(math.sqrt(val) * vec.reshape(dim, dim))
    return ks
