"""Structural comparison of two Python values that does NOT go through the
`__eq__` of the objects it compares (numpy/stdlib only, never imports cirq).

Two entry points:

* `peq(a, b)`    - "proper equality" of containers: recurses through lists,
  tuples, dicts, numpy arrays and pandas objects and calls `==` only on the
  leaves.  This is the *observation* of the value's own equality.
* `diff(a, b)`   - field-by-field comparison of the instance dictionaries /
  slots of two objects (recursively), used so that a broken or too-coarse
  `__eq__` cannot hide a field that was lost by a round trip.  Returns a list
  of `Diff(owner, field, path, a, b)`; `owner` is the class name of the object
  whose attribute `field` differs.
"""
from __future__ import annotations

import collections
import datetime
import enum
import math
import numbers
import types

import numpy as np

Diff = collections.namedtuple("Diff", "owner field path a b")

_SCALARS = (str, bytes, bool, int, float, complex, type(None))


def _is_pandas(o):
    return type(o).__module__.split(".")[0] == "pandas"


def _is_sympy(o):
    return type(o).__module__.split(".")[0] == "sympy"


def _is_nx(o):
    return type(o).__module__.split(".")[0] == "networkx"


def peq(a, b):
    """Equality as the values themselves define it, made safe for arrays/frames."""
    if isinstance(a, np.ndarray) or isinstance(b, np.ndarray):
        try:
            aa, bb = np.asarray(a), np.asarray(b)
        except Exception:
            return False
        if aa.shape != bb.shape:
            return False
        if aa.dtype == object or bb.dtype == object:
            return all(peq(x, y) for x, y in zip(aa.ravel().tolist(), bb.ravel().tolist()))
        return bool(np.array_equal(aa, bb))
    if _is_pandas(a) or _is_pandas(b):
        if type(a) is not type(b) and not (hasattr(a, "equals") and hasattr(b, "equals")):
            return False
        try:
            return bool(a.equals(b))
        except Exception:
            return False
    if isinstance(a, (list, tuple)) and isinstance(b, (list, tuple)):
        return len(a) == len(b) and all(peq(x, y) for x, y in zip(a, b))
    if isinstance(a, dict) and isinstance(b, dict) and type(a).__module__ in ("builtins", "collections") \
            and type(b).__module__ in ("builtins", "collections"):
        if len(a) != len(b):
            return False
        for k, v in a.items():
            if k not in b:
                return False
            if not peq(v, b[k]):
                return False
        return True
    r = a == b
    if isinstance(r, np.ndarray):
        return bool(r.all())
    if r is NotImplemented:
        return False
    return bool(r)


def _num_eq(a, b):
    try:
        if a == b:
            return True
    except Exception:
        return False
    try:
        return bool(math.isnan(a) and math.isnan(b))
    except Exception:
        return False


def is_cache_attr(name):
    return (name.startswith("_method_cache_") or name in ("_hash", "_hash_value", "__orig_class__")
            or name.startswith("_cached_") or name.startswith("__cached"))


def _attrs(o):
    """Instance attributes as a dict (instance __dict__ plus filled __slots__)."""
    out = {}
    d = getattr(o, "__dict__", None)
    if isinstance(d, dict):
        out.update(d)
    for klass in type(o).__mro__:
        for s in getattr(klass, "__slots__", ()) or ():
            if isinstance(s, str) and s not in ("__dict__", "__weakref__") and s not in out:
                try:
                    out[s] = object.__getattribute__(o, s)
                except AttributeError:
                    pass
    return out


def _short(o):
    try:
        r = repr(o)
    except Exception as e:  # noqa
        r = "<repr failed: %s>" % type(e).__name__
    return r if len(r) <= 160 else r[:157] + "..."


def diff(a, b, *, roots=("cirq",), ignore=(), normalize=None, rtol=0.0, type_mismatch="report", max_depth=14, max_out=12):
    """Differences between the stored fields of `a` and `b`.

    `roots`: module prefixes whose instances are opened up attribute by
    attribute; instances of other classes are compared with `==` (numbers,
    strings, sympy, pandas, datetime, enum) or skipped (functions, opaque).
    `ignore`: set of (owner class name, attribute) pairs that are lazily
    computed caches and may legitimately differ.
    `normalize`: {class name: f(obj) -> plain data}; instances of such a class
    are compared through f instead of attribute by attribute (for classes that
    keep the same value in several internal representations).
    `rtol`: relative tolerance on numbers (0 = exact; a repr may print `x*np.pi/2`, which re-evaluates to 1 ulp off).
    `type_mismatch`: "report" - two opened objects of different classes are a difference; "eq" - they are compared
    with their own `==` (a repr may legitimately spell an equal value through another class, `cirq.Y(q)`).
    """
    normalize = normalize or {}
    out = []
    seen = set()   # pairs (id, id) already compared; only objects that stay alive for the whole call may be entered
    keep = []      # temporaries whose ids are in `seen` are kept alive here (a freed object's id can be reused)
    ignore = set(ignore)

    def opened(o):
        m = type(o).__module__ or ""
        return any(m == r or m.startswith(r + ".") or m.startswith(r + "_") for r in roots)

    def rec(x, y, owner, field, path, depth):
        if len(out) >= max_out or x is y:
            return
        key = (id(x), id(y))
        if key in seen:
            return
        if depth > max_depth:
            return

        def report():
            out.append(Diff(owner, field, path, _short(x), _short(y)))

        # numbers (python, numpy scalars) by value; bool/int/float kinds not distinguished
        if isinstance(x, (numbers.Number, np.generic)) and isinstance(y, (numbers.Number, np.generic)) \
                and not _is_sympy(x) and not _is_sympy(y):
            if not _num_eq(x, y):
                close = False
                if rtol:
                    try:
                        close = abs(x - y) <= rtol * max(abs(x), abs(y))
                    except Exception:
                        close = False
                if not close:
                    report()
            return
        if isinstance(x, (str, bytes)) or isinstance(y, (str, bytes)) or x is None or y is None:
            if type(x) is not type(y) or x != y:
                report()
            return
        if isinstance(x, np.ndarray) or isinstance(y, np.ndarray):
            if not (isinstance(x, (np.ndarray, list, tuple)) and isinstance(y, (np.ndarray, list, tuple))):
                report()
                return
            try:
                xa, ya = np.asarray(x), np.asarray(y)
            except Exception:
                return
            if xa.dtype == object or ya.dtype == object:
                if xa.shape != ya.shape:
                    report()
                    return
                lx, ly = xa.ravel().tolist(), ya.ravel().tolist()
                keep.append((lx, ly))
                for i, (p, q) in enumerate(zip(lx, ly)):
                    rec(p, q, owner, field, path + "[%d]" % i, depth + 1)
                return
            if xa.shape != ya.shape:
                report()
                return
            try:
                same = np.array_equal(xa, ya, equal_nan=True)
            except TypeError:
                same = np.array_equal(xa, ya)
            if not same and rtol and xa.dtype.kind in "fc" and ya.dtype.kind in "fc":
                same = bool(np.allclose(xa, ya, rtol=rtol, atol=0, equal_nan=True))
            if not same:
                report()
            return
        if isinstance(x, (list, tuple)) and isinstance(y, (list, tuple)):
            seen.add(key)
            if len(x) != len(y):
                report()
                return
            for i, (p, q) in enumerate(zip(x, y)):
                rec(p, q, owner, field, path + "[%d]" % i, depth + 1)
            return
        if isinstance(x, (set, frozenset)) and isinstance(y, (set, frozenset)):
            if len(x) != len(y):
                report()
                return
            try:
                xs, ys = sorted(x, key=repr), sorted(y, key=repr)
            except Exception:
                return
            for i, (p, q) in enumerate(zip(xs, ys)):
                rec(p, q, owner, field, path + "{%d}" % i, depth + 1)
            return
        if isinstance(x, dict) and isinstance(y, dict):
            seen.add(key)
            if len(x) != len(y):
                report()
                return
            # pair the keys up by their own lookup; when a key of x is not found in y (the key objects themselves differ),
            # by position (both dicts were built in the same order), so that the difference is attributed to the key object
            found = True
            for k in x:
                try:
                    if k not in y:
                        found = False
                        break
                except Exception:
                    found = False
                    break
            if not found:
                for i, ((k1, v1), (k2, v2)) in enumerate(zip(x.items(), y.items())):
                    rec(k1, k2, owner, field, path + "<key %d>" % i, depth + 1)
                    rec(v1, v2, owner, field, path + "[%s]" % _short(k1)[:40], depth + 1)
                return
            for k, v in x.items():
                if len(y) <= 24:
                    # equal keys may still carry lost fields
                    for kk in y:
                        try:
                            if kk == k:
                                rec(k, kk, owner, field, path + "<key %s>" % _short(k)[:40], depth + 1)
                                break
                        except Exception:
                            break
                rec(v, y[k], owner, field, path + "[%s]" % _short(k)[:40], depth + 1)
            return
        if isinstance(x, (types.FunctionType, types.BuiltinFunctionType, types.MethodType, type)) or \
                isinstance(y, (types.FunctionType, types.BuiltinFunctionType, types.MethodType, type)):
            if isinstance(x, type) or isinstance(y, type):
                if x is not y:
                    report()
            return
        if isinstance(x, enum.Enum) or isinstance(y, enum.Enum):
            if x is not y:
                report()
            return
        if isinstance(x, (datetime.datetime, datetime.date, datetime.timedelta)):
            try:
                if x != y:
                    report()
            except TypeError:
                report()
            return
        if _is_sympy(x) or _is_sympy(y):
            try:
                same = bool(x == y)
            except Exception:
                same = False
            if not same:
                report()
            return
        if _is_pandas(x) or _is_pandas(y):
            try:
                same = bool(x.equals(y))
            except Exception:
                same = False
            if not same:
                report()
            return
        if _is_nx(x) and _is_nx(y):
            try:
                nx_, ny_ = sorted(map(repr, x.nodes)), sorted(map(repr, y.nodes))
                directed = x.is_directed()
                ex = sorted(repr(e if directed else tuple(sorted(map(repr, e)))) for e in x.edges)
                ey = sorted(repr(e if y.is_directed() else tuple(sorted(map(repr, e)))) for e in y.edges)
            except Exception:
                return
            if nx_ != ny_ or ex != ey:
                report()
            return
        if opened(x) or opened(y):
            if type(x) is not type(y):
                if type_mismatch == "eq":
                    try:
                        same = bool(x == y) and bool(y == x)
                    except Exception:
                        same = False
                    if same:
                        return
                out.append(Diff(owner, field, path + "<type>", type(x).__name__, type(y).__name__))
                return
            seen.add(key)
            cname = type(x).__name__
            if cname in normalize:
                try:
                    nx_, ny_ = normalize[cname](x), normalize[cname](y)
                except Exception:
                    return
                keep.append((nx_, ny_))
                rec(nx_, ny_, cname, "<value>", path + "<normalized>", depth + 1)
                return
            ax, ay = _attrs(x), _attrs(y)
            for name in ax:
                if name not in ay or is_cache_attr(name) or (cname, name) in ignore:
                    continue
                rec(ax[name], ay[name], cname, name, path + "." + name, depth + 1)
            return
        # opaque foreign object: not compared

    rec(a, b, type(a).__name__, "<root>", "", 0)
    return out
