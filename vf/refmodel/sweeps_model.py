"""Pure-Python definitions of the sweep classes, written from the docstrings in
cirq/study/sweeps.py.  stdlib only; never imports cirq (or sympy).

A model sweep enumerates *assignments*: tuples of (key, value) pairs, keys being
plain strings.  Every class offers

    keys()         the keys in definition order
    points()       the list of assignments the definition describes
    formula_len()  the length by the closed formula of the docstring
                   (product / min / max / sum / len) - computed WITHOUT enumerating,
                   so the enumeration and the formula check each other

Definitions used (quoted from the docstrings):

  Points     "a simple sweep with explicitly supplied values"; "the length of the
             sweep will be equivalent to the length of this sequence"
  Linspace   "assigns to the list of values start, start + (stop - start) /
             (length - 1), ..., stop"
  ListSweep  "a wrapper around a list of ParamResolvers"
  UnitSweep  "a sweep with a single element that assigns no parameter values"
  Product    "assigns the tuple ('a','b') to all possible combinations of these
             assignments ... the leftmost sweep is the outer loop"
  Zip        "pair-wise matched values ... stopping when the first component
             sweep stops"
  ZipLongest "we iterate until all sweeps terminate ... the shorter sweeps will
             be filled by repeating their last value"; "ValueError if an input
             sweep is completely empty"
  Concat     "the concatenation produces a sweep assigning 'a' to the values
             0, 1, 2, 3, 4, 5 in sequence"; "all sweeps must share the same
             descriptors"
"""
from __future__ import annotations


class ModelError(ValueError):
    """The definition rejects this construction (documented ValueError in Cirq)."""


class MSweep:
    kind = "?"

    def keys(self):
        raise NotImplementedError

    def points(self):
        raise NotImplementedError

    def formula_len(self):
        raise NotImplementedError

    def __len__(self):
        return len(self.points())

    # documented operators: '*' is the Cartesian product, '+' is the zip
    def __mul__(self, other):
        return Product(self, other)

    def __add__(self, other):
        return Zip(self, other)

    def describe(self):
        return self.kind


def _dup(keys):
    return len(set(keys)) != len(keys)


class Unit(MSweep):
    kind = "Unit"

    def keys(self):
        return []

    def points(self):
        return [()]

    def formula_len(self):
        return 1


class Points(MSweep):
    kind = "Points"

    def __init__(self, key, values):
        self.key, self.values = str(key), list(values)

    def keys(self):
        return [self.key]

    def points(self):
        return [((self.key, v),) for v in self.values]

    def formula_len(self):
        return len(self.values)

    def describe(self):
        return "Points(%s,%d)" % (self.key, len(self.values))


class Linspace(MSweep):
    kind = "Linspace"

    def __init__(self, key, start, stop, length):
        self.key, self.start, self.stop, self.length = str(key), start, stop, int(length)

    def keys(self):
        return [self.key]

    def values(self):
        if self.length <= 0:
            return []
        if self.length == 1:
            return [self.start]
        step = (self.stop - self.start) / (self.length - 1)
        out = [self.start + i * step for i in range(self.length)]
        out[-1] = self.stop  # "..., stop"
        return out

    def points(self):
        return [((self.key, v),) for v in self.values()]

    def formula_len(self):
        return max(self.length, 0)

    def describe(self):
        return "Linspace(%s,%d)" % (self.key, self.length)


class ListSweep(MSweep):
    """`assignments`: list of lists of (key, value) pairs (one per resolver)."""
    kind = "ListSweep"

    def __init__(self, assignments):
        self.assignments = [tuple((str(k), v) for k, v in a) for a in assignments]

    def keys(self):
        if not self.assignments:
            return []
        return [k for k, _ in self.assignments[0]]

    def points(self):
        return list(self.assignments)

    def formula_len(self):
        return len(self.assignments)

    def describe(self):
        return "ListSweep(%d)" % len(self.assignments)


class Product(MSweep):
    kind = "Product"

    def __init__(self, *factors):
        fs = []
        for f in factors:  # the documented '*' flattens nested products; the enumeration is the same either way
            fs.append(f)
        self.factors = fs
        if _dup([k for f in fs for k in f.keys()]):
            raise ModelError("duplicate keys")

    def keys(self):
        return [k for f in self.factors for k in f.keys()]

    def points(self):
        out = [()]
        for f in self.factors:  # leftmost factor = outer loop
            fp = f.points()
            out = [a + b for a in out for b in fp]
        return out

    def formula_len(self):
        n = 1
        for f in self.factors:
            n *= f.formula_len()
        return n

    def describe(self):
        return "Product(%s)" % ",".join(f.describe() for f in self.factors)


class Zip(MSweep):
    kind = "Zip"

    def __init__(self, *sweeps):
        self.sweeps = list(sweeps)
        if _dup([k for s in self.sweeps for k in s.keys()]):
            raise ModelError("duplicate keys")

    def keys(self):
        return [k for s in self.sweeps for k in s.keys()]

    def points(self):
        if not self.sweeps:
            return []
        cols = [s.points() for s in self.sweeps]
        n = min(len(c) for c in cols)  # "stopping when the first component sweep stops"
        out = []
        for i in range(n):
            row = ()
            for c in cols:
                row = row + c[i]
            out.append(row)
        return out

    def formula_len(self):
        if not self.sweeps:
            return 0
        return min(s.formula_len() for s in self.sweeps)

    def describe(self):
        return "Zip(%s)" % ",".join(s.describe() for s in self.sweeps)


class ZipLongest(Zip):
    kind = "ZipLongest"

    def __init__(self, *sweeps):
        super().__init__(*sweeps)
        if any(s.formula_len() == 0 for s in self.sweeps):
            raise ModelError("All sweeps must be non-empty for ZipLongest")

    def points(self):
        if not self.sweeps:
            return []
        cols = [s.points() for s in self.sweeps]
        n = max(len(c) for c in cols)  # "we iterate until all sweeps terminate"
        out = []
        for i in range(n):
            row = ()
            for c in cols:
                row = row + (c[i] if i < len(c) else c[-1])  # "filled by repeating their last value"
            out.append(row)
        return out

    def formula_len(self):
        if not self.sweeps:
            return 0
        return max(s.formula_len() for s in self.sweeps)

    def describe(self):
        return "ZipLongest(%s)" % ",".join(s.describe() for s in self.sweeps)


class Concat(MSweep):
    kind = "Concat"

    def __init__(self, *sweeps):
        if not sweeps:
            raise ModelError("Concat requires at least one sweep.")
        self.sweeps = list(sweeps)
        k0 = self.sweeps[0].keys()
        for s in self.sweeps[1:]:
            if s.keys() != k0:
                raise ModelError("All sweeps must have the same descriptors.")

    def keys(self):
        return self.sweeps[0].keys()

    def points(self):
        out = []
        for s in self.sweeps:
            out.extend(s.points())
        return out

    def formula_len(self):
        return sum(s.formula_len() for s in self.sweeps)

    def describe(self):
        return "Concat(%s)" % ",".join(s.describe() for s in self.sweeps)


# ---------------------------------------------------------------- sweepables (cirq/study/sweepable.py docstrings)
def dict_product_points(d):
    """dict_to_product_sweep: "Each entry in the dictionary specifies a sweep as a mapping from the parameter to a
    value or sequence of values. The Cartesian product of these sweeps is returned." """
    return Product(*[Points(k, list(v) if isinstance(v, (list, tuple)) else [v]) for k, v in d.items()])


def dict_zip_points(d):
    """dict_to_zip_sweep: same entries, "the zip product of these sweeps is returned"."""
    return Zip(*[Points(k, list(v) if isinstance(v, (list, tuple)) else [v]) for k, v in d.items()])


def depth(s):
    kids = getattr(s, "factors", None) or getattr(s, "sweeps", None) or []
    return 1 + max([depth(k) for k in kids], default=0)
