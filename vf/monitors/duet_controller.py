"""Deterministic scheduler for the duet job-orchestration layer (C20 a).

The fake sampler on the far side of `cirq.Sampler.run_async` IS the scheduler:
every sampler call parks on a duet future; a controller task that lives in the
same (single-threaded, cooperative) duet scheduler waits for *logical
quiescence* (no boundary event for QUIET consecutive scheduler ticks) and then
asks a chooser which of the parked calls to complete or fail, in which order
and how many before the collector is allowed to wake up.  Nothing here looks at
a wall clock: deadlock is "nothing parked, every future resolved, the main task
not done after DEADLOCK ticks".

All boundary events are appended to one list (`hist`); its index is the logical
clock.  The checkers live in vf.refmodel.collector_model.
"""
from __future__ import annotations

import duet.impl as dimpl
from duet.futuretools import AwaitableFuture, completed_future

QUIET = 5       # ticks without any boundary event => the system under test is blocked
DEADLOCK = 25   # ticks with nothing to do and the main task not done => deadlock


class DeadlockAbort(BaseException):
    """Thrown into a deadlocked main task so that duet.run can return (the verdict is already recorded)."""


class InjectedError(Exception):
    """The sampler failure injected by the controller; eid identifies it."""

    def __init__(self, eid):
        super().__init__("injected sampler failure %r" % (eid,))
        self.eid = eid


class Parked:
    __slots__ = ("key", "future", "make_result", "resolved")

    def __init__(self, key, future, make_result):
        self.key, self.future, self.make_result, self.resolved = key, future, make_result, False


class Controller:
    """chooser(parked_keys: list, n_done: int) -> list of (index_into_parked, 'ok' | 'fail'), non-empty, distinct indices.
    The returned batch is resolved back to back, before the system under test runs again."""

    def __init__(self, hist, chooser):
        self.hist = hist
        self.chooser = chooser
        self.parked = []
        self.spawned = False
        self.n_done = 0
        self.n_err = 0
        self.ticks = 0
        self.decisions = 0
        self.harness_error = None

    # -- called by the fake on the far side of the interface
    def park(self, key, make_result):
        fut = AwaitableFuture()
        p = Parked(key, fut, make_result)

        def on_done(f, p=p):
            if f.cancelled() and not p.resolved:
                p.resolved = True
                self.hist.append(("cancelled", p.key))

        fut.add_done_callback(on_done)
        self.parked.append(p)
        if not self.spawned:
            self.spawned = True
            t = dimpl.current_task()
            while t.main_task is not None:
                t = t.main_task
            t.scheduler.spawn(self._run(t))
        return fut

    async def _run(self, root):
        try:
            await self._loop(root)
        except BaseException as e:  # noqa: a harness bug must never look like a verdict, and must not wedge duet.run
            import traceback
            self.harness_error = "".join(traceback.format_exception(type(e), e, e.__traceback__))[-1500:]
            self.hist.append(("harness-error", type(e).__name__))
            if not root.done:
                root.interrupt(root, DeadlockAbort())

    async def _loop(self, root):
        hist = self.hist
        seen, quiet, idle = len(hist), 0, 0
        while not root.done:
            await completed_future(None)  # exactly one scheduler tick, no wall clock involved
            self.ticks += 1
            if root.done:
                break
            if len(hist) != seen:
                seen, quiet = len(hist), 0
                continue
            quiet += 1
            if quiet < QUIET:
                continue
            live = [p for p in self.parked if not p.resolved]
            self.parked = live
            if not live:
                idle += 1
                if idle >= DEADLOCK:
                    hist.append(("deadlock",))
                    root.interrupt(root, DeadlockAbort())
                    return
                continue
            idle = 0
            hist.append(("block",))
            batch = self.chooser([p.key for p in live], self.n_done)
            self.decisions += 1
            for idx, how in batch:
                p = live[idx]
                if p.resolved:
                    continue
                p.resolved = True
                if how == "ok":
                    res, rid = p.make_result()
                    hist.append(("complete", p.key, rid))
                    p.future.try_set_result(res)
                else:
                    self.n_err += 1
                    eid = "err%d" % self.n_err
                    hist.append(("fail", p.key, eid))
                    p.future.try_set_exception(InjectedError(eid))
                self.n_done += 1
            seen, quiet = len(hist), 0


async def guarded(awaitable):
    """Await and report ('return', value) | ('raise', exc) instead of raising.

    The root task of a duet scheduler must not raise while the controller task is alive: duet.run's clean-up
    loop would wait forever for tasks that were popped from the ready list of the aborted tick (behaviour of the
    third-party scheduler, not of the code under test).  So every root coroutine of this harness is wrapped."""
    try:
        return "return", await awaitable
    except BaseException as e:  # noqa: recorded at the boundary, judged by the offline checker
        return "raise", e


def exc_id(e):
    if isinstance(e, InjectedError):
        return e.eid
    if isinstance(e, DeadlockAbort):
        return "deadlock-abort"
    return "unexpected:%s:%s" % (type(e).__name__, str(e)[:120])


# ---------------------------------------------------------------------------- choosers
class ScriptedChooser:
    """Replays a decision prefix; beyond it takes option 0 and records the fan-out (stateless-search style)."""

    def __init__(self, prefix, fail_at=None, options=None):
        self.prefix = list(prefix)
        self.fail_at = fail_at
        self.trace = []      # (choice, n_options)
        self.options = options or batch_options

    def __call__(self, keys, n_done):
        opts = self.options(len(keys))
        i = len(self.trace)
        c = self.prefix[i] if i < len(self.prefix) else 0
        self.trace.append((c, len(opts)))
        out = []
        for off, idx in enumerate(opts[c]):
            out.append((idx, "fail" if self.fail_at is not None and n_done + off == self.fail_at else "ok"))
        return out


_BATCH_CACHE = {}


def batch_options(n):
    """All non-empty ordered selections of distinct indices out of n parked calls (order = completion order;
    length = how many complete before the system under test wakes)."""
    if n not in _BATCH_CACHE:
        import itertools
        out = []
        for k in range(1, n + 1):
            out.extend(itertools.permutations(range(n), k))
        _BATCH_CACHE[n] = out
    return _BATCH_CACHE[n]


class RandomChooser:
    def __init__(self, rng, p_fail=0.0, max_fail=1, p_batch=0.35):
        self.rng, self.p_fail, self.max_fail, self.p_batch = rng, p_fail, max_fail, p_batch
        self.fails = 0

    def __call__(self, keys, n_done):
        n = len(keys)
        k = 1
        while k < n and self.rng.random() < self.p_batch:
            k += 1
        idxs = [int(x) for x in self.rng.permutation(n)[:k]]
        out = []
        for idx in idxs:
            how = "ok"
            if self.fails < self.max_fail and self.rng.random() < self.p_fail:
                how = "fail"
                self.fails += 1
            out.append((idx, how))
        return out


def explore(run_once, max_runs=None, out_of_time=None):
    """Depth-first enumeration of every decision sequence.  run_once(prefix) -> trace [(choice, n_options), ...].
    Returns (runs, complete)."""
    stack = [[]]
    runs = 0
    while stack:
        if (max_runs is not None and runs >= max_runs) or (out_of_time is not None and out_of_time()):
            return runs, False
        prefix = stack.pop()
        trace = run_once(prefix)
        runs += 1
        for d in range(len(prefix), len(trace)):
            c, n = trace[d]
            for alt in range(c + 1, n):
                stack.append([t[0] for t in trace[:d]] + [alt])
    return runs, True


# ---------------------------------------------------------------------------- fakes on both sides of the interface
def make_fakes():
    """Build the classes lazily (cirq is imported by the worker before any driver runs)."""
    import cirq
    import numpy as np

    class ControlledSampler(cirq.Sampler):
        """run_sweep_async parks on a controller future.  The job is identified by the measurement key of the
        circuit it was asked to run ("j<cid>_<k>"), so a delivery can be traced to the job it belongs to."""

        single = True   # True: one resolver per call (Collector); False: log the number of resolvers (batch layer)

        def __init__(self, hist, ctl):
            self.hist, self.ctl, self.nres = hist, ctl, 0

        def identify(self, program):
            k = sorted(program.all_measurement_key_names())[0]
            a, b = k[1:].split("_")
            return (int(a), int(b)), k

        def bits(self, jid, key, repetitions):
            return np.zeros((repetitions, 1), dtype=np.uint8)

        async def run_sweep_async(self, program, params, repetitions=1):
            jid, key = self.identify(program)
            resolvers = list(cirq.to_resolvers(params))
            if self.single:
                self.hist.append(("start", jid, repetitions))
            else:
                self.hist.append(("start", jid, repetitions, len(resolvers)))

            def mk():
                out, rids = [], []
                for r in resolvers:
                    self.nres += 1
                    d = dict(r.param_dict)
                    d["rid"] = self.nres
                    out.append(cirq.ResultDict(params=cirq.ParamResolver(d),
                                               measurements={key: self.bits(jid, key, repetitions)}))
                    rids.append("r%d" % self.nres)
                return out, (rids[0] if self.single else tuple(rids))

            return await self.ctl.park(jid, mk)

    class ScriptedCollector(cirq.Collector):
        """next_job replays a list of hand-outs: None | (k, reps) | nested lists of those."""

        def __init__(self, hist, cid, handouts):
            self.hist, self.cid, self.handouts, self.jobs, self.outcome = hist, cid, list(handouts), {}, None
            self.q = cirq.LineQubit(0)

        def next_job(self):
            self.hist.append(("next_job.call", self.cid))
            tree = self.handouts.pop(0) if self.handouts else None
            ids = []

            def build(t):
                if t is None:
                    return None
                if isinstance(t, tuple):
                    k, reps = t
                    jid = (self.cid, k)
                    job = cirq.CircuitSampleJob(cirq.Circuit(cirq.measure(self.q, key="j%d_%d" % jid)),
                                                repetitions=reps, tag=jid)
                    self.jobs[jid] = job
                    ids.append(jid)
                    return job
                return [build(x) for x in t]

            out = build(tree)
            self.hist.append(("next_job.ret", tuple(ids), self.cid))
            return out

        def on_job_result(self, job, result):
            rid = "r%d" % result.params.param_dict["rid"]
            self.hist.append(("deliver", job.tag, rid, self.jobs.get(job.tag) is job))

        async def collect_async(self, sampler, **kw):
            # boundary observer around the real Collector.collect_async (never raises at the scheduler root)
            kind, val = await guarded(super().collect_async(sampler, **kw))
            self.outcome = (kind, val)
            self.hist.append(("return", self.cid) if kind == "return" else ("raise", exc_id(val), self.cid))

    return ControlledSampler, ScriptedCollector


def project(hist, cid):
    """The events of one collector, in clock order, in the shape vf.refmodel.collector_model expects."""
    out = []
    for ev in hist:
        k = ev[0]
        if k in ("start", "complete", "fail", "cancelled", "deliver"):
            if ev[1][0] == cid:
                out.append(ev)
        elif k == "next_job.call":
            if ev[1] == cid:
                out.append(("next_job.call",))
        elif k == "next_job.ret":
            if ev[2] == cid:
                out.append(("next_job.ret", ev[1]))
        elif k == "return":
            if ev[1] == cid:
                out.append(("return",))
        elif k == "raise":
            if ev[2] == cid:
                out.append(("raise", ev[1]))
        else:
            out.append(ev)
    return out
