"""Scripted seed object + decision-tree explorer.

Cirq's simulators draw every random number from the object passed as `seed=`
(`cirq.value.parse_random_state` returns a non-int, non-None object unchanged).
`ScriptedRandom` records the probability vector of every draw and dictates its
outcome; `explore` re-executes the real entry point once per branch, so "all
random draws" is an exact enumeration with exact probabilities."""
from __future__ import annotations

import numpy as np

EPS = 1e-12


class UnscriptedDraw(Exception):
    pass


class BadDistribution(Exception):
    pass


class ScriptedRandom:
    """Implements the RandomState surface Cirq uses (choice / random / randint)."""

    def __init__(self, prefix=(), bulk_rng=None, u_values=None):
        self.prefix = list(prefix)
        self.log = []        # (kind, weights tuple | n, decision, nonzero alternatives)
        self.bad = []        # malformed distributions requested
        self.bulk_rng = bulk_rng
        self.bulk = []       # arrays handed out for size>1 requests
        self.u_values = list(u_values) if u_values is not None else None  # scripted random() outputs

    # -- helpers
    def _decide(self, kind, weights):
        i = len(self.log)
        alts = [j for j, w in enumerate(weights) if w > EPS]
        if not alts:
            raise BadDistribution("all-zero distribution %r" % (weights,))
        if i < len(self.prefix):
            d = self.prefix[i]
            if d >= len(weights):
                raise BadDistribution("scripted decision %d out of range for %r (non-deterministic replay)" % (d, weights))
        else:
            d = alts[0]
        self.log.append((kind, tuple(float(w) for w in weights), d, alts))
        return d

    # -- numpy RandomState surface
    def choice(self, a, size=None, replace=True, p=None):
        n = a if isinstance(a, (int, np.integer)) else len(a)
        vals = None if isinstance(a, (int, np.integer)) else list(a)
        if p is None:
            w = np.full(n, 1.0 / n)
        else:
            w = np.asarray(p, dtype=float)
            if w.shape != (n,) or np.any(~np.isfinite(w)) or np.any(w < -1e-9) or abs(w.sum() - 1) > 1e-6:
                self.bad.append(("choice", [float(x) for x in np.ravel(w)][:16]))
                w = np.clip(np.nan_to_num(w), 0, None)
                if w.sum() <= 0:
                    raise BadDistribution("unusable distribution")
                w = w / w.sum()
        if size is None:
            d = self._decide("choice", w)
            return d if vals is None else vals[d]
        cnt = int(np.prod(size))
        if cnt == 1:
            d = self._decide("choice", w)
            out = np.array([d if vals is None else vals[d]])
            return out.reshape(size) if not isinstance(size, (int, np.integer)) else out
        if cnt == 0:
            return np.zeros(size, dtype=int)
        # bulk request: hand out a scripted array over the support and remember it
        if self.bulk_rng is None:
            raise UnscriptedDraw("bulk choice(size=%r) without bulk_rng" % (size,))
        alts = [j for j, x in enumerate(w) if x > 1e-9]
        arr = np.array([alts[int(k)] for k in self.bulk_rng.integers(len(alts), size=cnt)])
        self.bulk.append((tuple(float(x) for x in w), arr.copy()))
        res = arr if vals is None else np.array([vals[k] for k in arr])
        return res.reshape(size) if not isinstance(size, (int, np.integer)) else res

    def randint(self, low, high=None, size=None, dtype=int):
        if high is None:
            low, high = 0, low
        n = int(high - low)
        if size is not None and int(np.prod(size)) != 1:
            raise UnscriptedDraw("randint with size")
        d = self._decide("randint", [1.0 / n] * n)
        return low + d if size is None else np.array([low + d]).reshape(size)

    def random(self, size=None):
        if size is not None:
            raise UnscriptedDraw("random with size")
        if self.u_values is None:
            raise UnscriptedDraw("random() without scripted u values")
        i = sum(1 for e in self.log if e[0] == "random")
        u = self.u_values[i] if i < len(self.u_values) else 0.5
        self.log.append(("random", (), u, []))
        return u

    random_sample = random

    def rand(self, *shape):
        if shape:
            raise UnscriptedDraw("rand with shape")
        return self.random()

    def __getattr__(self, name):
        if name.startswith("__"):
            raise AttributeError(name)
        raise UnscriptedDraw("unscripted RandomState method %s" % name)

    def path_probability(self):
        p = 1.0
        for kind, w, d, _ in self.log:
            if kind != "random":
                p *= w[d]
        return p

    def decisions(self):
        return [d for _, _, d, _ in self.log]


class ExploreResult:
    def __init__(self):
        self.paths = []       # (prob, outcome, decisions)
        self.bad = []
        self.over_budget = False
        self.draws = 0

    def distribution(self, key=lambda o: o):
        dist = {}
        for p, o, _ in self.paths:
            k = key(o)
            dist[k] = dist.get(k, 0.0) + p
        return dist

    def total(self):
        return sum(p for p, _, _ in self.paths)


def explore(run, max_paths=4096, min_branch=1e-9):
    """run(rng) -> hashable outcome.  Enumerates every decision path of the real code."""
    res = ExploreResult()
    stack = [[]]
    while stack:
        if len(res.paths) >= max_paths:
            res.over_budget = True
            break
        prefix = stack.pop()
        rng = ScriptedRandom(prefix)
        outcome = run(rng)
        res.bad.extend(rng.bad)
        res.draws += len(rng.log)
        res.paths.append((rng.path_probability(), outcome, rng.decisions()))
        decs = rng.decisions()
        for i in range(len(prefix), len(rng.log)):
            kind, w, d, alts = rng.log[i]
            for j in alts:
                if j != d and w[j] > min_branch:
                    stack.append(decs[:i] + [j])
    return res
