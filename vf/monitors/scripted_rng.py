"""Scripted seed object + decision-tree explorer.

Cirq's simulators draw every random number from the object passed as `seed=`
(`cirq.value.parse_random_state` returns a non-int, non-None object unchanged).
`ScriptedRandom` records the probability vector of every draw and dictates its
outcome; `explore` re-executes the real entry point once per branch, so "all
random draws" is an exact enumeration with exact probabilities."""
from __future__ import annotations

import numpy as np

EPS = 1e-12
MIN_KRAUS_WEIGHT = 1e-7  # Kraus branches lighter than this are never forced (complex64 noise floor)


class UnscriptedDraw(Exception):
    pass


class BadDistribution(Exception):
    pass


class ScriptedRandom:
    """Implements the RandomState surface Cirq uses (choice / random / randint)."""

    def __init__(self, prefix=(), bulk_rng=None, default_last=False, default_first=False, default_mix=False):
        self.prefix = list(prefix)
        # default_mix: beyond the prefix a fixed pseudo-random (reproducible) alternative, for loops whose exit outcome
        # differs from pass to pass, so that no constant default can guarantee termination
        self.default_mix = default_mix
        self._mix = 0x2545F491
        # beyond the prefix: the most likely outcome, or (for loops that must terminate) always the last / first one
        self.default_last = default_last
        self.default_first = default_first
        self.log = []        # (kind, weights tuple | n, decision, nonzero alternatives)
        self.bad = []        # malformed distributions requested
        self.bulk_rng = bulk_rng
        self.bulk = []       # arrays handed out for size>1 requests

    # -- helpers
    def _decide(self, kind, weights):
        i = len(self.log)
        alts = [j for j, w in enumerate(weights) if w > EPS]
        if not alts:
            raise BadDistribution("all-zero distribution %r" % (weights,))
        if i < len(self.prefix):
            d = self.prefix[i]
            if d >= len(weights):
                raise BadDistribution("scripted decision %d out of range for %r (non-deterministic replay)" % (d, weights))
        else:
            # beyond the prefix follow the most likely outcome (never a numerically-zero one)
            if self.default_mix:
                self._mix = (self._mix * 1103515245 + 12345) & 0x7FFFFFFF
                d = alts[(self._mix >> 16) % len(alts)]
            else:
                d = alts[-1] if self.default_last else (alts[0] if self.default_first else max(alts, key=lambda j: weights[j]))
        self.log.append((kind, tuple(float(w) for w in weights), d, alts))
        return d

    # -- numpy RandomState surface
    def choice(self, a, size=None, replace=True, p=None):
        n = a if isinstance(a, (int, np.integer)) else len(a)
        vals = None if isinstance(a, (int, np.integer)) else list(a)
        if p is None:
            w = np.full(n, 1.0 / n)
        else:
            w = np.asarray(p, dtype=float)
            if w.shape != (n,) or np.any(~np.isfinite(w)) or np.any(w < -1e-9) or abs(w.sum() - 1) > 1e-6:
                self.bad.append(("choice", [float(x) for x in np.ravel(w)][:16]))
                w = np.clip(np.nan_to_num(w), 0, None)
                if w.sum() <= 0:
                    raise BadDistribution("unusable distribution")
                w = w / w.sum()
        if size is None:
            d = self._decide("choice", w)
            return d if vals is None else vals[d]
        cnt = int(np.prod(size))
        if cnt == 1:
            d = self._decide("choice", w)
            out = np.array([d if vals is None else vals[d]])
            return out.reshape(size) if not isinstance(size, (int, np.integer)) else out
        if cnt == 0:
            return np.zeros(size, dtype=int)
        # bulk request
        if self.bulk_rng is None:
            if cnt <= 4:  # small batches: explore as independent sequential decisions
                ds = [self._decide("choice", w) for _ in range(cnt)]
                res = np.array(ds if vals is None else [vals[k] for k in ds])
                return res.reshape(size) if not isinstance(size, (int, np.integer)) else res
            raise UnscriptedDraw("bulk choice(size=%r) without bulk_rng" % (size,))
        # hand out a scripted array over the support and remember it (also in the log, to keep positions aligned)
        alts = [j for j, x in enumerate(w) if x > 1e-9]
        arr = np.array([alts[int(k)] for k in self.bulk_rng.integers(len(alts), size=cnt)])
        self.bulk.append((tuple(float(x) for x in w), arr.copy()))
        self.log.append(("bulk", tuple(float(x) for x in w), None, []))
        res = arr if vals is None else np.array([vals[k] for k in arr])
        return res.reshape(size) if not isinstance(size, (int, np.integer)) else res

    def randint(self, low, high=None, size=None, dtype=int):
        if high is None:
            low, high = 0, low
        n = int(high - low)
        if size is not None and int(np.prod(size)) != 1:
            raise UnscriptedDraw("randint with size")
        d = self._decide("randint", [1.0 / n] * n)
        return low + d if size is None else np.array([low + d]).reshape(size)

    def random(self, size=None):
        """A uniform draw.  Cirq's trajectory code consumes it as `p -= weight; if p < 0: break`, so the
        returned object observes the weights subtracted from it and answers the comparisons according to
        the scripted decision ("first index >= m with non-zero weight").  Any other use raises
        UnscriptedDraw (-> inconclusive, never a false alarm)."""
        if size is not None:
            raise UnscriptedDraw("random with size")
        i = len(self.log)
        m = self.prefix[i] if i < len(self.prefix) else 0
        entry = ["random", [], None, m]
        self.log.append(entry)
        return ScriptedUniform(entry)

    random_sample = random

    def rand(self, *shape):
        if shape:
            raise UnscriptedDraw("rand with shape")
        return self.random()

    def __getattr__(self, name):
        if name.startswith("__"):
            raise AttributeError(name)
        raise UnscriptedDraw("unscripted RandomState method %s" % name)

    def path_probability(self):
        p = 1.0
        for kind, w, d, _ in self.log:
            if kind == "bulk":
                continue
            if kind != "random":
                p *= w[d]
            elif d is not None:
                p *= w[d]
            else:
                p *= max(0.0, 1.0 - sum(w))  # no comparison answered True: the code's own fallback branch
        return p

    def decisions(self):
        """prefix that replays this path: choice/randint -> index; random -> the threshold m that was used"""
        return [(e[3] if e[0] == "random" else e[2]) for e in self.log]

    def siblings(self, i, min_branch):
        kind, w, d, extra = self.log[i]
        if kind == "bulk":
            return []
        if kind == "random":
            return [d + 1] if d is not None else []
        return [j for j in extra if j != d and w[j] > min_branch]


class ScriptedUniform:
    """Stand-in for a float drawn from U[0,1): records `-= weight`, answers `< 0` / `>= 0`."""

    def __init__(self, entry):
        self._e = entry
        self._last = False

    def __sub__(self, w):
        self._e[1].append(float(w))
        return self

    __isub__ = __sub__

    def __lt__(self, other):
        if other != 0:
            raise UnscriptedDraw("uniform compared with %r" % (other,))
        k = len(self._e[1]) - 1
        if k < 0:
            raise UnscriptedDraw("uniform compared before any weight was subtracted")
        if self._e[2] is None and k >= self._e[3] and self._e[1][k] > MIN_KRAUS_WEIGHT:
            self._e[2] = k
            self._last = True
        else:
            self._last = False
        return self._last

    def __ge__(self, other):
        if other != 0:
            raise UnscriptedDraw("uniform compared with %r" % (other,))
        return self._e[2] is None

    def __float__(self):
        raise UnscriptedDraw("uniform converted to float")

    def __getattr__(self, name):
        raise UnscriptedDraw("uniform used via %s" % name)


class ExploreResult:
    def __init__(self):
        self.paths = []       # (prob, outcome, decisions)
        self.bad = []
        self.over_budget = False
        self.draws = 0
        self.dead = 0
        self.cut_mass = 0.0

    def distribution(self, key=lambda o: o):
        dist = {}
        for p, o, _ in self.paths:
            k = key(o)
            dist[k] = dist.get(k, 0.0) + p
        return dist

    def total(self):
        return sum(p for p, _, _ in self.paths)


def explore(run, max_paths=4096, min_branch=1e-9, min_path=0.0, default_last=False, default_first=False, default_mix=False):
    """run(rng) -> hashable outcome.  Enumerates every decision path of the real code.

    min_branch: alternatives of a single draw lighter than this are not forced;
    min_path: alternatives whose cumulative path probability falls below this are not forced (needed for loops)."""
    res = ExploreResult()
    stack = [[]]
    while stack:
        if len(res.paths) >= max_paths:
            res.over_budget = True
            break
        prefix = stack.pop()
        rng = ScriptedRandom(prefix, default_last=default_last, default_first=default_first, default_mix=default_mix)
        try:
            outcome = run(rng)
        except UnscriptedDraw:
            raise
        except Exception:
            # A forced branch of (numerically) zero probability leaves a garbage state behind; whatever the code
            # does with it carries no probability mass.  Anything that fails on a path of real weight is re-raised.
            if rng.path_probability() >= 1e-5:
                raise
            res.dead += 1
            outcome = ("dead-path",)
        res.bad.extend(rng.bad if rng.path_probability() >= 1e-5 else [])
        res.draws += len(rng.log)
        res.paths.append((rng.path_probability(), outcome, rng.decisions()))
        decs = rng.decisions()
        first = len(prefix)
        if prefix and len(rng.log) >= len(prefix) and rng.log[len(prefix) - 1][0] == "random":
            first = len(prefix) - 1  # a uniform draw reveals its alternatives one at a time
        cum = 1.0
        cums = []
        for e in rng.log:
            cums.append(cum)
            if e[0] == "bulk":
                continue
            if e[0] == "random":
                cum *= e[1][e[2]] if e[2] is not None else max(0.0, 1.0 - sum(e[1]))
            else:
                cum *= e[1][e[2]]
        for i in range(first, len(rng.log)):
            if rng.log[i][0] not in ("bulk", "random"):
                # alternatives lighter than min_branch are left unexplored: their mass is accounted for, not lost
                kind_, w_, d_, extra_ = rng.log[i]
                res.cut_mass += sum(cums[i] * w_[j] for j in extra_ if j != d_ and 0 < w_[j] <= min_branch)
            for j in rng.siblings(i, min_branch):
                if min_path and rng.log[i][0] != "random" and cums[i] * rng.log[i][1][j] < min_path:
                    res.cut_mass += cums[i] * rng.log[i][1][j]
                    continue
                stack.append(decs[:i] + [j])
    return res
