"""Output-side observation of circuits *produced by Cirq* (transformer outputs).

Unitary circuits are lowered operation by operation through the public
per-operation protocol `cirq.unitary(op)` (policed by C03/C04) and contracted
with `vf.refmodel.linalg.embed` - never `Circuit.unitary`, `cirq.testing` or
`cirq.linalg`.  Circuits with measurements / classical control / channels are
observed through the real simulators with the scripted seed object
(`vf.monitors.scripted_rng.explore`, simulators policed by C02/C09): exact
record distribution and exact outcome-averaged final state."""
from __future__ import annotations

import numpy as np

from vf.monitors import scripted_rng as SR
from vf.refmodel import linalg as L


class LowerError(Exception):
    pass


def lower_unitary(circuit, qubits):
    """Ordered product of cirq.unitary(op) over circuit.all_operations(), big-endian over `qubits`."""
    import cirq

    pos = {q: i for i, q in enumerate(qubits)}
    dims = tuple(q.dimension for q in qubits)
    D = L.dim_of(dims)
    t = np.eye(D, dtype=complex).reshape(list(dims) + [D])
    for op in circuit.all_operations():
        u = cirq.unitary(op, None)
        if u is None:
            raise LowerError("operation without a unitary: %r" % (op,))
        try:
            wires = [pos[q] for q in op.qubits]
        except KeyError:
            raise LowerError("operation on a qubit outside the input's qubit set: %r" % (op,))
        if not wires:
            t = t * complex(np.asarray(u).reshape(()))
        else:
            t = L.apply_on_axes(t, u, wires, [dims[w] for w in wires])
    return t.reshape(D, D)


def lower_unitary_embed(circuit, qubits):
    """Same product, written literally with linalg.embed (used as a cross-check of the fast contraction)."""
    import cirq

    pos = {q: i for i, q in enumerate(qubits)}
    dims = tuple(q.dimension for q in qubits)
    U = np.eye(L.dim_of(dims), dtype=complex)
    for op in circuit.all_operations():
        u = cirq.unitary(op, None)
        if u is None:
            raise LowerError("operation without a unitary: %r" % (op,))
        if any(q not in pos for q in op.qubits):
            raise LowerError("operation on a qubit outside the input's qubit set: %r" % (op,))
        U = L.embed(u, [pos[q] for q in op.qubits], dims) @ U
    return U


def records_key(result):
    return tuple((k, tuple(tuple(int(x) for x in inst) for inst in result.records[k][0])) for k in sorted(result.records))


def explore_records(circuit, max_paths=1500, min_branch=1e-7):
    """Exact joint distribution of measurement records of `circuit` (state-vector simulator, complex128)."""
    import cirq

    def run(rng_obj):
        return records_key(cirq.Simulator(dtype=np.complex128, seed=rng_obj).run(circuit, repetitions=1))

    return SR.explore(run, max_paths=max_paths, min_branch=min_branch)


def explore_average_state(circuit, qubits, psi0=None, max_paths=1500, min_branch=1e-7, dm=False):
    """sum over decision paths of p * |psi><psi| (or p * final_density_matrix) on `qubits`; returns (rho, result)."""
    import cirq

    D = L.dim_of([q.dimension for q in qubits])

    def run(rng_obj):
        kw = {} if psi0 is None else {"initial_state": np.array(psi0, dtype=np.complex128)}
        if dm:
            res = cirq.DensityMatrixSimulator(dtype=np.complex128, seed=rng_obj).simulate(circuit, qubit_order=qubits, **kw)
            return np.array(res.final_density_matrix, dtype=complex).tobytes()
        res = cirq.Simulator(dtype=np.complex128, seed=rng_obj).simulate(circuit, qubit_order=qubits, **kw)
        v = np.array(res.final_state_vector, dtype=complex)
        return np.outer(v, v.conj()).tobytes()

    ex = SR.explore(run, max_paths=max_paths, min_branch=min_branch)
    rho = np.zeros((D, D), dtype=complex)
    for p, o, _ in ex.paths:
        rho = rho + p * np.frombuffer(o, dtype=complex).reshape(D, D)
    return rho, ex


def all_ops_deep(circuit):
    """every operation, recursing into CircuitOperation bodies (the CircuitOperation itself is yielded too)."""
    import cirq

    for op in circuit.all_operations():
        yield op
        u = op.untagged
        if isinstance(u, cirq.CircuitOperation):
            yield from all_ops_deep(u.circuit)


def malformed_moments(circuit):
    """C05 layer 1 on a produced circuit: every moment's operations act on pairwise disjoint qubits (recursively)."""
    import cirq

    bad = []
    if not isinstance(circuit, cirq.AbstractCircuit):
        return ["result is %s, not a circuit" % type(circuit).__name__]
    for i, m in enumerate(circuit.moments):
        if not isinstance(m, cirq.Moment):
            bad.append("moment %d is a %s" % (i, type(m).__name__))
            continue
        seen = set()
        for op in m.operations:
            qs = op.qubits
            if len(set(qs)) != len(qs) or seen & set(qs):
                bad.append("moment %d: overlapping operation %r" % (i, op))
            seen |= set(qs)
            if isinstance(op.untagged, cirq.CircuitOperation):
                bad += ["in sub-circuit: " + b for b in malformed_moments(op.untagged.circuit)]
        if seen != set(m.qubits):
            bad.append("moment %d: qubits property disagrees with its operations" % i)
    return bad


def snapshot(circuit):
    """Structural snapshot of an input circuit: per moment the operations (in order) and their reprs; tags; type."""
    return (type(circuit).__name__, tuple(getattr(circuit, "tags", ())),
            tuple(tuple(m.operations) for m in circuit.moments),
            tuple(tuple(repr(op) for op in m.operations) for m in circuit.moments))
