"""Model Quantum Engine on the far side of StreamManager's gRPC client interface (C20 b).

`ModelServer` offers what StreamManager needs from a QuantumEngineServiceAsyncClient: async
`quantum_run_stream(requests, **kw)` returning an async iterator of QuantumRunStreamResponse, and async
`cancel_quantum_job(request)`.  It *is* the scheduler of the run:

* a reader per stream eagerly drains its request iterator until the None sentinel (the behaviour StreamManager is
  written against: the old iterator keeps draining after a break) and files every request in the inbox; a request
  read by the reader of a dead stream is processed by the ledger but its reply is lost;
* the brain (one asyncio task on the AsyncioExecutor loop) waits behind a barrier until the driver thread has made
  its submits and the scripted number of requests is filed, then handles one request per step with the scripted
  fault, settling (no server-visible event for QUIET loop turns) between steps;
* bounded progress is decided in loop turns (asyncio.sleep(0)), never by wall clock: after a terminal response on a
  live stream the submit future must be done within K turns ("lost-response"); after a non-terminal outcome the
  prescribed retry request must arrive within K turns ("missing-request");
* driver-thread actions (future.cancel(), stop(), further submits) happen only at pause points: the brain parks on
  an asyncio.Event, the driver acts and resumes it with loop.call_soon_threadsafe.

All decisions about replies come from vf.refmodel.engine_model (pure Python); this module only moves messages.
"""
from __future__ import annotations

import asyncio
import threading

from vf.refmodel import engine_model as EM

QUIET = 4
K_TURNS = 50

# faults (per handled request)
NORMAL, BREAK_BEFORE, BREAK_AFTER, ALREADY_EXISTS, ALREADY_EXISTS_JOB, DOES_NOT_EXIST, OUT_OF_ORDER = \
    "ok", "break-before", "break-after", "already-exists", "already-exists-job", "does-not-exist", "out-of-order"
BAD_CODE, FATAL_BREAK, JOB_FAILED = "terminal-code", "fatal-break", "job-failed"
SMALL_ALPHABET = (BREAK_BEFORE, BREAK_AFTER, ALREADY_EXISTS, ALREADY_EXISTS_JOB, DOES_NOT_EXIST, OUT_OF_ORDER)


class _Stream:
    def __init__(self, no):
        self.no, self.dead, self.reader_done = no, False, False
        self.out = asyncio.Queue()
        self.break_outcome = None


class _Req:
    __slots__ = ("mid", "kind", "job", "program", "stream", "answered", "deferred")

    def __init__(self, mid, kind, job, program, stream):
        self.mid, self.kind, self.job, self.program, self.stream = mid, kind, job, program, stream
        self.answered, self.deferred = False, False


class ModelServer:
    def __init__(self, loop, script, rng=None):
        """script: dict with
             faults:   list of fault names, applied to the 1st, 2nd, ... handled request; NORMAL afterwards
             order:    'fifo' | 'random' (which unanswered request is handled next)
             initial:  number of requests to wait for behind the barrier
             actions:  {step: [("cancel", job) | ("stop",) | ("submit", n)]} performed by the driver at pause points
             variants: optional list parallel to faults choosing the exception class / error code index"""
        from cirq_google.cloud import quantum
        import google.api_core.exceptions as gexc

        self.quantum, self.gexc = quantum, gexc
        self.loop, self.script, self.rng = loop, script, rng
        self.ledger = EM.EngineLedger()
        self.hist = []
        self.lock = threading.Lock()
        self.streams = []
        self.inbox = []          # _Req in arrival order
        self.deferred = []       # (req, response) replies held back (out-of-order)
        self.futures = {}        # job -> duet future (registered by the driver)
        self.expect = {}         # job -> ("send", kind) | terminal | ("void",)
        self.n_arrived = 0
        self._events = 0
        self.go = asyncio.Event()       # set (on the loop) when the driver has made its initial submits
        self.resume = asyncio.Event()   # set (on the loop) when the driver has performed the pause action
        self.submitted = []             # job names in submit order (appended by the driver thread)
        self._first_checked = set()
        self.pause_reached = threading.Event()
        self.pause_action = None
        self.finished = threading.Event()
        self.error = None
        self.steps = 0
        self.void_jobs = set()

    # ------------------------------------------------------------------ logging (two threads, one clock)
    def log(self, *ev):
        with self.lock:
            self.hist.append(ev)

    # ------------------------------------------------------------------ the gRPC client surface
    async def quantum_run_stream(self, requests, **kwargs):
        s = _Stream(len(self.streams))
        self.streams.append(s)
        self.log("stream-open", s.no)
        self._touch()

        async def reader():
            try:
                async for request in requests:
                    self._on_request(s, request)
            finally:
                s.reader_done = True

        async def responses():
            asyncio.create_task(reader())
            try:
                while True:
                    msg = await s.out.get()
                    if isinstance(msg, BaseException):
                        raise msg
                    yield msg
            finally:
                # the call is over (stream broken by the server, or cancelled by StreamManager.stop)
                if not s.dead:
                    s.dead = True
                    s.break_outcome = ("void", "stream-closed")

        return responses()

    async def cancel_quantum_job(self, request, **kwargs):
        name = request.name
        self.ledger.cancel(name)
        self.log("cancel-rpc", name)
        self._touch()
        await asyncio.sleep(0)

    # ------------------------------------------------------------------ inbox
    def _on_request(self, s, request):
        q = self.quantum
        kind, job, program, well = None, None, None, True
        if "create_quantum_program_and_job" in request:
            kind = EM.CPJ
            m = request.create_quantum_program_and_job
            job, program = m.quantum_job.name, m.quantum_program.name
            well = m.parent == request.parent
        elif "create_quantum_job" in request:
            kind = EM.CJ
            m = request.create_quantum_job
            job, program = m.quantum_job.name, m.parent
        elif "get_quantum_result" in request:
            kind = EM.GR
            job = request.get_quantum_result.parent
            program = job.rsplit("/jobs/", 1)[0]
        r = _Req(request.message_id, kind, job, program, s)
        self.inbox.append(r)
        self.n_arrived += 1
        self.log("request", s.no, r.mid, kind, job, program, not s.dead, bool(well and kind))
        if s.dead:
            # read by the reader of a broken stream: processed, reply lost - exactly like a break-after fault
            if kind:
                self.ledger.handle(kind, program, job)
            r.answered = True
            self._outcome(r, s.break_outcome)
        self._touch()

    def _touch(self):
        self._events += 1

    def _outcome(self, r, outcome):
        if r.job in self.void_jobs:
            return   # cancelled by the driver / stopped: its fate was already recorded as void
        self.log("outcome", r.mid, r.job, outcome)
        if outcome[0] == "void":
            self.expect[r.job] = ("done", outcome[1])
        else:
            self.expect[r.job] = EM.next_request(r.kind, outcome)

    # ------------------------------------------------------------------ brain
    async def run(self):
        try:
            await self._brain()
        except BaseException as e:  # noqa
            import traceback
            self.error = "".join(traceback.format_exception(type(e), e, e.__traceback__))[-2000:]
        finally:
            self.finished.set()
            self.pause_action = ("done",)
            self.pause_reached.set()

    async def _turns(self, n):
        for _ in range(n):
            await asyncio.sleep(0)

    async def settle(self):
        quiet, seen, total = 0, self._events, 0
        while quiet < QUIET and total < 4 * K_TURNS:
            await asyncio.sleep(0)
            total += 1
            now = self._events
            if now != seen:
                seen, quiet = now, 0
            else:
                quiet += 1

    def _unanswered(self):
        return [r for r in self.inbox if not r.answered and not r.deferred and not r.stream.dead]

    async def _await_expectations(self):
        """Bounded progress: every expectation created so far is met within K loop turns."""
        for _ in range(K_TURNS):
            if self._expectations_met():
                return True
            await asyncio.sleep(0)
        for job, e in list(self.expect.items()):
            if e[0] == "send" and not any(r.job == job and not r.answered for r in self.inbox):
                self.log("missing-request", job, e[1])
                self.expect[job] = ("void",)
            elif e[0] in ("return", "raise", "done") and not self._future_done(job):
                self.log("lost-response", job, "%s %s" % (e[0], e[1]))
                self.expect[job] = ("void",)
        return False

    def _future_done(self, job):
        f = self.futures.get(job)
        return f is not None and f.done()

    def _expectations_met(self):
        for job, e in self.expect.items():
            if e[0] == "send":
                if not any(r.job == job and not r.answered for r in self.inbox):
                    return False
            elif e[0] in ("return", "raise", "done"):
                if not self._future_done(job):
                    return False
        return True

    async def _pause(self, action):
        if action[0] == "idle-break":   # performed by the server itself: break the live stream while nothing is asked
            live = [s for s in self.streams if not s.dead]
            if live:
                self._break(live[-1], True, action[1] if len(action) > 1 else 0)
            await self.settle()
            return
        self.pause_action = action
        self.resume.clear()
        self.pause_reached.set()
        await self.resume.wait()
        await self.settle()
        await self._check_first_requests()

    async def _check_first_requests(self):
        todo = [j for j in list(self.submitted) if j not in self._first_checked]
        if not todo:
            return
        for _ in range(K_TURNS):
            if all(any(r.job == j for r in self.inbox) for j in todo):
                break
            await asyncio.sleep(0)
        for j in todo:
            self._first_checked.add(j)
            if not any(r.job == j for r in self.inbox):
                self.log("missing-request", j, EM.CPJ)
        await self.settle()

    async def _brain(self):
        sc = self.script
        await self.go.wait()
        # barrier: one request per initial submit is on file before anything is answered (bounded in loop turns:
        # every submit was handed to the loop before `go`, so its first request is at most a few turns away)
        await self._check_first_requests()
        faults, actions = list(sc.get("faults", [])), dict(sc.get("actions", {}))
        step = 0
        while step < sc.get("max_steps", 120):
            for act in actions.pop(step, []):
                await self._pause(act)
            await self._await_expectations()
            pend = self._unanswered()
            if not pend and not self.deferred:
                if actions:   # remaining driver actions happen at the end (e.g. stop, then a fresh submit)
                    nxt = min(actions)
                    for act in actions.pop(nxt):
                        await self._pause(act)
                    continue
                break
            fault = faults[step] if step < len(faults) else NORMAL
            variant = sc.get("variants", [])[step] if step < len(sc.get("variants", [])) else step
            await self._step(pend, fault, variant)
            step += 1
            self.steps = step
            await self.settle()
        else:
            self.log("step-limit")
        await self._await_expectations()
        await self.settle()

    def _pick(self, pend):
        if self.script.get("order") == "random" and self.rng is not None and len(pend) > 1:
            return pend[int(self.rng.integers(len(pend)))]
        return pend[0]

    async def _step(self, pend, fault, variant):
        if not pend:
            self._flush_deferred()
            return
        r = self._pick(pend)
        L = self.ledger
        if fault == BREAK_BEFORE:
            self._break(r.stream, True, variant)
            return
        if fault == FATAL_BREAK:
            self._break(r.stream, False, variant)
            return
        if fault == ALREADY_EXISTS:
            if r.kind == EM.CPJ:
                L.external_create_program(r.program)
            elif r.kind == EM.CJ:
                L.external_create_job(r.program, r.job)
        elif fault == ALREADY_EXISTS_JOB:
            if r.kind in (EM.CPJ, EM.CJ):
                L.external_create_job(r.program, r.job)
        elif fault == DOES_NOT_EXIST:
            if r.kind == EM.CJ:
                L.external_delete_program(r.program)
            elif r.kind == EM.GR:
                L.external_delete_job(r.job)
        if fault == BAD_CODE:
            codes = EM.terminal_codes(r.kind)
            code = codes[variant % len(codes)]
            self._reply(r, ("error", code, "model server says %s to %s" % (code, r.mid)))
            return
        if fault == JOB_FAILED:
            self._reply(r, ("job",))
            return
        out = L.handle(r.kind, r.program, r.job)
        if out[0] == "error":
            out = ("error", out[1], "%s for message %s" % (out[1], r.mid))
        else:
            out = ("result", L.run_count.get(r.job))   # how often the job had run when the server produced its result
        if fault == BREAK_AFTER:
            self._break(r.stream, True, variant)
            return
        if fault == OUT_OF_ORDER and len(pend) > 1:
            r.deferred = True   # processed now, answered after the next request (replies leave out of order)
            self.deferred.append((r, out))
            return
        self._reply(r, out)
        self._flush_deferred()

    def _flush_deferred(self):
        d, self.deferred = self.deferred, []
        for r, out in d:
            r.deferred = False
            if r.stream.dead or r.answered:
                r.answered = True
                continue
            self._reply(r, out)

    def _reply(self, r, out):
        q = self.quantum
        r.answered = True
        if out[0] == "result":
            msg = q.QuantumRunStreamResponse(message_id=r.mid, result=q.QuantumResult(parent=r.job))
            oc = ("result", out[1])
        elif out[0] == "job":
            msg = q.QuantumRunStreamResponse(message_id=r.mid, job=q.QuantumJob(name=r.job))
            oc = ("job",)
        else:
            code = getattr(q.StreamError.Code, out[1])
            msg = q.QuantumRunStreamResponse(message_id=r.mid, error=q.StreamError(code=code, message=out[2]))
            oc = ("error", out[1], out[2])
        if r.job in self.void_jobs:
            self.log("late-reply", r.mid, r.job)
        else:
            self._outcome(r, oc)
        r.stream.out.put_nowait(msg)

    def _break(self, s, retryable, variant):
        names = EM.RETRYABLE_EXCEPTIONS if retryable else EM.FATAL_EXCEPTIONS
        name = names[variant % len(names)]
        exc = getattr(self.gexc, name)("model server breaks stream %d" % s.no)
        s.dead = True
        s.break_outcome = ("break", retryable, name)
        self.log("break", s.no, retryable, name)
        for r in self.inbox:
            if r.stream is s and not r.answered:
                r.answered, r.deferred = True, False
                self._outcome(r, s.break_outcome)
        self.deferred = [d for d in self.deferred if d[0].stream is not s]
        s.out.put_nowait(exc)

    # ------------------------------------------------------------------ driver-thread helpers
    def void(self, job, why):
        """The driver cancelled this job (or stopped the manager): its outstanding request has no client-visible
        outcome any more."""
        self.void_jobs.add(job)
        self.expect[job] = ("done", why)   # the future must still end (cancelled) within the bounded number of turns
        for r in self.inbox:
            if r.job == job and not r.answered:
                self.log("outcome", r.mid, r.job, ("void", why))

    def start(self, executor):
        return executor.submit(self.run)
