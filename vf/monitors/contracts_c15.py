"""C15 postconditions, evaluated outside Cirq.

Each `post_*` function takes the arguments and the returned value of one
analytical-decomposition routine and returns a list of verdicts
`(monitor, mechanism, ok, message)`.  The reference side is numpy only
(vf.refmodel.linalg / weyl / gates); operations returned by Cirq are lowered one
at a time with `cirq.unitary(op)` (per-operation protocol, policed by C03/C04)
and contracted with vf.refmodel.linalg - never Circuit.unitary, cirq.linalg or
cirq.testing.

`attach(sink)` additionally installs the same postconditions as icontract
`ensure` wrappers on the public entry points so that any other driver's
workload evaluates them too (conditions record into `sink` and return True, so
an observed violation never changes the behaviour of the code under test)."""
from __future__ import annotations

import math

import numpy as np

from vf.refmodel import gates as G
from vf.refmodel import linalg as L
from vf.refmodel import weyl as W

PI4 = math.pi / 4
TOL = 1e-6          # default reconstruction tolerance (DESIGN 4.1) where no atol is documented
CHAMBER_TOL = 1e-8  # floating slack on the documented Weyl-chamber inequalities
# kak_decomposition canonicalises with a fixed window of 1e-9 around x = pi/4 ((x, y, -z) -> (pi/2 - x, y, z)), so Cirq's own
# coordinates may differ from the exact canonical ones by up to 2e-9 in x: count lower bounds get this much extra grey band
CANON_SLACK = 2.5e-9


def recon_tol(atol):
    """Reconstruction tolerance for a routine that documents `atol` as "a limit on the absolute error
    introduced by the construction".  Every thresholded angle contributes up to pi*atol to a matrix entry,
    the CZ / sqrt-iSWAP / MS pipelines threshold 20-30 angles, and the sqrt-iSWAP formulas lose a square
    root next to the iSWAP vertex (1.7e-6 observed at atol=1e-8 on the unchanged tree).  So the violation
    threshold is max(100*atol, 1e-5); the 10x / 100x atol bands of DESIGN 4.1 are reported as events."""
    return max(100.0 * atol, 1e-5)


class Verdicts(list):
    inexact = False

    def add(self, monitor, mech, ok, msg=""):
        self.append((monitor, mech, bool(ok), msg() if (callable(msg) and not ok) else ("" if callable(msg) else msg)))
        return bool(ok)


# --------------------------------------------------------------------------- lowering of Cirq-produced operations
def flat_ops(tree):
    import cirq

    return list(cirq.flatten_to_ops(tree))


def lower(ops, qubits):
    """Matrix (big-endian over `qubits`) of a list of Cirq operations, op-by-op via cirq.unitary."""
    import cirq

    n = len(qubits)
    dims = [2] * n
    D = 2 ** n
    index = {q: i for i, q in enumerate(qubits)}
    t = np.eye(D, dtype=complex).reshape(dims + [D])
    for op in ops:
        m = cirq.unitary(op)
        t = L.apply_on_axes(t, m, [index[q] for q in op.qubits], [2] * len(op.qubits))
    return t.reshape(D, D)


def two_qubit_ops(ops):
    return [op for op in ops if len(op.qubits) == 2]


def arities_ok(ops, allowed=(0, 1, 2)):
    return all(len(op.qubits) in allowed for op in ops)


def _is_unitary(m, tol=TOL):
    return L.is_unitary(np.asarray(m, dtype=complex), tol)


def _det(m):
    return complex(np.linalg.det(np.asarray(m, dtype=complex)))


# --------------------------------------------------------------------------- linalg/decompositions.py
def post_kak_decomposition(u, k, tol=TOL, x_tol=1e-9, who="kak_decomposition", chamber_tol=CHAMBER_TOL):
    v = Verdicts()
    x, y, z = (float(t) for t in k.interaction_coefficients)
    b0, b1 = k.single_qubit_operations_before
    a0, a1 = k.single_qubit_operations_after
    g = complex(k.global_phase)
    # NB: the class stores (b0, b1), (a0, a1) with U = g (a1 (x) a0) exp(..) (b1 (x) b0) per the class docstring;
    # kak_decomposition's own kron order is kron(before[0], before[1]) (see KakDecomposition._unitary_).
    rebuilt = W.kak_product(g, a0, a1, (x, y, z), b0, b1)
    v.add(who + ":factors-unitary", "C15:%s:factor-not-unitary" % who,
          all(_is_unitary(m, tol) for m in (b0, b1, a0, a1)) and abs(abs(g) - 1) <= tol, "a KAK factor is not unitary")
    v.add(who + ":rebuild", "C15:%s:rebuild" % who, L.allclose(rebuilt, u, tol),
          lambda: "max |g (a (x) a) exp(i(xXX+yYY+zZZ)) (b (x) b) - U| = %.3g" % L.maxdiff(rebuilt, u))
    v.add(who + ":weyl-chamber", "C15:%s:outside-weyl-chamber" % who, W.in_weyl_chamber(x, y, z, chamber_tol),
          "interaction coefficients (%.12g, %.12g, %.12g) violate 0 <= |z| <= y <= x <= pi/4" % (x, y, z))
    v.add(who + ":weyl-z-sign", "C15:%s:z-negative-at-x=pi/4" % who, W.chamber_z_sign_ok(x, z, 0.5 * x_tol, 1e-12),
          "x = pi/4 (within atol) but z = %.6g < 0" % z)
    return v


def post_kak_vector(u, vec, atol=1e-8):
    """One unitary, one vector: canonical chamber + same local invariant as the input."""
    v = Verdicts()
    vec = np.asarray(vec)
    ok_shape = vec.shape == (3,) and np.all(np.isfinite(vec)) and not np.iscomplexobj(vec)
    v.add("kak_vector:shape", "C15:kak_vector:shape", ok_shape, "shape %r" % (vec.shape,))
    if not ok_shape:
        return v
    x, y, z = (float(t) for t in vec)
    v.add("kak_vector:weyl-chamber", "C15:kak_vector:outside-weyl-chamber", W.in_weyl_chamber(x, y, z, CHAMBER_TOL),
          "(%.12g, %.12g, %.12g) violates 0 <= |z| <= y <= x <= pi/4" % (x, y, z))
    v.add("kak_vector:weyl-z-sign", "C15:kak_vector:z-negative-at-x=pi/4", W.chamber_z_sign_ok(x, z, 0.5 * atol, 1e-12),
          "x = pi/4 (within atol) but z = %.6g < 0" % z)
    d = W.coordinates_match(u, (x, y, z))
    # kak_vector decides "x == pi/4" with np.isclose(rtol=1e-5): for x within 7.9e-6 of pi/4 it returns (x, y, |z|),
    # which is off by up to 1.6e-5; hold it to 10 x (atol + rtol) like the other rtol/atol-parameterised helpers
    v.add("kak_vector:local-invariant", "C15:kak_vector:wrong-equivalence-class", d <= 10 * (atol + 1e-5),
          "spectrum of Ub^T Ub differs from that of exp(i(xXX+yYY+zZZ)) by %.3g" % d)
    v.inexact = d > TOL
    return v


def same_kak_vector(v1, v2, tol=TOL, x_band=1e-4):
    """Equality of two canonical vectors; the sign of z is not determined when x is (numerically) pi/4."""
    v1, v2 = np.asarray(v1, dtype=float), np.asarray(v2, dtype=float)
    if np.abs(v1 - v2).max() <= tol:
        return True
    if min(v1[0], v2[0]) > PI4 - x_band:
        return bool(np.abs(np.abs(v1) - np.abs(v2)).max() <= tol)
    return False


def post_kak_canonicalize_vector(x, y, z, atol, k, tol=TOL):
    """x within atol below pi/4 with z < 0 is mapped to pi/2 - x, i.e. up to atol above pi/4: the chamber slack is atol."""
    target = W.interaction(x, y, z)
    v = post_kak_decomposition(target, k, tol=tol, x_tol=atol, who="kak_canonicalize_vector", chamber_tol=max(CHAMBER_TOL, 1.01 * atol))
    return v


def post_so4_to_magic_su2s(mat, a, b, tol=TOL):
    v = Verdicts()
    rebuilt = W.MAGIC_H @ np.kron(a, b) @ W.MAGIC
    v.add("so4_to_magic_su2s:rebuild", "C15:so4_to_magic_su2s:rebuild", L.allclose(rebuilt, mat, tol),
          lambda: "max |Mag^H kron(A,B) Mag - mat| = %.3g" % L.maxdiff(rebuilt, mat))
    su2 = all(_is_unitary(m, tol) and abs(_det(m) - 1) <= tol for m in (a, b))
    v.add("so4_to_magic_su2s:su2", "C15:so4_to_magic_su2s:factor-not-su2", su2, "det A = %r, det B = %r" % (_det(a), _det(b)))
    return v


def post_kron_factor(matrix, g, f1, f2, tol=TOL):
    v = Verdicts()
    rebuilt = complex(g) * np.kron(f1, f2)
    v.add("kron_factor:rebuild", "C15:kron_factor_4x4_to_2x2s:rebuild", L.allclose(rebuilt, matrix, tol),
          lambda: "max |g kron(f1,f2) - M| = %.3g" % L.maxdiff(rebuilt, matrix))
    v.add("kron_factor:unit-det", "C15:kron_factor_4x4_to_2x2s:det", abs(_det(f1) - 1) <= tol and abs(_det(f2) - 1) <= tol,
          "det f1 = %r, det f2 = %r" % (_det(f1), _det(f2)))
    return v


def _offdiag(m):
    m = np.asarray(m)
    return float(np.abs(m - np.diag(np.diag(m))).max()) if m.size else 0.0


def _orthogonal(m, tol):
    m = np.asarray(m)
    return (not np.iscomplexobj(m) or float(np.abs(m.imag).max(initial=0.0)) == 0.0) and \
        L.allclose(m.real @ m.real.T, np.eye(m.shape[0]), tol)


def lin_tol(scale, rtol=1e-5, atol=1e-8):
    """Tolerance for the rtol/atol-parameterised linalg helpers: 10 x (atol + rtol*scale)."""
    return 10.0 * (atol + rtol * max(1.0, float(scale)))


def post_bidiagonalize_pair(m1, m2, left, right, tol):
    v = Verdicts()
    v.add("bidiagonalize_pair:orthogonal", "C15:bidiagonalize_real_matrix_pair:not-orthogonal",
          _orthogonal(left, tol) and _orthogonal(right, tol), "L or R is not orthogonal")
    o1, o2 = _offdiag(left @ m1 @ right), _offdiag(left @ m2 @ right)
    v.add("bidiagonalize_pair:diagonal", "C15:bidiagonalize_real_matrix_pair:not-diagonal", max(o1, o2) <= tol,
          "largest off-diagonal of L@mat1@R = %.3g, of L@mat2@R = %.3g" % (o1, o2))
    return v


def post_bidiagonalize_unitary(m, left, d, right, tol):
    v = Verdicts()
    so = _orthogonal(left, tol) and _orthogonal(right, tol) and abs(np.linalg.det(left) - 1) <= tol and \
        abs(np.linalg.det(right) - 1) <= tol
    v.add("bidiagonalize_unitary:special-orthogonal", "C15:bidiagonalize_unitary:not-special-orthogonal", so,
          "det L = %.6g det R = %.6g" % (np.linalg.det(left).real, np.linalg.det(right).real))
    prod = left @ m @ right
    v.add("bidiagonalize_unitary:diagonal", "C15:bidiagonalize_unitary:not-diag(d)", L.allclose(prod, np.diag(d), tol),
          lambda: "max |L@mat@R - diag(d)| = %.3g" % L.maxdiff(prod, np.diag(d)))
    return v


def post_diagonalize_symmetric(m, p, tol):
    v = Verdicts()
    v.add("diagonalize_symmetric:orthogonal", "C15:diagonalize_real_symmetric_matrix:not-orthogonal", _orthogonal(p, tol), "")
    o = _offdiag(p.T @ m @ p)
    v.add("diagonalize_symmetric:diagonal", "C15:diagonalize_real_symmetric_matrix:not-diagonal", o <= tol,
          "largest off-diagonal of P.T@M@P = %.3g" % o)
    return v


def post_diagonalize_symmetric_sorted(sym, diag, p, tol):
    v = Verdicts()
    v.add("diagonalize_sorted:orthogonal", "C15:diagonalize_sym_and_sorted_diag:not-orthogonal", _orthogonal(p, tol), "")
    o = _offdiag(p.T @ sym @ p)
    v.add("diagonalize_sorted:diagonal", "C15:diagonalize_sym_and_sorted_diag:not-diagonal", o <= tol,
          "largest off-diagonal of P.T@S@P = %.3g" % o)
    keep = p.T @ diag @ p
    v.add("diagonalize_sorted:diag-preserved", "C15:diagonalize_sym_and_sorted_diag:diag-permuted", L.allclose(keep, diag, tol),
          lambda: "max |P.T@D@P - D| = %.3g" % L.maxdiff(keep, diag))
    return v


def post_unitary_eig(m, vals, vecs, tol=TOL):
    v = Verdicts()
    vecs = np.asarray(vecs)
    v.add("unitary_eig:V-unitary", "C15:unitary_eig:eigenvectors-not-orthonormal", _is_unitary(vecs, tol),
          lambda: "max |V^H V - I| = %.3g" % L.maxdiff(vecs.conj().T @ vecs, np.eye(vecs.shape[0])))
    rebuilt = (vecs * np.asarray(vals)) @ vecs.conj().T
    v.add("unitary_eig:rebuild", "C15:unitary_eig:rebuild", L.allclose(rebuilt, m, tol),
          lambda: "max |V diag(vals) V^H - M| = %.3g" % L.maxdiff(rebuilt, m))
    return v


def post_map_eigenvalues(want, out, name, tol=TOL):
    v = Verdicts()
    v.add("map_eigenvalues", "C15:map_eigenvalues:" + name, L.allclose(out, want, tol),
          lambda: "max |f(M) - reference| = %.3g for f = %s" % (L.maxdiff(out, want), name))
    return v


def axis_angle_matrix(angle, axis, phase):
    x, y, z = axis
    n = x * W.X + y * W.Y + z * W.Z
    return complex(phase) * (math.cos(angle / 2) * np.eye(2) - 1j * math.sin(angle / 2) * n)


def post_axis_angle(u, aa, tol=TOL, canonical_atol=None, who="axis_angle"):
    v = Verdicts()
    ax = tuple(float(t) for t in aa.axis)
    rebuilt = axis_angle_matrix(float(aa.angle), ax, aa.global_phase)
    v.add(who + ":rebuild", "C15:%s:rebuild" % who, L.allclose(rebuilt, u, tol),
          lambda: "max |g exp(-i theta/2 n.sigma) - U| = %.3g" % L.maxdiff(rebuilt, u))
    v.add(who + ":unit-axis", "C15:%s:axis-not-unit" % who, abs(math.sqrt(sum(t * t for t in ax)) - 1) <= tol and
          abs(abs(complex(aa.global_phase)) - 1) <= tol, "axis %r phase %r" % (ax, aa.global_phase))
    if canonical_atol is not None:
        a = canonical_atol
        ok = sum(ax) >= -1e-9 and (-math.pi + a - 1e-12 < aa.angle <= math.pi + a + 1e-12)
        v.add(who + ":canonical", "C15:%s:not-canonical" % who, ok, "axis sum %.6g angle %.12g" % (sum(ax), aa.angle))
    return v


def zyz_matrix(phi0, phi1, phi2):
    return G.zpow_doc(phi2 / math.pi) @ G.ypow_doc(phi1 / math.pi) @ G.zpow_doc(phi0 / math.pi)


def post_deconstruct_angles(u, angles, tol=TOL):
    v = Verdicts()
    ok = len(angles) == 3 and all(np.isfinite(float(a)) for a in angles)
    rebuilt = zyz_matrix(*[float(a) for a in angles]) if ok else None
    v.add("deconstruct_angles:rebuild", "C15:deconstruct_single_qubit_matrix_into_angles:rebuild",
          ok and L.phase_equal(rebuilt, u, tol),
          lambda: "Z^(p2/pi) Y^(p1/pi) Z^(p0/pi) differs from U by %.3g up to phase" % (L.phase_diff(rebuilt, u) if ok else float("inf")))
    return v


_PAULI_DOC = {"X": G.xpow_doc, "Y": G.ypow_doc, "Z": G.zpow_doc}


def post_pauli_rotations(u, rots, atol):
    v = Verdicts()
    tol = max(10 * atol, 1e-7) if atol else 1e-7
    m = np.eye(2, dtype=complex)
    names = []
    for pauli, ht in rots:
        name = str(pauli)
        names.append(name)
        m = _PAULI_DOC[name](float(ht)) @ m
    v.add("pauli_rotations:rebuild", "C15:single_qubit_matrix_to_pauli_rotations:rebuild", L.phase_equal(m, u, recon1q(atol)),
          lambda: "product of %s rotations differs from U by %.3g up to phase" % (names, L.phase_diff(m, u)))
    return v


def recon1q(atol):
    return max(30.0 * atol, 1e-7)


def post_1q_gates(u, gates, atol, who, allowed_types=None, max_len=None):
    import cirq

    v = Verdicts()
    m = np.eye(2, dtype=complex)
    for g in gates:
        m = cirq.unitary(g) @ m
    v.add(who + ":rebuild", "C15:%s:rebuild" % who, L.phase_equal(m, u, recon1q(atol)),
          lambda: "product of returned gates differs from U by %.3g up to phase" % L.phase_diff(m, u))
    if allowed_types is not None:
        v.add(who + ":gate-types", "C15:%s:gate-type" % who, all(isinstance(g, allowed_types) for g in gates),
              "gates %r" % (gates,))
    if max_len is not None:
        v.add(who + ":count", "C15:%s:too-many-gates" % who, len(gates) <= max_len, "%d gates" % len(gates))
    return v


def post_phxz(u, gate, atol):
    import cirq

    v = Verdicts()
    if gate is None:
        d = L.phase_diff(np.eye(2, dtype=complex), u)
        v.add("phxz:none-means-identity", "C15:single_qubit_matrix_to_phxz:none-for-non-identity", d <= max(10 * atol, 1e-7),
              "returned None but U differs from the identity by %.3g up to phase" % d)
        return v
    v.add("phxz:type", "C15:single_qubit_matrix_to_phxz:type", isinstance(gate, cirq.PhasedXZGate), repr(gate))
    m = cirq.unitary(gate)
    v.add("phxz:rebuild", "C15:single_qubit_matrix_to_phxz:rebuild", L.phase_equal(m, u, recon1q(atol)),
          lambda: "PhasedXZ gate differs from U by %.3g up to phase" % L.phase_diff(m, u))
    # second opinion from the catalogue formula on the gate's own parameters
    ref = G.phased_xz(float(gate.x_exponent), float(gate.z_exponent), float(gate.axis_phase_exponent))
    v.add("phxz:catalogue", "C15:single_qubit_matrix_to_phxz:rebuild-catalogue", L.phase_equal(ref, u, recon1q(atol)),
          lambda: "catalogue PhasedXZ(x,z,a) differs from U by %.3g up to phase" % L.phase_diff(ref, u))
    return v


# --------------------------------------------------------------------------- two-qubit synthesis
def _recon(v, who, ops, qubits, u, atol, exact=False, tol=None):
    m = lower(ops, qubits)
    d = L.maxdiff(m, u) if exact else L.phase_diff(m, u)
    t = recon_tol(atol) if tol is None else tol
    v.add(who + ":rebuild", "C15:%s:rebuild" % who, d <= t,
          "lowered product differs from the input by %.3g %s(tolerance %.1g)" % (d, "" if exact else "up to global phase ", t))
    return d


def post_cz_operations(q0, q1, u, ops, allow_partial_czs, atol, clean, coords=None, who="two_qubit_matrix_to_cz_operations"):
    """U ~ lowered product; only CZ-family two-qubit gates; #CZ <= 3; full CZs: count is the minimal one."""
    import cirq

    v = Verdicts()
    ops = list(ops)
    d = _recon(v, who, ops, [q0, q1], u, atol)
    two = two_qubit_ops(ops)
    v.add(who + ":arity", "C15:%s:arity" % who, arities_ok(ops, (1, 2)), "an operation acts on 0 or > 2 qubits")
    fam = all(isinstance(op.gate, cirq.CZPowGate) for op in two)
    v.add(who + ":cz-family", "C15:%s:non-cz-two-qubit-gate" % who, fam, "two-qubit gates %r" % [op.gate for op in two])
    v.add(who + ":count<=3", "C15:%s:more-than-3-cz" % who, len(two) <= 3, "%d two-qubit gates" % len(two))
    if not allow_partial_czs:
        full = all(isinstance(op.gate, cirq.CZPowGate) and op.gate.exponent == 1 for op in two)
        v.add(who + ":full-cz", "C15:%s:partial-cz-without-permission" % who, full,
              "exponents %r" % [getattr(op.gate, "exponent", None) for op in two])
        if coords is not None:
            hi = W.cz_class(coords, 0.5 * atol)
            lo = W.cz_class(coords, 2.0 * atol + CANON_SLACK)
            v.add(who + ":count-minimal", "C15:%s:cz-count-not-minimal" % who, len(two) <= hi,
                  "%d CZ used, %d suffice for Weyl coordinates (%.9g, %.9g, %.9g)" % ((len(two), hi) + tuple(coords)))
            v.add(who + ":count-sufficient", "C15:%s:cz-count-too-small" % who, len(two) >= lo,
                  "%d CZ used, %d needed for Weyl coordinates (%.9g, %.9g, %.9g)" % ((len(two), lo) + tuple(coords)))
    return v, d, len(two)


def post_diagonal_and_cz(q0, q1, u, diag, ops, allow_partial_czs, atol, clean):
    import cirq

    who = "two_qubit_matrix_to_diagonal_and_cz_operations"
    v = Verdicts()
    ops = list(ops)
    diag = np.asarray(diag, dtype=complex)
    isdiag = diag.shape == (4, 4) and _offdiag(diag) <= max(10 * atol, 1e-7) and _is_unitary(diag, TOL)
    v.add(who + ":D-diagonal-unitary", "C15:%s:D-not-diagonal-unitary" % who, isdiag, "D = %r" % (diag,))
    m = lower(ops, [q0, q1]) @ diag if diag.shape == (4, 4) else np.zeros((4, 4))
    d = L.phase_diff(m, u)
    v.add(who + ":rebuild", "C15:%s:rebuild" % who, d <= recon_tol(atol),
          "ops @ D differs from V by %.3g up to global phase" % d)
    two = two_qubit_ops(ops)
    v.add(who + ":cz-family", "C15:%s:non-cz-two-qubit-gate" % who,
          all(isinstance(op.gate, cirq.CZPowGate) for op in two) and arities_ok(ops, (1, 2)), "")
    if not allow_partial_czs:
        v.add(who + ":full-cz", "C15:%s:partial-cz-without-permission" % who,
              all(op.gate.exponent == 1 for op in two if isinstance(op.gate, cirq.CZPowGate)), "")
    return v, d, len(two)


def post_cz_isometry(q0, q1, u, ops, allow_partial_czs, atol, clean):
    import cirq

    who = "two_qubit_matrix_to_cz_isometry"
    v = Verdicts()
    ops = list(ops)
    m = lower(ops, [q0, q1])
    d = L.phase_diff(m[:, :2], np.asarray(u)[:, :2])
    v.add(who + ":rebuild", "C15:%s:rebuild" % who, d <= recon_tol(atol),
          "columns |0>(x)|psi> of the lowered product differ from those of U by %.3g up to global phase" % d)
    two = two_qubit_ops(ops)
    v.add(who + ":cz-family", "C15:%s:non-cz-two-qubit-gate" % who,
          all(isinstance(op.gate, cirq.CZPowGate) for op in two) and arities_ok(ops, (1, 2)), "")
    v.add(who + ":count<=2", "C15:%s:more-than-2-cz" % who, len(two) <= 2, "%d two-qubit gates" % len(two))
    if not allow_partial_czs:
        v.add(who + ":full-cz", "C15:%s:partial-cz-without-permission" % who,
              all(op.gate.exponent == 1 for op in two if isinstance(op.gate, cirq.CZPowGate)), "")
    return v, d, len(two)


def sqrt_iswap_region(coords, r, band):
    x, y, z = coords
    if r == 0:
        return abs(x) <= band and abs(y) <= band and abs(z) <= band
    if r == 1:
        return abs(x - PI4 / 2) <= band and abs(y - PI4 / 2) <= band and abs(z) <= band
    if r == 2:
        return x + band >= y + abs(z)
    return True


def sqrt_iswap_feasibility(coords, r, atol):
    """'yes' / 'no' / 'either' for a required count r, with the routine's weyl tolerance atol/10 as the grey band."""
    wt = atol / 10.0
    if sqrt_iswap_region(coords, r, 0.5 * wt):
        return "yes"
    if not sqrt_iswap_region(coords, r, 2.0 * wt + CANON_SLACK):
        return "no"
    return "either"


def post_sqrt_iswap(q0, q1, u, ops, required, use_inv, atol, clean, coords):
    import cirq

    who = "two_qubit_matrix_to_sqrt_iswap_operations"
    v = Verdicts()
    ops = list(ops)
    d = _recon(v, who, ops, [q0, q1], u, atol)
    two = two_qubit_ops(ops)
    want_gate = cirq.SQRT_ISWAP_INV if use_inv else cirq.SQRT_ISWAP
    v.add(who + ":gate-set", "C15:%s:wrong-two-qubit-gate" % who, all(op.gate == want_gate for op in two) and arities_ok(ops, (1, 2)),
          "two-qubit gates %r, wanted only %r" % ([op.gate for op in two], want_gate))
    if not clean:
        oneq = all(isinstance(op.gate, (cirq.XPowGate, cirq.YPowGate, cirq.ZPowGate)) for op in ops if len(op.qubits) == 1)
        v.add(who + ":1q-gate-set", "C15:%s:1q-gate-not-XYZPow" % who, oneq, "")
    v.add(who + ":count<=3", "C15:%s:more-than-3" % who, len(two) <= 3, "%d sqrt-iSWAPs" % len(two))
    if required is not None:
        v.add(who + ":count==required", "C15:%s:count-differs-from-required" % who, len(two) == required,
              "%d used, %d required" % (len(two), required))
    else:
        wt = atol / 10.0
        hi = W.sqrt_iswap_class(coords, 0.5 * wt)
        lo = W.sqrt_iswap_class(coords, 2.0 * wt + CANON_SLACK)
        v.add(who + ":count-minimal", "C15:%s:count-not-minimal" % who, len(two) <= hi,
              "%d sqrt-iSWAP used, %d suffice for Weyl coordinates (%.9g, %.9g, %.9g)" % ((len(two), hi) + tuple(coords)))
        v.add(who + ":count-sufficient", "C15:%s:count-too-small" % who, len(two) >= lo,
              "%d sqrt-iSWAP used, %d needed for Weyl coordinates (%.9g, %.9g, %.9g)" % ((len(two), lo) + tuple(coords)))
    return v, d, len(two)


def post_four_fsim(u, circuit_ops, qubits, fsim_gate, tol=TOL):
    who = "decompose_two_qubit_interaction_into_four_fsim_gates"
    v = Verdicts()
    ops = list(circuit_ops)
    m = lower(ops, list(qubits))
    d = L.phase_diff(m, u)
    v.add(who + ":rebuild", "C15:%s:rebuild" % who, d <= tol, "lowered product differs from the input by %.3g up to global phase" % d)
    two = two_qubit_ops(ops)
    v.add(who + ":exactly-4-fsim", "C15:%s:not-exactly-four-of-the-given-gate" % who,
          len(two) == 4 and all(op.gate == fsim_gate for op in two) and arities_ok(ops),
          "two-qubit gates: %r" % [op.gate for op in two])
    return v, d


def cphase_fsim_feasibility(theta, phi, exponent, atol, margin=1e-6):
    """Documented condition: |sin th| <= |sin(delta/4)| <= |sin(phi/2)| or the reverse, for some delta
    equivalent to -pi*exponent; fsim invalid when |sin^2 th - sin^2(phi/2)| < atol."""
    a, b = abs(math.sin(theta)), abs(math.sin(phi / 2))
    den = abs(a * a - b * b)
    if den < atol * 0.5:
        return "no"
    if den < atol * 2:
        return "either"
    lo, hi = min(a, b), max(a, b)
    d0 = -math.pi * (exponent % 2)
    res = "no"
    for d in (d0, d0 + 2 * math.pi, d0 - 2 * math.pi):
        s = abs(math.sin(d / 4))
        if lo + margin <= s <= hi - margin:
            return "yes"
        if lo - margin <= s <= hi + margin:
            res = "either"
    return res


def post_cphase_two_fsim(exponent, fsim_gate, ops, qubits, tol=TOL):
    who = "decompose_cphase_into_two_fsim"
    v = Verdicts()
    ops = list(ops)
    m = lower(ops, list(qubits))
    want = G.czpow_doc(exponent)
    d = L.maxdiff(m, want)
    v.add(who + ":rebuild-exact", "C15:%s:rebuild" % who, d <= tol,
          "lowered product differs from CZ**%r by %.3g (global phase included)" % (exponent, d))
    two = two_qubit_ops(ops)
    v.add(who + ":exactly-2-fsim", "C15:%s:not-exactly-two-of-the-given-gate" % who,
          len(two) == 2 and all(op.gate == fsim_gate for op in two) and arities_ok(ops),
          "two-qubit gates: %r" % [op.gate for op in two])
    return v, d


def post_ion(q0, q1, u, ops, atol, clean):
    import cirq

    who = "two_qubit_matrix_to_ion_operations"
    v = Verdicts()
    ops = list(ops)
    d = _recon(v, who, ops, [q0, q1], u, atol)
    two = two_qubit_ops(ops)
    v.add(who + ":ms-only", "C15:%s:non-ms-two-qubit-gate" % who,
          all(isinstance(op.gate, cirq.XXPowGate) for op in two) and arities_ok(ops, (1, 2)),
          "two-qubit gates %r" % [op.gate for op in two])
    v.add(who + ":count<=3", "C15:%s:more-than-3-ms" % who, len(two) <= 3, "%d MS gates" % len(two))
    return v, d


def post_sycamore(qubits, u, ops, who, tol):
    import cirq_google

    v = Verdicts()
    ops = list(ops)
    m = lower(ops, list(qubits))
    d = L.phase_diff(m, u)
    v.add(who + ":rebuild", "C15:%s:rebuild" % who, d <= tol, "lowered product differs from the target by %.3g up to global phase" % d)
    two = two_qubit_ops(ops)
    v.add(who + ":syc-only", "C15:%s:non-syc-two-qubit-gate" % who,
          all(op.gate == cirq_google.SYC for op in two) and arities_ok(ops, (0, 1, 2)), "two-qubit gates %r" % [op.gate for op in two])
    return v, d, len(two)


# --------------------------------------------------------------------------- n-qubit synthesis
def post_three_qubit(qubits, u, ops, atol):
    import cirq

    who = "three_qubit_matrix_to_operations"
    v = Verdicts()
    ops = list(ops)
    d = _recon(v, who, ops, list(qubits), u, atol)
    two = two_qubit_ops(ops)
    ok = arities_ok(ops, (1, 2)) and all(
        isinstance(op.gate, (cirq.CZPowGate, cirq.CXPowGate)) and op.gate.exponent == 1 for op in two)
    v.add(who + ":gate-set", "C15:%s:gate-set" % who, ok, "two-qubit gates other than CZ / CNOT, or wider operations")
    return v, d, len(two)


def post_shannon(qubits, u, ops, atol, tol):
    import cirq

    who = "quantum_shannon_decomposition"
    v = Verdicts()
    ops = list(ops)
    m = lower(ops, list(qubits))
    d = L.maxdiff(m, u)
    v.add(who + ":rebuild-exact", "C15:%s:rebuild" % who, d <= tol,
          "lowered product differs from the input by %.3g (global phase is documented as preserved)" % d)
    two = two_qubit_ops(ops)
    ok = arities_ok(ops, (0, 1, 2)) and all(isinstance(op.gate, (cirq.CZPowGate, cirq.CXPowGate)) for op in two)
    v.add(who + ":gate-set", "C15:%s:gate-set" % who, ok, "two-qubit gates other than CZ / CNOT families, or wider operations")
    return v, d, len(two)


def _mc_gate_set(ops):
    import cirq

    for op in ops:
        n = len(op.qubits)
        if n == 1:
            continue
        if n == 2 and op.gate == cirq.CNOT:
            continue
        if n == 3 and op.gate == cirq.CCNOT:
            continue
        return False
    return True


def post_multi_controlled(qubits_all, n_controls, ops, matrix, who, tol=TOL):
    """qubits_all = controls + [target] + free; the action must be C^m(matrix) (x) I_free exactly."""
    v = Verdicts()
    ops = list(ops)
    n = len(qubits_all)
    m = lower(ops, list(qubits_all))
    cu = L.controlled(matrix, [2] * n_controls, [(1,) * n_controls]) if n_controls else np.asarray(matrix, dtype=complex)
    want = np.kron(cu, np.eye(2 ** (n - n_controls - 1)))
    d = L.maxdiff(m, want)
    v.add(who + ":rebuild-exact", "C15:%s:rebuild" % who, d <= tol,
          "lowered product differs from the %d-controlled gate (free qubits restored) by %.3g" % (n_controls, d))
    v.add(who + ":gate-set", "C15:%s:gate-set" % who, _mc_gate_set(ops), "operation outside {1-qubit, CNOT, CCNOT}")
    return v, d


def post_state_prep(q0, q1, state, ops, entangler_ok, who, tol, schmidt_small):
    """ops|00> ~ state up to phase; <= 1 entangler of the documented kind; exactly 1 for entangled, 0 for product."""
    v = Verdicts()
    ops = list(ops)
    m = lower(ops, [q0, q1])
    got = m[:, 0]
    d = L.phase_diff(got, np.asarray(state, dtype=complex))
    v.add(who + ":prepares-state", "C15:%s:wrong-state" % who, d <= tol,
          "ops|00> differs from the target state by %.3g up to phase" % d)
    two = two_qubit_ops(ops)
    v.add(who + ":entangler", "C15:%s:entangler" % who, len(two) <= 1 and all(entangler_ok(op.gate) for op in two) and
          arities_ok(ops, (1, 2)), "two-qubit gates %r" % [op.gate for op in two])
    if schmidt_small >= 1e-2:
        v.add(who + ":count-entangled", "C15:%s:entangled-without-entangler" % who, len(two) == 1, "%d entanglers" % len(two))
    elif schmidt_small <= 1e-10:
        v.add(who + ":count-product", "C15:%s:product-with-entangler" % who, len(two) == 0, "%d entanglers" % len(two))
    return v, d, len(two)


# --------------------------------------------------------------------------- optional icontract attachment
def attach(sink):
    """Install a subset of the postconditions as icontract.ensure wrappers on the public entry points.

    sink(monitor, mech, ok, msg, witness) is called for every verdict.  Returns the number of wrapped names."""
    import icontract
    import cirq

    def emit(verdicts, **wit):
        for mon, mech, ok, msg in verdicts:
            sink("contract:" + mon, mech, ok, msg, wit)
        return True

    def _kak_post(unitary_object, result):
        if isinstance(unitary_object, np.ndarray) and unitary_object.shape == (4, 4):
            return emit(post_kak_decomposition(unitary_object, result), u=unitary_object)
        return True

    def _cz_post(q0, q1, mat, allow_partial_czs, result, atol=1e-8, clean_operations=True):
        coords = W.weyl_coordinates(mat)
        return emit(post_cz_operations(q0, q1, mat, result, allow_partial_czs, atol, clean_operations, coords)[0], u=mat)

    def _sq_post(q0, q1, mat, result, required_sqrt_iswap_count=None, use_sqrt_iswap_inv=False, atol=1e-8,
                 clean_operations=False):
        coords = W.weyl_coordinates(mat)
        return emit(post_sqrt_iswap(q0, q1, mat, result, required_sqrt_iswap_count, use_sqrt_iswap_inv, atol,
                                    clean_operations, coords)[0], u=mat)

    def _eig_post(matrix, result):
        return emit(post_unitary_eig(matrix, result[0], result[1]), m=matrix)

    def _phxz_post(mat, result, atol=0):
        return emit(post_phxz(mat, result, atol), u=mat)

    table = [
        ("kak_decomposition", _kak_post),
        ("two_qubit_matrix_to_cz_operations", _cz_post),
        ("two_qubit_matrix_to_sqrt_iswap_operations", _sq_post),
        ("unitary_eig", _eig_post),
        ("single_qubit_matrix_to_phxz", _phxz_post),
    ]
    import sys

    n = 0
    for name, cond in table:
        orig = None
        for mod in list(sys.modules.values()):
            if mod is None or not getattr(mod, "__name__", "").startswith("cirq"):
                continue
            f = mod.__dict__.get(name) if hasattr(mod, "__dict__") else None
            if f is not None and callable(f) and not getattr(f, "_vf_c15", False):
                orig = orig or f
        if orig is None:
            continue
        wrapped = icontract.ensure(cond, enabled=True)(orig)
        try:
            wrapped._vf_c15 = True
        except Exception:
            pass
        for mod in list(sys.modules.values()):
            if mod is None or not getattr(mod, "__name__", "").startswith("cirq"):
                continue
            if hasattr(mod, "__dict__") and mod.__dict__.get(name) is orig:
                setattr(mod, name, wrapped)
                n += 1
    return n
