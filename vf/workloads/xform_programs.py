"""Abstract programs for the transformer checks (C06).

Same representation as vf.workloads.programs / vf.workloads.blocks (steps
{"t": "U"|"M"|"C"|"K"|"B", ...}) plus an optional "tags" tuple per item; the
gate choice is biased towards the neighbourhoods circuit rewrites care about
(Z-family and PhasedX/PhasedXZ next to CZ / SWAP-like / ISWAP-like / FSim
gates, exact Paulis around CZ, global shifts, exponents at and near 0, +-0.5,
1 and the atol boundaries).  The Cirq circuit is built with explicit moments
through the public constructors; the reference meaning comes from the
catalogue (programs.to_ref / blocks.flatten), never from Cirq."""
from __future__ import annotations

import math

import numpy as np

from vf.refmodel import gates as G
from vf.refmodel import linalg as L
from vf.workloads import blocks as B
from vf.workloads import gatepool as GP
from vf.workloads import programs as P

IGNORE = "ignore"      # the tag listed in tags_to_ignore
OTHER = "keep"         # an ordinary tag

EXP_GRID = [0.0, 0.5, -0.5, 1.0, -1.0, 0.25, -0.25, 1.5, 2.0, 1e-9, -1e-9, 1 - 1e-9, 1 + 1e-9, 0.5 + 1e-9, -0.5 - 1e-9,
            1e-8, 2e-8, 0.5e-8, 1 - 1e-8, 1 / 3]
_READY = {}


def c_exp(rng):
    if rng.random() < 0.55:
        return float(EXP_GRID[int(rng.integers(len(EXP_GRID)))])
    return float(rng.uniform(-2, 2))


def c_shift(rng):
    if rng.random() < 0.72:
        return 0.0
    return float([0.5, -0.5, 0.25, -1.0, float(rng.uniform(-1, 1))][int(rng.integers(5))])


def _es(rng):
    return (c_exp(rng), c_shift(rng))


def _pxp(rng):
    return (c_exp(rng), c_exp(rng), c_shift(rng))


def _pxz(rng):
    r = rng.random()
    if r < 0.2:      # equivalent to PhasedXPow
        return (c_exp(rng), 0.0, c_exp(rng))
    if r < 0.35:     # equivalent to ZPow
        return (0.0, c_exp(rng), 0.0)
    return (c_exp(rng), c_exp(rng), c_exp(rng))


def _swap_es(rng):
    return (float(rng.choice([1.0, 1.0, 1.0, -1.0, 0.5, 3.0])) if rng.random() < 0.8 else c_exp(rng), c_shift(rng))


def _iswap_es(rng):
    return (float(rng.choice([1.0, -1.0, 3.0, 0.5, -0.5, 2.0, 5.0])) if rng.random() < 0.8 else c_exp(rng), c_shift(rng))


def _fsim(rng):
    th = float(rng.choice([math.pi / 2, -math.pi / 2, 3 * math.pi / 2, 0.0, math.pi / 4, math.pi])) if rng.random() < 0.7 else float(rng.uniform(-4, 4))
    ph = float(rng.choice([0.0, math.pi / 6, math.pi, -math.pi / 2])) if rng.random() < 0.5 else float(rng.uniform(-4, 4))
    return (th, ph)


def _cz_es(rng):
    return (float(rng.choice([1.0, 0.5, -0.5, -1.0, 0.25])) if rng.random() < 0.6 else c_exp(rng), c_shift(rng))


def _ang(rng):
    return (float(rng.choice([0.0, math.pi / 2, -math.pi / 2, math.pi, math.pi / 4, -math.pi / 6, 1e-9, 2 * math.pi]))
            if rng.random() < 0.5 else float(rng.uniform(-7, 7)),)


class _CtrlOpMaker:
    """gate-like builder: .on(control, *targets) -> cirq.ControlledOperation([control], sub_gate.on(*targets))"""

    def __init__(self, sub_gate, n_targets, control_values=None):
        self.sub_gate, self.n_targets, self.control_values = sub_gate, n_targets, control_values

    def on(self, *qs):
        import cirq

        assert len(qs) == self.n_targets + 1
        return cirq.ControlledOperation(qs[:1], self.sub_gate.on(*qs[1:]), control_values=self.control_values)


def ensure_specs():
    """Register exact library constants (cirq.X is a Pauli instance, XPowGate(1.0) is not) next to the shared pool."""
    if _READY:
        return
    import cirq
    import cirq_google

    by = P.pools()["by_name"]
    E = G.eigen_gate
    consts = [
        ("PauliX", (2,), cirq.X, G.X), ("PauliY", (2,), cirq.Y, G.Y), ("PauliZ", (2,), cirq.Z, G.Z),
        ("H", (2,), cirq.H, G.H), ("S", (2,), cirq.S, np.diag([1, 1j])), ("T", (2,), cirq.T, np.diag([1, np.exp(0.25j * math.pi)])),
        ("I1", (2,), cirq.I, G.I2),
        ("CZ", (2, 2), cirq.CZ, np.diag([1, 1, 1, -1]).astype(complex)), ("CNOT", (2, 2), cirq.CNOT, E("CXPow", 1)),
        ("SWAP", (2, 2), cirq.SWAP, G.SWAP), ("ISWAP", (2, 2), cirq.ISWAP, G.iswappow_doc(1)),
        ("SQRT_ISWAP", (2, 2), cirq.SQRT_ISWAP, G.iswappow_doc(0.5)), ("SQRT_ISWAP_INV", (2, 2), cirq.SQRT_ISWAP_INV, G.iswappow_doc(-0.5)),
        ("SQRT_CZ", (2, 2), cirq.CZ ** 0.5, E("CZPow", 0.5)), ("SQRT_CZ_INV", (2, 2), cirq.CZ ** -0.5, E("CZPow", -0.5)),
        ("SYC", (2, 2), cirq_google.SYC, G.syc()),
    ]
    # cirq.ControlledOperation itself (the operation class, which X.on(q).controlled_by(c) never produces): the first
    # wire is the control.  Sub-operations that are the identity only up to a phase matter: controlled, that phase is
    # a real Z-type rotation of the control, so nothing may treat the operation as negligible.
    def ctrl_es(rng):
        if rng.random() < 0.4:
            return (float(rng.choice([2.0, -2.0, 4.0])), float(rng.choice([0.5, 0.25, -0.5, 1.0 / 3])))
        return _es(rng)

    for fam, mk in (("XPow", cirq.XPowGate), ("ZPow", cirq.ZPowGate), ("YPow", cirq.YPowGate)):
        by["CtrlOp:" + fam] = GP.Spec("CtrlOp:" + fam, (2, 2), ctrl_es,
                                      lambda p, mk=mk: _CtrlOpMaker(mk(exponent=p[0], global_shift=p[1]), 1),
                                      lambda p, fam=fam: L.controlled(E(fam, p[0], p[1]), (2,), [(1,)]), tags=("const", "ctrlop"))
    by["CtrlOp:Phase"] = GP.Spec("CtrlOp:Phase", (2,), lambda rng: (float(rng.choice([0.5, 1.0, -0.5, 0.25, 1e-9, 1.0 / 3])),),
                                 lambda p: _CtrlOpMaker(cirq.GlobalPhaseGate(np.exp(1j * math.pi * p[0])), 0),
                                 lambda p: np.diag([1, np.exp(1j * math.pi * p[0])]), tags=("const", "ctrlop"))
    by["CtrlOp0:CZPow"] = GP.Spec("CtrlOp0:CZPow", (2, 2, 2), _cz_es,
                                  lambda p: _CtrlOpMaker(cirq.CZPowGate(exponent=p[0], global_shift=p[1]), 2, control_values=[0]),
                                  lambda p: L.controlled(E("CZPow", p[0], p[1]), (2,), [(0,)]), tags=("const", "ctrlop"))
    for name, shape, gate, ref in consts:
        by[name] = GP.Spec(name, shape, lambda rng: (), lambda p, gate=gate: gate, lambda p, ref=ref: np.asarray(ref, dtype=complex),
                           tags=("const",))
    _READY["ok"] = True


# (weight, spec name, parameter sampler or None for the spec's own)
POOL_1Q = [(6, "ZPow", _es), (2, "rz", _ang), (4, "XPow", _es), (3, "YPow", _es), (2, "HPow", _es), (4, "PhasedXPow", _pxp),
           (6, "PhasedXZ", _pxz), (1, "rx", _ang), (1, "ry", _ang), (2.5, "PauliX", None), (2, "PauliY", None), (2.5, "PauliZ", None),
           (1.5, "H", None), (1.5, "S", None), (0.7, "T", None), (0.7, "I1", None), (0.6, "Matrix2", None), (0.5, "CtrlOp:Phase", None)]
POOL_2Q = [(5, "CZPow", _cz_es), (4, "CZ", None), (1, "CXPow", _es), (1, "CNOT", None), (2, "SwapPow", _swap_es), (1.5, "SWAP", None),
           (3, "ISwapPow", _iswap_es), (1, "ISWAP", None), (1, "SQRT_ISWAP", None), (3, "FSim", _fsim), (1.5, "PhasedFSim", None),
           (1.5, "PhasedISwapPow", None), (2, "ZZPow", _es), (0.8, "XXPow", _es), (0.8, "YYPow", _es), (0.8, "cphase", _ang),
           (0.6, "givens", _ang), (0.6, "ms", _ang), (1.5, "SYC", None), (0.6, "TwoQubitDiagonal", None), (0.6, "Matrix2x2", None),
           (0.8, "SQRT_CZ", None), (0.5, "SQRT_CZ_INV", None), (0.3, "Identity2x2", None),
           (0.7, "CtrlOp:XPow", None), (0.7, "CtrlOp:ZPow", None), (0.4, "CtrlOp:YPow", None)]
POOL_3Q = [(1, "CCZPow", _es), (1, "CCXPow", _es), (0.5, "CSWAP", None), (0.4, "Diagonal3", None), (0.3, "QFT3", None),
           (0.5, "CtrlOp0:CZPow", None)]
POOL_0Q = [(1, "GlobalPhase", None)]


def _pick(rng, pool):
    w = np.array([x[0] for x in pool], dtype=float)
    return pool[int(rng.choice(len(pool), p=w / w.sum()))]


def gen_ustep(rng, n, arity_w=(0.02, 0.52, 0.40, 0.06), pools=None):
    ensure_specs()
    pools = pools or (POOL_0Q, POOL_1Q, POOL_2Q, POOL_3Q)
    for _ in range(40):
        k = int(rng.choice(4, p=np.array(arity_w) / sum(arity_w)))
        if k > n:
            continue
        _, name, samp = _pick(rng, pools[k])
        spec = P.spec_by_name(name)
        p = samp(rng) if samp is not None else spec.sample(rng)
        wires = tuple(int(w) for w in rng.choice(n, size=k, replace=False))
        return {"t": "U", "spec": name, "p": p, "w": wires}
    raise RuntimeError("no gate fits")


def add_tags(rng, items, p_ignore=0.14, p_other=0.08):
    for it in items:
        r = rng.random()
        if it.get("tags"):
            continue  # placed on purpose by a motif
        if r < p_ignore:
            it["tags"] = (IGNORE,)
        elif r < p_ignore + p_other:
            it["tags"] = (OTHER,)
        elif r < p_ignore + p_other + 0.02:
            it["tags"] = (OTHER, IGNORE)
    return items


def gen_unitary(rng, n, nsteps, arity_w=(0.02, 0.52, 0.40, 0.06), pools=None):
    """Unitary program with rewrite-relevant neighbourhoods: besides independent draws, short motifs are spliced in."""
    steps = []
    while len(steps) < nsteps:
        r = rng.random()
        if r < 0.22 and n >= 2:
            steps += _motif(rng, n)
        else:
            steps.append(gen_ustep(rng, n, arity_w, pools))
    return steps[:max(nsteps, 1)]


def _named(name, wires, p=()):
    return {"t": "U", "spec": name, "p": tuple(p), "w": tuple(wires)}


def _motif(rng, n):
    """Z / Pauli / PhasedX(Z) directly before and after a 2-qubit gate on the same qubits."""
    ensure_specs()
    a, b = (int(x) for x in rng.choice(n, size=2, replace=False))
    one = [("ZPow", _es), ("PauliX", None), ("PauliY", None), ("PauliZ", None), ("PhasedXPow", _pxp), ("PhasedXZ", _pxz), ("XPow", _es),
           ("YPow", _es), ("S", None)]
    two = [("CZ", None), ("CZPow", _cz_es), ("SWAP", None), ("SwapPow", _swap_es), ("ISwapPow", _iswap_es), ("FSim", _fsim), ("ISWAP", None),
           ("SYC", None), ("PhasedFSim", None), ("PhasedISwapPow", None), ("ZZPow", _es), ("SQRT_ISWAP", None), ("SQRT_CZ", None)]

    def mk(choice, wires):
        name, samp = choice
        spec = P.spec_by_name(name)
        return _named(name, wires, samp(rng) if samp else spec.sample(rng))

    out = []
    for w in (a, b):
        if rng.random() < 0.75:
            out.append(mk(one[int(rng.integers(len(one)))], (w,)))
    out.append(mk(two[int(rng.integers(len(two)))], (a, b) if rng.random() < 0.5 else (b, a)))
    for w in (a, b):
        if rng.random() < 0.5:
            out.append(mk(one[int(rng.integers(len(one)))], (w,)))
    return out


def gen_measured(rng, n, nsteps, max_digits=5, allow_conf=True, allow_ctrl=True, allow_reset=True, keys=("a", "b", "c"),
                 terminal_only=False):
    """Program with measurements (terminal / mid-circuit, repeated keys, invert masks, confusion maps), classical
    controls creating key dependencies, resets."""
    dims = (2,) * n
    steps, measured, digits = [], {}, 0
    for i in range(nsteps):
        r = rng.random()
        last = i >= nsteps - 2
        if terminal_only and not last:
            r = 1.0
        if (r < 0.24 or last) and digits < max_digits:
            key = keys[int(rng.integers(len(keys)))]
            if key in measured:
                k = len(measured[key])
            else:
                k = int(rng.integers(1, min(n, 2) + 1)) if rng.random() < 0.85 else min(n, 3)
            if k > n or digits + k > max_digits:
                continue
            wires = tuple(int(w) for w in rng.choice(n, size=k, replace=False))
            st = {"t": "M", "key": key, "w": wires}
            has_mask = rng.random() < 0.35
            if has_mask:
                ln = int(rng.integers(1, k + 1))
                st["mask"] = tuple(bool(x) for x in rng.integers(0, 2, size=ln))
            if allow_conf and rng.random() < 0.12:
                sub = tuple(sorted(int(x) for x in rng.choice(k, size=int(rng.integers(1, min(2, k) + 1)), replace=False)))
                st["conf"] = {sub: P._conf_matrix(rng, 2 ** len(sub))}
            measured[key] = (2,) * k
            digits += k
            steps.append(st)
        elif r < 0.42 and allow_ctrl and measured and not terminal_only:
            inner = gen_ustep(rng, n, arity_w=(0.0, 0.62, 0.38, 0.0))
            steps.append({"t": "C", "cond": P.gen_cond(rng, measured), "inner": inner})
        elif r < 0.46 and allow_reset and not terminal_only:
            steps.append({"t": "K", "spec": "reset_d2", "p": (), "w": (int(rng.integers(n)),)})
        elif r < 0.49 and allow_reset and not terminal_only:
            # any library channel, user-defined Kraus / mixed-unitary channels (which are not hashable) included
            k = 2 if (n >= 2 and rng.random() < 0.25) else 1
            cs = [s_ for s_ in P.pools()["c"] if s_.shape == (2,) * k and "measure" not in s_.tags]
            sp = cs[int(rng.integers(len(cs)))]
            steps.append({"t": "K", "spec": sp.name, "p": sp.sample(rng), "w": tuple(int(w) for w in rng.choice(n, size=k, replace=False))})
        elif r < 0.58 and n >= 2:
            steps += _motif(rng, n)
        else:
            steps.append(gen_ustep(rng, n, arity_w=(0.01, 0.55, 0.40, 0.04)))
    if allow_ctrl and not terminal_only and rng.random() < 0.3 and digits + 2 <= max_digits + 1:
        # indexed-condition motif: a key measured twice with different outcomes possible, then a control that names
        # an instance explicitly (index 0 / -1 / -2)
        cands = [k for k in keys if measured.get(k, (2,)) == (2,)]
        if cands:
            k = cands[int(rng.integers(len(cands)))]
            w = int(rng.integers(n))
            mid = {"t": "U", "spec": ["PauliX", "H", "XPow"][int(rng.integers(3))], "p": (), "w": (w,)}
            if mid["spec"] == "XPow":
                mid["p"] = (0.5, 0.0)
            inner = gen_ustep(rng, n, arity_w=(0.0, 0.7, 0.3, 0.0))
            idx = int(rng.choice([0, 0, -2, -1]))
            if rng.random() < 0.6:
                cond = {"t": "key", "key": k, "index": idx, "explicit_index": True}
            else:
                cond = {"t": "bitmask", "key": k, "index": idx, "bitmask": None, "target_value": int(rng.integers(2)), "equal_target": bool(rng.integers(2))}
            motif = [{"t": "M", "key": k, "w": (w,)}, mid, {"t": "M", "key": k, "w": (w,)}, {"t": "C", "cond": cond, "inner": inner}]
            pos = int(rng.integers(len(steps) + 1))
            # keep every earlier control valid: insert as one block
            steps[pos:pos] = motif
    if allow_ctrl and not terminal_only and n >= 3 and rng.random() < 0.25 and digits + 2 <= max_digits + 2:
        # key re-measured elsewhere after a control on it: measure k on e; a one-qubit gate and then an operation controlled
        # by k on a (so the control joins an existing neighbour); k measured again on a third qubit d whose own previous
        # operation is early.  Anything that orders operations by qubits and keys has to keep the second measurement
        # behind the control.
        cands = [k for k in keys if measured.get(k, (2,)) == (2,)]
        if cands:
            k = cands[int(rng.integers(len(cands)))]
            e, d, a = (int(x) for x in rng.choice(n, size=3, replace=False))
            motif = [{"t": "M", "key": k, "w": (e,)}, {"t": "U", "spec": "H", "p": (), "w": (d,)},
                     {"t": "U", "spec": ["PauliX", "XPow", "S"][int(rng.integers(3))], "p": (), "w": (a,)}]
            if motif[2]["spec"] == "XPow":
                motif[2]["p"] = (0.5, 0.0)
            inner = {"t": "U", "spec": "PauliX", "p": (), "w": (a,)}
            motif += [{"t": "C", "cond": {"t": "key", "key": k, "index": -1}, "inner": inner}, {"t": "M", "key": k, "w": (d,)}]
            pos = int(rng.integers(len(steps) + 1))
            steps[pos:pos] = motif
    if rng.random() < 0.2 and digits + 1 <= max_digits + 2:
        # diagonal gate, then a non-diagonal operation carrying the ignore tag, then the terminal measurement of that qubit:
        # passes that reason "diagonal before a measurement" must see the ignored operation as a wall, not as absent
        cands = [k for k in keys if measured.get(k, (2,)) == (2,)]
        if cands:
            k = cands[int(rng.integers(len(cands)))]
            w = int(rng.integers(n))
            tail = [{"t": "U", "spec": "H", "p": (), "w": (w,)}]
            if n >= 2 and rng.random() < 0.4:
                w2 = [x for x in range(n) if x != w][int(rng.integers(n - 1))]
                tail += [{"t": "U", "spec": "H", "p": (), "w": (w2,)}, {"t": "U", "spec": "CZ", "p": (), "w": (w, w2)}]
            else:
                tail.append({"t": "U", "spec": ["S", "T", "PauliZ"][int(rng.integers(3))], "p": (), "w": (w,)})
            tail.append({"t": "U", "spec": ["XPow", "H", "YPow"][int(rng.integers(3))], "p": (), "w": (w,), "tags": (IGNORE,)})
            if tail[-1]["spec"] != "H":
                tail[-1]["p"] = (0.5, 0.0)
            tail.append({"t": "M", "key": k, "w": (w,)})
            steps += tail
    if not any(s["t"] == "M" for s in steps):
        steps.append({"t": "M", "key": keys[0], "w": (int(rng.integers(n)),)})
    return steps


# ------------------------------------------------------------------ Cirq construction (explicit moments)
def item_to_op(it, qubits):
    import cirq

    if it["t"] == "B":
        moments = build_moments(it["body"], qubits)
        kw = {"repetitions": it["reps"]}
        if it["qmap"]:
            kw["qubit_map"] = {qubits[a]: qubits[b] for a, b in it["qmap"].items()}
        if it["kmap"]:
            kw["measurement_key_map"] = dict(it["kmap"])
        if it["ids"] is not None:
            kw["repetition_ids"] = list(it["ids"])
        if it["use_ids"] is not None:
            kw["use_repetition_ids"] = it["use_ids"]
        op = cirq.CircuitOperation(cirq.FrozenCircuit(moments), **kw)
    else:
        op = P.step_to_op(it, qubits)
    if it.get("tags"):
        op = op.with_tags(*it["tags"])
    return op


def build_moments(items, qubits, rng=None, layout="greedy", empty_p=0.0):
    """Explicit moments built by the harness: a new moment starts whenever qubits or keys conflict (or always, for
    'serial'; at random for 'random'); blocks sit alone; empty moments are sprinkled in with probability empty_p."""
    import cirq

    moments, cur, used_q, used_k = [], [], set(), set()

    def flush():
        nonlocal cur, used_q, used_k
        if cur:
            moments.append(cirq.Moment(cur))
            cur, used_q, used_k = [], set(), set()
        if rng is not None and empty_p and rng.random() < empty_p:
            moments.append(cirq.Moment())

    for it in items:
        w, keys = B.item_qubits_keys(it)
        new = layout == "serial" or bool(w & used_q) or bool(keys & used_k) or it["t"] == "B"
        if not new and layout == "random" and rng is not None and rng.random() < 0.3:
            new = True
        if new:
            flush()
        cur.append(item_to_op(it, qubits))
        used_q |= w
        used_k |= keys
        if it["t"] == "B":
            flush()
    flush()
    return moments


def describe(items, ind=0):
    out = []
    for it in items:
        tg = (" tags=%s" % (list(it["tags"]),)) if it.get("tags") else ""
        if it["t"] == "B":
            out.append("%sBLOCK reps=%s ids=%s use_ids=%s qmap=%s kmap=%s%s {" % ("  " * ind, it["reps"], it["ids"], it["use_ids"], it["qmap"], it["kmap"], tg))
            out += describe(it["body"], ind + 1)
            out.append("  " * ind + "}")
        else:
            out.append("  " * ind + P.describe([it])[0] + tg)
    return out


def has_block(items):
    return any(it["t"] == "B" for it in items)
