"""Abstract programs: generated once, then turned (a) into Cirq circuits through
public constructors and (b) independently into reference-interpreter steps
with catalogue matrices.  Wire i of the abstract program is qubits[i]."""
from __future__ import annotations

import numpy as np

from vf.refmodel import interp as I
from vf.refmodel import linalg as L
from vf.workloads import gatepool as GP

_CACHE = {}


def pools():
    if "u" not in _CACHE:
        _CACHE["u"] = GP.build_specs() + GP.build_custom_specs()
        _CACHE["c"] = GP.build_channel_specs()
        _CACHE["by_name"] = {s.name: s for s in _CACHE["u"] + _CACHE["c"]}
    return _CACHE


def spec_by_name(name):
    return pools()["by_name"][name]


def specs_for_shape(shape, kind="u", pred=None):
    key = (kind, tuple(shape))
    if key not in _CACHE:
        _CACHE[key] = [s for s in pools()[kind] if s.shape == tuple(shape)]
    out = _CACHE[key]
    return [s for s in out if pred(s)] if pred else out


def pick_dims(rng, nmax=5, qudit_p=0.25, dmax_total=64):
    n = int(rng.integers(1, nmax + 1))
    if rng.random() < qudit_p:
        dims = [int(rng.choice([2, 2, 3, 4])) for _ in range(n)]
        while L.dim_of(dims) > dmax_total:
            dims[int(np.argmax(dims))] = 2
            if all(d == 2 for d in dims) and L.dim_of(dims) > dmax_total:
                dims.pop()
    else:
        dims = [2] * n
    return tuple(dims)


def gen_unitary_step(rng, dims, pred=None, arity_w=(0.04, 0.46, 0.38, 0.12)):
    n = len(dims)
    for _ in range(50):
        k = int(rng.choice(4, p=arity_w))
        if k > n:
            continue
        wires = tuple(int(w) for w in rng.choice(n, size=k, replace=False))
        cands = specs_for_shape([dims[w] for w in wires], "u", pred)
        if not cands:
            continue
        s = cands[int(rng.integers(len(cands)))]
        return {"t": "U", "spec": s.name, "p": s.sample(rng), "w": wires}
    raise RuntimeError("no gate fits")


def echo_step(rng, steps):
    """A step that repeats an earlier unitary step (same family, same wires) with exactly one parameter redrawn - or, with
    some probability, on the same wires in another order: the inputs that caches keyed on too little confuse."""
    cands = [st for st in steps if st["t"] == "U" and len(st["p"]) >= 1 and all(isinstance(x, float) for x in st["p"])]
    if not cands:
        return None
    st = cands[int(rng.integers(len(cands)))]
    spec = spec_by_name(st["spec"])
    fresh = spec.sample(rng)
    if len(fresh) != len(st["p"]):
        return None
    j = int(rng.integers(len(fresh)))
    p = tuple(fresh[i] if i == j else st["p"][i] for i in range(len(fresh)))
    w = tuple(st["w"])
    if len(w) >= 2 and len(set(spec.shape)) == 1 and rng.random() < 0.3:
        w = tuple(w[i] for i in rng.permutation(len(w)))
    return {"t": "U", "spec": st["spec"], "p": p, "w": w}


def gen_unitary_program(rng, dims, nsteps, pred=None, echo=0.12):
    steps = []
    for _ in range(nsteps):
        st = echo_step(rng, steps) if (steps and rng.random() < echo) else None
        steps.append(st if st is not None else gen_unitary_step(rng, dims, pred))
    return steps


def make_qubits(rng, dims, kind=None):
    """Sorted qubit list (wire i = i-th in cirq's default order)."""
    import cirq

    n = len(dims)
    if any(d != 2 for d in dims):
        idx = sorted(int(x) for x in rng.choice(3 * n + 2, size=n, replace=False))
        return [cirq.LineQid(i, dimension=d) for i, d in zip(idx, dims)]
    kind = kind or ["line", "grid", "named", "line_sparse"][int(rng.integers(4))]
    if kind == "line":
        return list(cirq.LineQubit.range(n))
    if kind == "line_sparse":
        idx = sorted(int(x) for x in rng.choice(4 * n + 3, size=n, replace=False))
        return [cirq.LineQubit(i) for i in idx]
    if kind == "grid":
        cells = sorted({(int(r), int(c)) for r, c in rng.integers(0, 4, size=(4 * n, 2))})[:n]
        while len(cells) < n:
            cells.append((9, len(cells)))
        return [cirq.GridQubit(r, c) for r, c in sorted(cells)]
    return [cirq.NamedQubit("q%02d" % i) for i in range(n)]


def key_cond_fn(cond):
    """Reference evaluation of a classical condition on the model's own records."""
    t = cond["t"]
    if t == "key":
        return lambda rec: any(d != 0 for d in I.latest(rec, cond["key"], cond.get("index", -1)))
    if t == "bitmask":
        def f(rec):
            digs = I.latest(rec, cond["key"], cond.get("index", -1))
            v = 0
            for d in digs:  # big-endian integer of the (qubit) digits
                v = 2 * v + d
            bm = cond["bitmask"]
            tv = cond["target_value"]
            val = v if bm is None else (v & bm)
            if cond["equal_target"]:
                return val == tv
            return val != tv
        return f
    if t == "sympy_eq":  # Eq(key_as_big_endian_int, const)
        def g(rec):
            v = 0
            dims = cond["dims"]
            for d, b in zip(I.latest(rec, cond["key"], -1), dims):
                v = v * b + d
            return v == cond["const"]
        return g
    if t == "sympy_gt_sum":  # k1 + k2 > const
        def h(rec):
            tot = 0
            for key, dims in cond["keys"]:
                v = 0
                for d, b in zip(I.latest(rec, key, -1), dims):
                    v = v * b + d
                tot += v
            return tot > cond["const"]
        return h
    raise ValueError(t)


def cirq_cond(cond):
    import cirq
    import sympy

    t = cond["t"]
    if t == "key":
        if cond.get("index", -1) == -1 and not cond.get("explicit_index"):
            return cirq.KeyCondition(cirq.MeasurementKey(cond["key"]))
        return cirq.KeyCondition(cirq.MeasurementKey(cond["key"]), index=cond["index"])
    if t == "bitmask":
        return cirq.BitMaskKeyCondition(cond["key"], index=cond.get("index", -1), target_value=cond["target_value"],
                                        equal_target=cond["equal_target"], bitmask=cond["bitmask"])
    if t == "sympy_eq":
        return cirq.SympyCondition(sympy.Eq(sympy.Symbol(cond["key"]), cond["const"]))
    if t == "sympy_gt_sum":
        e = sum(sympy.Symbol(k) for k, _ in cond["keys"])
        return cirq.SympyCondition(e > cond["const"])
    raise ValueError(t)


def step_to_ref(st):
    t = st["t"]
    if t == "U":
        s = spec_by_name(st["spec"])
        return I.U(s.ref(st["p"]), st["w"])
    if t == "K":
        s = spec_by_name(st["spec"])
        return I.K(s.ref(st["p"]), st["w"])
    if t == "M":
        return I.M(st["key"], st["w"], st.get("mask", ()), st.get("conf"))
    if t == "PM":
        # measurement of a Pauli product observable: projectors (I +- cP)/2, recorded bit 0 for eigenvalue +1, 1 for -1
        from vf.refmodel import gates as RG
        Pm = float(st.get("coef", 1)) * L.kron(*[RG.PAULI[c] for c in st["paulis"]])
        d = Pm.shape[0]
        return I.K([(np.eye(d) + Pm) / 2, (np.eye(d) - Pm) / 2], st["w"], key=st["key"])
    if t == "C":
        f1 = key_cond_fn(st["cond"])
        if st.get("cond2") is not None:
            f2 = key_cond_fn(st["cond2"])
            return I.If(lambda rec: bool(f1(rec)) and bool(f2(rec)), step_to_ref(st["inner"]))  # all conditions must hold
        return I.If(f1, step_to_ref(st["inner"]))
    raise ValueError(t)


def to_ref(steps):
    return [step_to_ref(s) for s in steps]


def step_to_op(st, qubits):
    import cirq

    t = st["t"]
    qs = [qubits[w] for w in st["w"]] if "w" in st else None
    if t in ("U", "K"):
        s = spec_by_name(st["spec"])
        return s.make(st["p"]).on(*qs)
    if t == "M":
        kw = {}
        if st.get("mask"):
            kw["invert_mask"] = tuple(st["mask"])
        if st.get("conf"):
            kw["confusion_map"] = {tuple(k): np.asarray(v) for k, v in st["conf"].items()}
        if st.get("flip_via"):
            # the same measurement reached through MeasurementGate.with_bits_flipped: start from the mask with those
            # positions toggled and let the method toggle them back
            full = list(st.get("mask", ())) + [False] * (len(qs) - len(st.get("mask", ())))
            kw["invert_mask"] = tuple(bool(b) ^ (i in st["flip_via"]) for i, b in enumerate(full))
            return cirq.measure(*qs, key=st["key"], **kw).gate.with_bits_flipped(*st["flip_via"]).on(*qs)
        return cirq.measure(*qs, key=st["key"], **kw)
    if t == "PM":
        ps = cirq.PauliString({q: {"X": cirq.X, "Y": cirq.Y, "Z": cirq.Z}[c] for q, c in zip(qs, st["paulis"])}, coefficient=st.get("coef", 1))
        return cirq.measure_single_paulistring(ps, key=st["key"])
    if t == "C":
        conds = [cirq_cond(st["cond"])] + ([cirq_cond(st["cond2"])] if st.get("cond2") is not None else [])
        if st.get("form") == "if":
            return cirq.If(conds if len(conds) > 1 else conds[0], step_to_op(st["inner"], qubits))
        return step_to_op(st["inner"], qubits).with_classical_controls(*conds)
    raise ValueError(t)


def step_qubits_keys(st):
    if st["t"] == "C":
        w, keys = step_qubits_keys(st["inner"])
        ks = set()
        for c in (st["cond"], st.get("cond2")):
            if c is not None:
                ks |= {c["key"]} if "key" in c else {k for k, _ in c["keys"]}
        return w, keys | ks
    if st["t"] in ("M", "PM"):
        return set(st["w"]), {st["key"]}
    return set(st["w"]), set()


def to_moments(steps, qubits, rng=None, layout="greedy"):
    """Explicit moment construction by the harness (independent of cirq's insert strategies)."""
    import cirq

    moments, cur, used_q, used_k = [], [], set(), set()
    for st in steps:
        w, keys = step_qubits_keys(st)
        new = layout == "serial" or bool(w & used_q) or bool(keys & used_k)
        if not new and rng is not None and layout == "random" and rng.random() < 0.3:
            new = True
        if new and cur:
            moments.append(cirq.Moment(cur))
            cur, used_q, used_k = [], set(), set()
        cur.append(step_to_op(st, qubits))
        used_q |= w
        used_k |= keys
    if cur:
        moments.append(cirq.Moment(cur))
    return moments


def to_circuit(steps, qubits, rng=None, layout="greedy"):
    import cirq

    return cirq.Circuit(to_moments(steps, qubits, rng, layout))


def describe(steps):
    out = []
    for st in steps:
        if st["t"] in ("U", "K"):
            p = [x if not isinstance(x, np.ndarray) else "<matrix>" for x in st["p"]]
            out.append("%s%s@%s" % (st["spec"], tuple(np.round(q, 6) if isinstance(q, float) else q for q in p), list(st["w"])))
        elif st["t"] == "M":
            out.append("M[%s]@%s mask=%s conf=%s" % (st["key"], list(st["w"]), list(st.get("mask", ())), sorted((st.get("conf") or {}).keys())))
        elif st["t"] == "PM":
            out.append("PauliMeasure[%s] %s%s@%s" % (st["key"], "-" if st.get("coef", 1) < 0 else "", st["paulis"], list(st["w"])))
        elif st["t"] == "C":
            extra = "" if st.get("cond2") is None else " AND %s" % ({k: v for k, v in st["cond2"].items() if k != "dims"},)
            out.append("%s(%s%s){%s}" % ("cirq.If" if st.get("form") == "if" else "IF", {k: v for k, v in st["cond"].items() if k != "dims"}, extra,
                                          describe([st["inner"]])[0]))
    return out


# ------------------------------------------------------------------ programs with measurements / feed-forward
def _conf_matrix(rng, d):
    """row-stochastic matrix with well separated entries"""
    m = rng.dirichlet(np.ones(d) * 0.7, size=d) * 0.5 + np.eye(d) * 0.5
    if rng.random() < 0.3:
        m = np.eye(d)[rng.permutation(d)] * 0.75 + np.full((d, d), 0.25 / d)
    return m / m.sum(axis=1, keepdims=True)


def gen_meas_program(rng, dims, nsteps=None, max_digits=8, pred=None, allow_conf=True, allow_ctrl=True,
                     allow_reset=True, allow_mask_and_conf=True, keys=("a", "b", "c"), allow_pauli=False, allow_multi_cond=False):
    """Steps with measurements (masks, confusion maps, repeated keys), resets and classical control."""
    n = len(dims)
    nsteps = nsteps or int(rng.integers(3, 11))
    steps, measured, digits = [], {}, 0  # measured: key -> tuple of dims
    for i in range(nsteps):
        r = rng.random()
        last = i == nsteps - 1
        if (r < 0.28 or last) and digits < max_digits:
            k = int(rng.integers(1, min(n, 3) + 1))
            key = keys[int(rng.integers(len(keys)))]
            if key in measured:  # repeated key: same shape
                want = measured[key]
                cands = [w for w in _wire_tuples(rng, dims, len(want)) if tuple(dims[x] for x in w) == want]
                if not cands:
                    continue
                wires = cands[0]
            else:
                wires = tuple(int(w) for w in rng.choice(n, size=k, replace=False))
            if digits + len(wires) > max_digits:
                continue
            st = {"t": "M", "key": key, "w": wires}
            has_mask = rng.random() < 0.4
            if has_mask:
                ln = int(rng.integers(1, len(wires) + 1))
                st["mask"] = tuple(bool(b) for b in rng.integers(0, 2, size=ln))
            if allow_conf and rng.random() < 0.3 and (allow_mask_and_conf or not has_mask):
                sub = tuple(sorted(int(x) for x in rng.choice(len(wires), size=int(rng.integers(1, min(2, len(wires)) + 1)), replace=False)))
                d = L.dim_of([dims[wires[j]] for j in sub])
                st["conf"] = {sub: _conf_matrix(rng, d)}
            if allow_multi_cond and rng.random() < 0.2 and all(dims[w] == 2 for w in wires):
                st["flip_via"] = tuple(sorted(int(x) for x in rng.choice(len(wires), size=int(rng.integers(1, len(wires) + 1)), replace=False)))
            measured[key] = tuple(dims[w] for w in wires)
            digits += len(wires)
            steps.append(st)
        elif r < 0.34 and allow_pauli and digits < max_digits and all(d == 2 for d in dims):
            k = int(rng.integers(1, min(n, 3) + 1))
            wires = tuple(int(w) for w in rng.choice(n, size=k, replace=False))
            key = keys[int(rng.integers(len(keys)))]
            if key in measured and measured[key] != (2,):
                continue
            steps.append({"t": "PM", "key": key, "w": wires, "paulis": "".join(rng.choice(list("XYZ"), size=k)),
                          "coef": int(rng.choice([1, 1, 1, -1]))})
            measured[key] = (2,)
            digits += 1
        elif r < 0.45 and allow_ctrl and measured:
            inner = gen_unitary_step(rng, dims, pred, arity_w=(0.0, 0.6, 0.4, 0.0))
            steps.append({"t": "C", "cond": gen_cond(rng, measured), "inner": inner})
            if allow_multi_cond:
                # several conditions on one operation (all must hold), and the cirq.If spelling of a conditional operation
                if rng.random() < 0.4:
                    steps[-1]["cond2"] = gen_cond(rng, measured)
                if rng.random() < 0.4:
                    steps[-1]["form"] = "if"
        elif r < 0.52 and allow_reset:
            w = int(rng.integers(n))
            steps.append({"t": "K", "spec": "reset_d%d" % dims[w], "p": (), "w": (w,)} if dims[w] in (2, 3)
                         else gen_unitary_step(rng, dims, pred))
        else:
            steps.append(gen_unitary_step(rng, dims, pred))
    if not any(s["t"] == "M" for s in steps):
        steps.append({"t": "M", "key": keys[0], "w": (int(rng.integers(n)),)})
    return steps


def _wire_tuples(rng, dims, k):
    n = len(dims)
    out = []
    for _ in range(12):
        if k <= n:
            out.append(tuple(int(w) for w in rng.choice(n, size=k, replace=False)))
    return out


def gen_cond(rng, measured):
    keys = sorted(measured)
    key = keys[int(rng.integers(len(keys)))]
    dims = measured[key]
    r = rng.random()
    all_qubits = all(d == 2 for d in dims)
    if r < 0.4:
        c = {"t": "key", "key": key, "index": -1}
        if rng.random() < 0.3:
            c["index"] = int(rng.choice([0, -1]))
            c["explicit_index"] = True
        return c
    if r < 0.6 and all_qubits:
        nb = len(dims)
        bm = None if rng.random() < 0.3 else int(rng.integers(1, 2 ** nb))
        tv = int(rng.integers(0, 2 ** nb))
        if bm is not None and rng.random() < 0.7:
            tv &= bm
        return {"t": "bitmask", "key": key, "index": int(rng.choice([-1, -1, 0])), "bitmask": bm, "target_value": tv,
                "equal_target": bool(rng.integers(2))}
    if r < 0.85:
        return {"t": "sympy_eq", "key": key, "dims": dims, "const": int(rng.integers(0, L.dim_of(dims)))}
    k2 = keys[int(rng.integers(len(keys)))]
    if k2 == key:
        return {"t": "sympy_eq", "key": key, "dims": dims, "const": int(rng.integers(0, L.dim_of(dims)))}
    return {"t": "sympy_gt_sum", "keys": [(key, dims), (k2, measured[k2])], "const": int(rng.integers(0, 3))}
