"""Gate pool shared by all drivers: for each family a parameter sampler, the
Cirq constructor (public API) and - separately - the catalogue matrix.  The
Cirq side never supplies a matrix to the oracle side."""
from __future__ import annotations

import math

import numpy as np

from vf.refmodel import gates as G
from vf.refmodel import linalg as L

# (whole numbers beyond one period too: shortcuts keyed on "exponent == 1 modulo the period" must keep the global shift)
SPECIAL_EXP = [0.0, 0.25, -0.25, 0.5, -0.5, 1.0, -1.0, 2.0, 4.0, 1e-9, 1 - 1e-9, 1 + 1e-9, 1 / 3, 1.5, -1.5, 3.0, 5.0, -3.0, 7.0, -4.0]
SPECIAL_ANG = [0.0, math.pi / 2, -math.pi / 2, math.pi, -math.pi, math.pi / 4, 2 * math.pi, math.pi / 6, 1e-9, 3 * math.pi / 2]
SHIFTS = [0.0, 0.0, 0.0, 0.0, 0.5, -0.5, 0.25, -1.0]


def pick_exp(rng, special=0.5):
    r = rng.random()
    if r < special:
        return float(SPECIAL_EXP[rng.integers(len(SPECIAL_EXP))])
    if r < 0.92:
        return float(rng.uniform(-2, 2))
    return float(rng.uniform(-2, 2) + 2 * rng.integers(-3, 4))


def pick_shift(rng):
    if rng.random() < 0.15:
        return float(rng.uniform(-1, 1))
    return float(SHIFTS[rng.integers(len(SHIFTS))])


def pick_ang(rng, special=0.4):
    if rng.random() < special:
        return float(SPECIAL_ANG[rng.integers(len(SPECIAL_ANG))])
    return float(rng.uniform(-7, 7))


def pick_prob(rng):
    r = rng.random()
    if r < 0.1:
        return 0.0
    if r < 0.2:
        return 1.0
    if r < 0.3:
        return float(10 ** rng.uniform(-6, -2))
    if r < 0.38:
        return float(1.0 - 10 ** rng.uniform(-9, -3))  # just below one: not the "exactly one" special case
    if r < 0.42:
        return float(10 ** rng.uniform(-12, -7))  # just above zero
    return float(rng.uniform(0, 1))


class Spec:
    def __init__(self, name, shape, sample, make, ref, kind="unitary", eigen=None, pkg="cirq", tags=()):
        self.name, self.shape, self.sample, self.make, self.ref = name, tuple(shape), sample, make, ref
        self.kind, self.eigen, self.pkg, self.tags = kind, eigen, pkg, set(tags)

    @property
    def n(self):
        return len(self.shape)


def _es(rng):
    return (pick_exp(rng), pick_shift(rng))


def build_specs():
    import cirq

    S = []

    def eig(name, shape, cls, fam, d=None, tags=()):
        if d is None:
            S.append(Spec(name, shape, _es, lambda p, cls=cls: cls(exponent=p[0], global_shift=p[1]),
                          lambda p, fam=fam: G.eigen_gate(fam, p[0], p[1]), eigen=fam, tags=tags))
        else:
            S.append(Spec(name, shape, _es, lambda p, cls=cls, d=d: cls(exponent=p[0], global_shift=p[1], dimension=d),
                          lambda p, fam=fam, d=d: G.eigen_gate(fam, p[0], p[1], d), eigen=fam, tags=tuple(tags) + ("qudit",)))

    eig("XPow", (2,), cirq.XPowGate, "XPow", tags=("1q",))
    eig("YPow", (2,), cirq.YPowGate, "YPow", tags=("1q",))
    eig("ZPow", (2,), cirq.ZPowGate, "ZPow", tags=("1q", "diag"))
    eig("HPow", (2,), cirq.HPowGate, "HPow", tags=("1q",))
    for d in (3, 4):
        eig("XPow_d%d" % d, (d,), cirq.XPowGate, "XPow", d=d)
        eig("ZPow_d%d" % d, (d,), cirq.ZPowGate, "ZPow", d=d)
    eig("CZPow", (2, 2), cirq.CZPowGate, "CZPow", tags=("2q", "diag"))
    eig("CXPow", (2, 2), cirq.CXPowGate, "CXPow", tags=("2q",))
    eig("SwapPow", (2, 2), cirq.SwapPowGate, "SwapPow", tags=("2q",))
    eig("ISwapPow", (2, 2), cirq.ISwapPowGate, "ISwapPow", tags=("2q",))
    eig("XXPow", (2, 2), cirq.XXPowGate, "XXPow", tags=("2q",))
    eig("YYPow", (2, 2), cirq.YYPowGate, "YYPow", tags=("2q",))
    eig("ZZPow", (2, 2), cirq.ZZPowGate, "ZZPow", tags=("2q", "diag"))
    eig("CCZPow", (2, 2, 2), cirq.CCZPowGate, "CCZPow", tags=("3q", "diag"))
    eig("CCXPow", (2, 2, 2), cirq.CCXPowGate, "CCXPow", tags=("3q",))

    one = lambda rng: (pick_ang(rng),)  # noqa
    S.append(Spec("rx", (2,), one, lambda p: cirq.rx(p[0]), lambda p: G.rx(p[0]), tags=("1q",)))
    S.append(Spec("ry", (2,), one, lambda p: cirq.ry(p[0]), lambda p: G.ry(p[0]), tags=("1q",)))
    S.append(Spec("rz", (2,), one, lambda p: cirq.rz(p[0]), lambda p: G.rz(p[0]), tags=("1q", "diag")))
    S.append(Spec("Rx", (2,), one, lambda p: cirq.Rx(rads=p[0]), lambda p: G.rx(p[0]), tags=("1q",)))
    S.append(Spec("Ry", (2,), one, lambda p: cirq.Ry(rads=p[0]), lambda p: G.ry(p[0]), tags=("1q",)))
    S.append(Spec("Rz", (2,), one, lambda p: cirq.Rz(rads=p[0]), lambda p: G.rz(p[0]), tags=("1q", "diag")))
    S.append(Spec("PhasedXPow", (2,), lambda rng: (pick_exp(rng), pick_exp(rng), pick_shift(rng)),
                  lambda p: cirq.PhasedXPowGate(phase_exponent=p[0], exponent=p[1], global_shift=p[2]),
                  lambda p: G.phased_xpow(p[0], p[1], p[2]), tags=("1q",)))
    S.append(Spec("PhasedXZ", (2,), lambda rng: (pick_exp(rng), pick_exp(rng), pick_exp(rng)),
                  lambda p: cirq.PhasedXZGate(x_exponent=p[0], z_exponent=p[1], axis_phase_exponent=p[2]),
                  lambda p: G.phased_xz(p[0], p[1], p[2]), tags=("1q",)))
    S.append(Spec("ms", (2, 2), one, lambda p: cirq.ms(p[0]), lambda p: G.ms(p[0]), tags=("2q",)))
    S.append(Spec("FSim", (2, 2), lambda rng: (pick_ang(rng), pick_ang(rng)),
                  lambda p: cirq.FSimGate(theta=p[0], phi=p[1]), lambda p: G.fsim(p[0], p[1]), tags=("2q",)))
    S.append(Spec("PhasedFSim", (2, 2), lambda rng: tuple(pick_ang(rng) for _ in range(5)),
                  lambda p: cirq.PhasedFSimGate(theta=p[0], zeta=p[1], chi=p[2], gamma=p[3], phi=p[4]),
                  lambda p: G.phased_fsim(*p), tags=("2q",)))
    S.append(Spec("PhasedISwapPow", (2, 2), lambda rng: (pick_exp(rng), pick_exp(rng)),
                  lambda p: cirq.PhasedISwapPowGate(phase_exponent=p[0], exponent=p[1]),
                  lambda p: G.phased_iswap(p[0], p[1]), tags=("2q",)))
    S.append(Spec("PhasedISwapPowShift", (2, 2), lambda rng: (pick_exp(rng), pick_exp(rng), float(rng.choice([0.5, -0.5, 0.25, 1.0, -0.37]))),
                  lambda p: cirq.PhasedISwapPowGate(phase_exponent=p[0], exponent=p[1], global_shift=p[2]),
                  lambda p: G.phased_iswap(p[0], p[1], p[2]), tags=("2q",)))
    S.append(Spec("givens", (2, 2), one, lambda p: cirq.givens(p[0]), lambda p: G.givens(p[0]), tags=("2q",)))
    S.append(Spec("cphase", (2, 2), one, lambda p: cirq.cphase(p[0]), lambda p: G.cphase(p[0]), tags=("2q", "diag")))
    S.append(Spec("CSWAP", (2, 2, 2), lambda rng: (), lambda p: cirq.CSWAP, lambda p: G.CSWAP, tags=("3q",)))

    def qft_s(rng):
        return (int(rng.integers(1, 4)), bool(rng.integers(2)))
    for n in (1, 2, 3):
        S.append(Spec("QFT%d" % n, (2,) * n, lambda rng: (bool(rng.integers(2)),),
                      lambda p, n=n: cirq.QuantumFourierTransformGate(n, without_reverse=p[0]),
                      lambda p, n=n: G.qft(n, without_reverse=p[0]), tags=("nq",)))
        S.append(Spec("PhaseGradient%d" % n, (2,) * n, lambda rng: (pick_exp(rng),),
                      lambda p, n=n: cirq.PhaseGradientGate(num_qubits=n, exponent=p[0]),
                      lambda p, n=n: G.phase_gradient(n, p[0]), tags=("nq", "diag")))
        S.append(Spec("Diagonal%d" % n, (2,) * n, lambda rng, n=n: tuple(pick_ang(rng) for _ in range(2 ** n)),
                      lambda p: cirq.DiagonalGate(list(p)), lambda p: G.diagonal(p), tags=("nq", "diag")))
    S.append(Spec("TwoQubitDiagonal", (2, 2), lambda rng: tuple(pick_ang(rng) for _ in range(4)),
                  lambda p: cirq.TwoQubitDiagonalGate(list(p)), lambda p: G.diagonal(p), tags=("2q", "diag")))
    S.append(Spec("ThreeQubitDiagonal", (2, 2, 2), lambda rng: tuple(pick_ang(rng) for _ in range(8)),
                  lambda p: cirq.ThreeQubitDiagonalGate(list(p)), lambda p: G.diagonal(p), tags=("3q", "diag")))
    for n in (2, 3):
        S.append(Spec("QubitPermutation%d" % n, (2,) * n, lambda rng, n=n: tuple(int(x) for x in rng.permutation(n)),
                      lambda p: cirq.QubitPermutationGate(list(p)), lambda p: G.qubit_permutation(p), tags=("nq",)))
    for shape in ((2,), (3,), (2, 2), (2, 3), (2, 2, 2)):
        def samp(rng, shape=shape):
            u = L.haar_unitary(rng, L.dim_of(shape))
            return (u,)
        S.append(Spec("Matrix" + "x".join(map(str, shape)), shape, samp,
                      lambda p, shape=shape: cirq.MatrixGate(p[0], qid_shape=shape),
                      lambda p: np.array(p[0]), tags=("matrix",) + (("qudit",) if max(shape) > 2 else ())))
    for shape in ((2,), (2, 2), (3,), (2, 3)):
        S.append(Spec("Identity" + "x".join(map(str, shape)), shape, lambda rng: (),
                      lambda p, shape=shape: cirq.IdentityGate(qid_shape=shape),
                      lambda p, shape=shape: G.identity(shape), tags=("id",) + (("qudit",) if max(shape) > 2 else ())))
    S.append(Spec("GlobalPhase", (), lambda rng: (float(rng.uniform(0, 2 * math.pi)),),
                  lambda p: cirq.GlobalPhaseGate(np.exp(1j * p[0])), lambda p: np.array([[np.exp(1j * p[0])]]), tags=("0q",)))
    return S


def build_vendor_specs():
    import cirq_google
    import cirq_ionq

    S = []
    turn = lambda rng: (float(rng.choice([0, 0.25, 0.5, -0.25, 0.125]) if rng.random() < 0.4 else rng.uniform(-1, 1)),)  # noqa
    S.append(Spec("SYC", (2, 2), lambda rng: (), lambda p: cirq_google.SYC, lambda p: G.syc(), pkg="cirq_google", tags=("2q",)))
    S.append(Spec("WILLOW", (2, 2), lambda rng: (), lambda p: cirq_google.WILLOW, lambda p: G.willow(), pkg="cirq_google", tags=("2q",)))
    S.append(Spec("GPI", (2,), turn, lambda p: cirq_ionq.GPIGate(phi=p[0]), lambda p: G.gpi(p[0]), pkg="cirq_ionq", tags=("1q",)))
    S.append(Spec("GPI2", (2,), turn, lambda p: cirq_ionq.GPI2Gate(phi=p[0]), lambda p: G.gpi2(p[0]), pkg="cirq_ionq", tags=("1q",)))
    S.append(Spec("IonQ_MS", (2, 2), lambda rng: (turn(rng)[0], turn(rng)[0], float(rng.uniform(0, 0.25))),
                  lambda p: cirq_ionq.MSGate(phi0=p[0], phi1=p[1], theta=p[2]), lambda p: G.ionq_ms(*p), pkg="cirq_ionq", tags=("2q",)))
    S.append(Spec("IonQ_ZZ", (2, 2), turn, lambda p: cirq_ionq.ZZGate(theta=p[0]), lambda p: G.ionq_zz(p[0]), pkg="cirq_ionq", tags=("2q", "diag")))
    return S


def build_custom_specs():
    """user-defined gates that implement nothing but _unitary_ (what exporters / simulators / transformers must handle through
    their generic fall-backs): one and two qubits, Haar-random from an integer seed"""
    import cirq

    class UnitaryOnlyGate(cirq.Gate):
        def __init__(self, seed, nq):
            self.seed, self.nq = seed, nq

        def _num_qubits_(self):
            return self.nq

        def _unitary_(self):
            return G.seeded_unitary(self.seed, 2 ** self.nq)

        def __eq__(self, other):
            return isinstance(other, UnitaryOnlyGate) and (self.seed, self.nq) == (other.seed, other.nq)

        def __hash__(self):
            return hash((UnitaryOnlyGate, self.seed, self.nq))

        def __repr__(self):
            return "UnitaryOnlyGate(%d, %d)" % (self.seed, self.nq)

    S = []
    for nq in (1, 2):
        S.append(Spec("UnitaryOnly%d" % nq, (2,) * nq, lambda rng: (int(rng.integers(1 << 30)),), lambda p, nq=nq: UnitaryOnlyGate(p[0], nq),
                      lambda p, nq=nq: G.seeded_unitary(p[0], 2 ** nq), tags=("custom", "%dq" % nq)))
    return S


def build_channel_specs():
    import cirq

    S = []
    pr = lambda rng: (pick_prob(rng),)  # noqa
    S.append(Spec("bit_flip", (2,), pr, lambda p: cirq.bit_flip(p[0]), lambda p: G.bit_flip(p[0]), kind="channel"))
    S.append(Spec("phase_flip", (2,), pr, lambda p: cirq.phase_flip(p[0]), lambda p: G.phase_flip(p[0]), kind="channel"))
    S.append(Spec("amplitude_damp", (2,), pr, lambda p: cirq.amplitude_damp(p[0]), lambda p: G.amplitude_damp(p[0]), kind="channel"))
    S.append(Spec("phase_damp", (2,), pr, lambda p: cirq.phase_damp(p[0]), lambda p: G.phase_damp(p[0]), kind="channel"))
    S.append(Spec("generalized_amplitude_damp", (2,), lambda rng: (pick_prob(rng), pick_prob(rng)),
                  lambda p: cirq.generalized_amplitude_damp(p[0], p[1]),
                  lambda p: G.generalized_amplitude_damp(p[0], p[1]), kind="channel"))

    def dep_p(rng, n=1):
        return (min(pick_prob(rng), 1.0),)
    S.append(Spec("depolarize", (2,), dep_p, lambda p: cirq.depolarize(p[0]), lambda p: G.depolarize(p[0], 1), kind="channel"))
    S.append(Spec("depolarize2", (2, 2), dep_p, lambda p: cirq.depolarize(p[0], n_qubits=2), lambda p: G.depolarize(p[0], 2), kind="channel"))

    def asym(rng):
        v = rng.dirichlet(np.ones(4))
        if rng.random() < 0.2:
            v = np.array([0, 1.0, 0, 0])[rng.permutation(4)]
        return (float(v[1]), float(v[2]), float(v[3]))
    S.append(Spec("asymmetric_depolarize", (2,), asym, lambda p: cirq.asymmetric_depolarize(p[0], p[1], p[2]),
                  lambda p: G.asymmetric_depolarize(*p), kind="channel"))
    # the same channel family given as a dictionary {Pauli string: probability}: keys in any order, the identity string
    # optional (it then gets the remaining probability), one or two qubits
    def asym_dict(n):
        def sample(rng):
            import itertools
            keys = ["".join(t) for t in itertools.product("IXYZ", repeat=n)]
            ident = "I" * n
            k = int(rng.integers(1, min(len(keys) - 1, 4) + 1))
            chosen = [keys[int(i)] for i in rng.choice(np.arange(1, len(keys)), size=k, replace=False)]
            v = rng.dirichlet(np.ones(k + 1))
            items = [(c, float(x)) for c, x in zip(chosen, v[:k])]
            if rng.random() < 0.6:
                # identity listed explicitly: the probabilities then have to sum to one
                items.append((ident, float(1.0 - sum(x for _, x in items))))
            order = rng.permutation(len(items))
            return (tuple(items[int(i)] for i in order),)
        return sample

    def asym_dict_ref(p, n):
        items = dict(p[0])
        ident = "I" * n
        rest = 1.0 - sum(v for k_, v in items.items() if k_ != ident)
        out = [math.sqrt(max(rest, 0.0)) * G.pauli_string_matrix(ident)] if rest > 1e-15 else []
        for k_, v in p[0]:
            if k_ != ident and v > 0:
                out.append(math.sqrt(v) * G.pauli_string_matrix(k_))
        return out

    for n_ in (1, 2):
        S.append(Spec("asymmetric_depolarize_dict%d" % n_, (2,) * n_, asym_dict(n_),
                      lambda p: cirq.asymmetric_depolarize(error_probabilities=dict(p[0])),
                      lambda p, n_=n_: asym_dict_ref(p, n_), kind="channel"))
    # a gate (or a channel) applied with some probability, else nothing: gate.with_probability(p)
    def rg_params(rng):
        return (pick_exp(rng), pick_prob(rng))
    S.append(Spec("random_gate_X", (2,), rg_params, lambda p: cirq.XPowGate(exponent=p[0]).with_probability(p[1]),
                  lambda p: [k for k in (math.sqrt(max(1 - p[1], 0.0)) * G.I2, math.sqrt(p[1]) * G.eigen_gate("XPow", p[0])) if np.abs(k).max() > 0],
                  kind="channel"))
    S.append(Spec("random_gate_CZ", (2, 2), rg_params, lambda p: cirq.CZPowGate(exponent=p[0]).with_probability(p[1]),
                  lambda p: [k for k in (math.sqrt(max(1 - p[1], 0.0)) * np.eye(4, dtype=complex), math.sqrt(p[1]) * G.eigen_gate("CZPow", p[0]))
                             if np.abs(k).max() > 0], kind="channel"))
    S.append(Spec("random_gate_of_channel", (2,), lambda rng: (pick_prob(rng), pick_prob(rng)),
                  lambda p: cirq.amplitude_damp(p[0]).with_probability(p[1]),
                  lambda p: [k for k in [math.sqrt(max(1 - p[1], 0.0)) * G.I2] + [math.sqrt(p[1]) * k_ for k_ in G.amplitude_damp(p[0])]
                             if np.abs(k).max() > 0], kind="channel"))
    # sub gates on qudits / mixed shapes: the skipped branch is the identity of the sub gate's own space
    for shape in ((3,), (2, 3), (4,)):
        D_ = L.dim_of(shape)
        S.append(Spec("random_gate_of_matrix" + "x".join(map(str, shape)), shape,
                      lambda rng, D_=D_: (L.haar_unitary(rng, D_), pick_prob(rng)),
                      lambda p, shape=shape: cirq.MatrixGate(p[0], qid_shape=shape).with_probability(p[1]),
                      lambda p, D_=D_: [k for k in (math.sqrt(max(1 - p[1], 0.0)) * np.eye(D_, dtype=complex), math.sqrt(p[1]) * np.array(p[0]))
                                        if np.abs(k).max() > 0], kind="channel", tags=("qudit",)))
    for d in (2, 3):
        S.append(Spec("reset_d%d" % d, (d,), lambda rng: (), lambda p, d=d: cirq.ResetChannel(dimension=d),
                      lambda p, d=d: G.reset(d), kind="channel"))

    # arbitrary channels: complex, non-diagonal effects (every library channel above has real diagonal effects)
    def seedk(kmax):
        return lambda rng: (int(rng.integers(1 << 30)), int(rng.integers(1, kmax + 1)))
    S.append(Spec("kraus_random_1q", (2,), seedk(4), lambda p: cirq.KrausChannel(G.random_kraus(p[0], 2, p[1])),
                  lambda p: G.random_kraus(p[0], 2, p[1]), kind="channel", tags=("arbitrary",)))
    S.append(Spec("kraus_random_2q", (2, 2), seedk(3), lambda p: cirq.KrausChannel(G.random_kraus(p[0], 4, p[1])),
                  lambda p: G.random_kraus(p[0], 4, p[1]), kind="channel", tags=("arbitrary",)))

    def mix_make(p, dim):
        ps, us = G.random_mixture(p[0], dim, p[1])
        return cirq.MixedUnitaryChannel(list(zip(ps, us)))

    def mix_ref(p, dim):
        ps, us = G.random_mixture(p[0], dim, p[1])
        return [math.sqrt(q) * u for q, u in zip(ps, us)]
    S.append(Spec("mixed_unitary_random_1q", (2,), seedk(4), lambda p: mix_make(p, 2), lambda p: mix_ref(p, 2), kind="channel", tags=("arbitrary",)))
    S.append(Spec("mixed_unitary_random_2q", (2, 2), seedk(3), lambda p: mix_make(p, 4), lambda p: mix_ref(p, 4), kind="channel", tags=("arbitrary",)))

    def weak(rng):
        th = [0.0, math.pi / 2, float(rng.uniform(0, math.pi))][int(rng.integers(3))]
        ph = [0.0, math.pi / 2, float(rng.uniform(0, 2 * math.pi))][int(rng.integers(3))]
        st = [1.0, 0.0, float(rng.uniform(0, 1))][int(rng.integers(3)) if rng.random() < 0.3 else 2]
        return (th, ph, st)
    S.append(Spec("weak_measure", (2,), weak, lambda p: cirq.KrausChannel(G.weak_measure(*p)), lambda p: G.weak_measure(*p), kind="channel", tags=("arbitrary",)))

    class KrausOnlyGate(cirq.Gate):
        """a user-defined channel that only implements _kraus_ (qudit capable)"""

        def __init__(self, seed, dim, k):
            self.seed, self.dim, self.k = seed, dim, k

        def _qid_shape_(self):
            return (self.dim,)

        def _kraus_(self):
            return tuple(G.random_kraus(self.seed, self.dim, self.k))

        def _value_equality_values_(self):
            return (self.seed, self.dim, self.k)

        def __eq__(self, other):
            return isinstance(other, KrausOnlyGate) and (self.seed, self.dim, self.k) == (other.seed, other.dim, other.k)

        def __hash__(self):
            return hash((KrausOnlyGate, self.seed, self.dim, self.k))

        def __repr__(self):
            return "KrausOnlyGate(%d, %d, %d)" % (self.seed, self.dim, self.k)

    for d in (2, 3):
        S.append(Spec("kraus_only_d%d" % d, (d,), seedk(3), lambda p, d=d: KrausOnlyGate(p[0], d, p[1]),
                      lambda p, d=d: G.random_kraus(p[0], d, p[1]), kind="channel", tags=("arbitrary", "custom")))
    return S


def unitary_pool(rng_tags=None):
    return build_specs()
