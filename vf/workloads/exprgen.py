"""Seeded generator of abstract expression trees (C10 workload) and their sympy form.

Abstract tree: ('sym', name) | ('int', k) | ('rat', p, q) | ('float', x) | ('pi',)
             | ('add'|'sub'|'mul'|'div'|'pow', l, r) | ('neg', x) | ('sin'|'cos'|'exp', x)

`to_sympy` builds the expression with sympy's operators (so what Cirq receives is whatever sympy canonicalises it
to); `eval_abstract` evaluates the *abstract* tree with the same domain guard as vf.refmodel.expr_eval - it is used
only to reject cases where sympy's canonicalisation left the real domain (for instance (-8)**(1/3))."""
from __future__ import annotations

import math

from vf.refmodel import expr_eval as EV

SYMS = ["a", "b", "c", "d"]
_RATS = [(1, 2), (1, 3), (3, 2), (-1, 2), (2, 3), (1, 4), (5, 3), (-3, 4)]
_FLOATS = [0.5, 0.25, 1.5, -0.75, 2.0, 0.1, 3.0, -1.25, 1e-3]


def gen_leaf(rng, syms, p_sym=0.55):
    r = rng.random()
    if r < p_sym:
        return ("sym", syms[int(rng.integers(len(syms)))])
    r = rng.random()
    if r < 0.35:
        k = int(rng.integers(-4, 6))
        return ("int", k if k != 0 else 2)
    if r < 0.55:
        return ("rat",) + _RATS[int(rng.integers(len(_RATS)))]
    if r < 0.9:
        if rng.random() < 0.5:
            return ("float", float(_FLOATS[int(rng.integers(len(_FLOATS)))]))
        return ("float", float(round(rng.uniform(-3, 3), 6)))
    return ("pi",)


def gen_exponent(rng, syms):
    r = rng.random()
    if r < 0.35:
        return ("int", int(rng.choice([2, 3, -1, -2, 2, 4])))
    if r < 0.55:
        return ("rat",) + _RATS[int(rng.integers(4))]
    if r < 0.7:
        return ("float", float(rng.choice([0.5, 1.5, 2.0, -0.5, 2.5])))
    if r < 0.9:
        return ("sym", syms[int(rng.integers(len(syms)))])
    return ("add", ("sym", syms[int(rng.integers(len(syms)))]), ("int", 1))


def gen_expr(rng, syms, depth, p_func=0.06):
    if depth <= 0 or rng.random() < 0.12:
        return gen_leaf(rng, syms)
    r = rng.random()
    if r < p_func:
        return (["sin", "cos", "exp"][int(rng.integers(3))], gen_expr(rng, syms, depth - 1, p_func))
    if r < 0.12:
        return ("neg", gen_expr(rng, syms, depth - 1, p_func))
    op = ["add", "sub", "mul", "div", "pow", "add", "mul"][int(rng.integers(7))]
    if op == "pow":
        return ("pow", gen_expr(rng, syms, depth - 1, p_func), gen_exponent(rng, syms))
    return (op, gen_expr(rng, syms, depth - 1, p_func), gen_expr(rng, syms, depth - 1, p_func))


def to_sympy(t):
    import sympy

    k = t[0]
    if k == "sym":
        return sympy.Symbol(t[1])
    if k == "int":
        return sympy.Integer(t[1])
    if k == "rat":
        return sympy.Rational(t[1], t[2])
    if k == "float":
        return sympy.Float(t[1])
    if k == "pi":
        return sympy.pi
    if k == "neg":
        return -to_sympy(t[1])
    if k in ("sin", "cos", "exp"):
        return getattr(sympy, k)(to_sympy(t[1]))
    l, r = to_sympy(t[1]), to_sympy(t[2])
    if k == "add":
        return l + r
    if k == "sub":
        return l - r
    if k == "mul":
        return l * r
    if k == "div":
        return l / r
    if k == "pow":
        return l ** r
    raise ValueError(k)


def eval_abstract(t, env):
    k = t[0]
    if k == "sym":
        if t[1] not in env:
            raise EV.Unassigned(t[1])
        return EV._check(float(env[t[1]]))
    if k == "int":
        return float(t[1])
    if k == "rat":
        return t[1] / t[2]
    if k == "float":
        return float(t[1])
    if k == "pi":
        return math.pi
    if k == "neg":
        return -eval_abstract(t[1], env)
    if k == "sin":
        return math.sin(eval_abstract(t[1], env))
    if k == "cos":
        return math.cos(eval_abstract(t[1], env))
    if k == "exp":
        x = eval_abstract(t[1], env)
        if abs(x) > 10:
            raise EV.OutOfDomain("exp")
        return EV._check(math.exp(x))
    l, r = eval_abstract(t[1], env), eval_abstract(t[2], env)
    if k == "add":
        return EV._check(l + r)
    if k == "sub":
        return EV._check(l - r)
    if k == "mul":
        return EV._check(l * r)
    if k == "div":
        if abs(r) < EV.EPS_DIV:
            raise EV.OutOfDomain("division by ~0")
        return EV._check(l / r)
    if k == "pow":
        return EV.power(l, r)
    raise ValueError(k)


def names(t, out=None):
    out = set() if out is None else out
    if t[0] == "sym":
        out.add(t[1])
    else:
        for x in t[1:]:
            if isinstance(x, tuple):
                names(x, out)
    return out


def show(t):
    k = t[0]
    if k == "sym":
        return t[1]
    if k == "int":
        return str(t[1])
    if k == "rat":
        return "(%d/%d)" % (t[1], t[2])
    if k == "float":
        return repr(t[1])
    if k == "pi":
        return "pi"
    if k == "neg":
        return "-(%s)" % show(t[1])
    if k in ("sin", "cos", "exp"):
        return "%s(%s)" % (k, show(t[1]))
    return "(%s %s %s)" % (show(t[1]), {"add": "+", "sub": "-", "mul": "*", "div": "/", "pow": "**"}[k], show(t[2]))


def gen_value(rng):
    """A symbol value: mostly positive and moderate so that most generated trees stay in the real domain."""
    r = rng.random()
    if r < 0.12:
        return float(rng.choice([0.5, 1.0, 2.0, 0.25, 1.5, 3.0]))
    if r < 0.75:
        return float(round(rng.uniform(0.1, 3.0), 6))
    return float(round(rng.uniform(-3.0, 3.0), 6))


def gen_case(rng, depth=None, nsyms=None, tries=40, p_func=0.06, need_syms=1):
    """(tree, sympy expr, env) with the tree real and finite at every node of both the abstract and the sympy tree,
    and both evaluations equal.  Returns None when no in-domain case was found in `tries` attempts."""
    for _ in range(tries):
        n = int(rng.integers(1, 5)) if nsyms is None else nsyms
        syms = SYMS[:n]
        d = int(rng.integers(1, 5)) if depth is None else depth
        t = gen_expr(rng, syms, d, p_func)
        env = {s: gen_value(rng) for s in syms}
        try:
            va = eval_abstract(t, env)
            e = to_sympy(t)
            if len(EV.free_names(e)) < need_syms:
                continue
            vs = EV.evaluate(e, env)
        except EV.OutOfDomain:
            continue
        except (ZeroDivisionError, OverflowError, ValueError):
            continue
        if abs(va - vs) > 1e-9 * max(1.0, abs(va)):
            continue
        return t, e, env
    return None
