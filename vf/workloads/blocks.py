"""Abstract block trees for C12: nested sub-circuits with repetitions, repetition
ids, qubit maps and key maps, built (a) into Cirq CircuitOperations through the
public constructor and (b) independently flattened to a reference program by
the documented rules (maps inner-to-outer, inverse for negative repetitions,
repetition-id key prefixes, innermost-scope binding of control keys)."""
from __future__ import annotations

import copy

import numpy as np

from vf.refmodel import interp as I
from vf.workloads import programs as P

KEY_WIDTH = {"a": 1, "b": 1, "c": 2, "d": 1}


def _is_unitary_items(items):
    """unitary *and invertible through cirq.inverse* (what negative repetitions need): a user gate with only _unitary_ is not"""
    for it in items:
        if it["t"] in ("M", "C", "K", "CB"):
            return False
        if it["t"] == "U" and it["spec"].startswith("UnitaryOnly"):
            return False
        if it["t"] == "B" and not _is_unitary_items(it["body"]):
            return False
    return True


def _measures(items):
    for it in items:
        if it["t"] == "M":
            return True
        if it["t"] == "B" and it["reps"] != 0 and _measures(it["body"]):
            return True
    return False


def count_digits(items):
    tot = 0
    for it in items:
        if it["t"] == "M":
            tot += len(it["w"])
        elif it["t"] == "B":
            tot += abs(it["reps"]) * count_digits(it["body"])
    return tot


def gen_body(rng, n, depth, visible, budget, allow_measure=True, pred=None, cond_blocks=False, cond_index=False, meas_conf=False):
    """visible: set of key names measured earlier in enclosing scopes (bindable as extern).
    cond_blocks: also generate classically controlled blocks ("CB": a measurement-free CircuitOperation under
    with_classical_controls), controls inside measurement-free bodies, and key maps that rename control keys."""
    dims = (2,) * n
    items = []
    local = set()
    for _ in range(int(rng.integers(1, 6))):
        r = rng.random()
        if r < 0.22 and depth > 0:
            sub_allow = allow_measure and rng.random() < 0.7
            body = gen_body(rng, n, depth - 1, visible | local, budget, sub_allow, pred, cond_blocks, cond_index, meas_conf)
            unitary = _is_unitary_items(body)
            reps_choices = [0, 1, 2, 3, -1, -2] if unitary else [0, 1, 1, 2, 2, 3]
            reps = int(reps_choices[int(rng.integers(len(reps_choices)))])
            d = count_digits(body) * abs(reps)
            if d > budget[0]:
                reps = 1 if count_digits(body) <= budget[0] else 0
                d = count_digits(body) * abs(reps)
            budget[0] -= d
            blk = {"t": "B", "body": body, "reps": reps, "ids": None, "use_ids": None, "qmap": {}, "kmap": {}}
            mode = int(rng.integers(4))
            if mode == 1 and reps != 0:
                blk["ids"] = ["r%d" % i for i in range(abs(reps))] if rng.random() < 0.6 else ["x", "y", "z"][: abs(reps)]
            elif mode == 2:
                blk["use_ids"] = True
            elif mode == 3:
                blk["use_ids"] = False
                if rng.random() < 0.3 and reps != 0:
                    blk["ids"] = ["q%d" % i for i in range(abs(reps))]
            if rng.random() < 0.4:
                perm = [int(x) for x in rng.permutation(n)]
                blk["qmap"] = {w: perm[w] for w in range(n) if perm[w] != w}
            meas_inside = sorted(_local_measured_names(body))
            if meas_inside and rng.random() < 0.35:
                src = meas_inside[int(rng.integers(len(meas_inside)))]
                # rename a locally measured key to a fresh name of the same width that is used nowhere else
                cands = [k for k in KEY_WIDTH if KEY_WIDTH[k] == KEY_WIDTH[src] and k != src
                         and k not in visible and k not in local and not _name_used(body, k)]
                ext_refs = _extern_control_names(body)
                # (with cond_blocks also keys that the body controls on: measurement and controls are renamed together)
                if cands and (src not in ext_refs or (cond_blocks and rng.random() < 0.5)):
                    blk["kmap"] = {src: cands[0]}
            elif cond_blocks and rng.random() < 0.4:
                _rename_extern_control(rng, blk, body, visible | local)
            items.append(blk)
            if reps != 0 and (blk["use_ids"] is False or (blk["use_ids"] is None and blk["ids"] is None) or abs(reps) <= 1 and blk["ids"] is None):
                # measurements inside appear at this level under their (mapped) plain names
                for nm in _local_measured_names(body):
                    local.add(blk["kmap"].get(nm, nm))
        elif r < 0.42 and allow_measure and budget[0] > 0:
            name = ["a", "b", "c", "d"][int(rng.integers(4))]
            if cond_index and (visible | local) and rng.random() < 0.5:
                # measure an already measured key again, so that record indices other than -1 mean something
                again = sorted(visible | local)
                name = again[int(rng.integers(len(again)))]
            k = KEY_WIDTH[name]
            if k > n or budget[0] < k:
                continue
            wires = tuple(int(w) for w in rng.choice(n, size=k, replace=False))
            st = {"t": "M", "key": name, "w": wires}
            if rng.random() < 0.25:
                st["mask"] = tuple(bool(b) for b in rng.integers(0, 2, size=k))
            if meas_conf and rng.random() < 0.35:
                # a readout confusion map on some of the measured qubits (part of the gate, must survive every re-keying)
                sub = tuple(sorted(int(x) for x in rng.choice(k, size=int(rng.integers(1, k + 1)), replace=False)))
                st["conf"] = {sub: P._conf_matrix(rng, 2 ** len(sub))}
            budget[0] -= k
            items.append(st)
            local.add(name)
        elif r < 0.55 and (allow_measure or cond_blocks) and (visible | local):
            names = sorted(visible | local)
            name = names[int(rng.integers(len(names)))]
            inner = P.gen_unitary_step(rng, dims, pred, arity_w=(0.0, 0.7, 0.3, 0.0))
            cond = _gen_cond(rng, name, cond_index)
            items.append({"t": "C", "cond": cond, "inner": inner})
        elif cond_blocks and r < 0.65 and depth > 0 and (visible | local):
            # a classically controlled sub-circuit; Cirq refuses measurements below a classical control
            names = sorted(visible | local)
            name = names[int(rng.integers(len(names)))]
            body = gen_body(rng, n, depth - 1, visible | local, budget, False, pred, True, cond_index, meas_conf)
            blk = {"t": "B", "body": body, "reps": int([1, 1, 2, 3, 0][int(rng.integers(5))]), "ids": None, "use_ids": None, "qmap": {}, "kmap": {}}
            if rng.random() < 0.3:
                perm = [int(x) for x in rng.permutation(n)]
                blk["qmap"] = {w: perm[w] for w in range(n) if perm[w] != w}
            if rng.random() < 0.5:
                _rename_extern_control(rng, blk, body, visible | local)
            cond = _gen_cond(rng, name, cond_index)
            items.append({"t": "CB", "cond": cond, "blk": blk})
        else:
            items.append(P.gen_unitary_step(rng, dims, pred, arity_w=(0.03, 0.55, 0.37, 0.05)))
    return items


def _gen_cond(rng, name, cond_index):
    """a condition on key `name`; with cond_index also conditions that pick an earlier record of the key (index != -1)
    and bit-mask conditions.  Whether the index exists at run time is decided on the flat program (flat_index_errors)."""
    r = rng.random()
    if r < 0.3:
        return {"t": "sympy_eq", "key": name, "dims": (2,) * KEY_WIDTH[name], "const": int(rng.integers(0, 2 ** KEY_WIDTH[name]))}
    if not cond_index:
        return {"t": "key", "key": name, "index": -1}
    index = int([-1, -1, 0, 0, -2, 1][int(rng.integers(6))])
    if r < 0.55:
        k = KEY_WIDTH[name]
        bm = [None, None, 1, (1 << k) - 1, 1 << (k - 1), 2][int(rng.integers(6))]
        return {"t": "bitmask", "key": name, "index": index, "target_value": int(rng.integers(0, 2 ** k)),
                "equal_target": bool(rng.random() < 0.6), "bitmask": bm}
    return {"t": "key", "key": name, "index": index}


def _rename_extern_control(rng, blk, body, outer_visible):
    """key map entry that re-points a control key the body does not measure itself onto another visible key"""
    local = _all_measured_names(body)
    refs = sorted(k for k in _extern_control_names(body) if k not in local)
    if not refs:
        return
    src = refs[int(rng.integers(len(refs)))]
    # (merging two keys that a nested CircuitOperation both touches is a documented ValueError: the target must be unused inside)
    cands = sorted(k for k in outer_visible if KEY_WIDTH[k] == KEY_WIDTH[src] and k != src and k not in local and not _name_used(body, k))
    if cands:
        blk["kmap"] = {src: cands[int(rng.integers(len(cands)))]}


def _all_measured_names(items):
    out = set()
    for it in items:
        if it["t"] == "M":
            out.add(it["key"])
        elif it["t"] == "B":
            out |= _all_measured_names(it["body"]) | set(it["kmap"].values())
    return out


def _local_measured_names(items):
    out = set()
    for it in items:
        if it["t"] == "M":
            out.add(it["key"])
        elif it["t"] == "B" and it["reps"] != 0:
            eff_ids = _effective_ids(it)
            if eff_ids is None:
                for nm in _local_measured_names(it["body"]):
                    out.add(it["kmap"].get(nm, nm))
    return out


def _name_used(items, name):
    for it in items:
        if it["t"] == "M" and it["key"] == name:
            return True
        if it["t"] == "C" and it["cond"]["key"] == name:
            return True
        if it["t"] == "B" and (_name_used(it["body"], name) or name in it["kmap"].values()):
            return True
        if it["t"] == "CB" and (it["cond"]["key"] == name or _name_used([it["blk"]], name)):
            return True
    return False


def _extern_control_names(items):
    """names of control keys in this body (recursively) - conservatively all of them"""
    out = set()
    for it in items:
        if it["t"] == "C":
            out.add(it["cond"]["key"])
        elif it["t"] == "B":
            km = it["kmap"]
            out |= {km.get(k, k) for k in _extern_control_names(it["body"])}
        elif it["t"] == "CB":
            out.add(it["cond"]["key"])
            out |= _extern_control_names([it["blk"]])
    return out


def _effective_ids(blk):
    """repetition ids that prefix measurement keys, or None (documented constructor rules)"""
    use = blk["use_ids"]
    if use is None:
        use = blk["ids"] is not None
    if not use:
        return None
    if blk["ids"] is not None:
        return list(blk["ids"])
    r = abs(blk["reps"])
    return [str(i) for i in range(r)] if r > 1 else None


# ------------------------------------------------------------------ reference flattening
def flatten(items):
    """-> list of flat steps with *relative* keys (tuples of path + name); see module docstring."""
    out = []
    measured = set()
    for it in items:
        t = it["t"]
        if t in ("U", "K"):
            out.append({"t": t, "spec": it["spec"], "p": it["p"], "w": tuple(it["w"]), "inv": False})
        elif t == "M":
            key = (it["key"],)
            measured.add(key)
            out.append({"t": "M", "key": key, "w": tuple(it["w"]), "mask": it.get("mask", ()), "conf": it.get("conf")})
        elif t == "C":
            key = (it["cond"]["key"],)
            out.append({"t": "C", "ckey": key, "bound": key in measured, "cond": it["cond"],
                        "inner": {"t": "U", "spec": it["inner"]["spec"], "p": it["inner"]["p"], "w": tuple(it["inner"]["w"]), "inv": False}})
        elif t == "B":
            out += _flatten_block(it, measured)
        elif t == "CB":
            key = (it["cond"]["key"],)
            guard = {"ckey": key, "bound": key in measured, "cond": it["cond"]}
            inner = _flatten_block(it["blk"], measured)
            for s in inner:
                s.setdefault("guards", []).append(copy.deepcopy(guard))
                out.append(s)
            if not inner:
                # nothing to guard (zero repetitions inside), but Cirq still evaluates the condition: keep the reference
                # so that a control on an unmeasured key is seen as such
                out.append({"t": "N", "guards": [copy.deepcopy(guard)]})
        else:
            raise ValueError(t)
    return out


def _ctrl_refs(s):
    """the control references of a flat step: the step itself when it is a controlled step, plus its block guards"""
    return ([s] if s["t"] == "C" else []) + list(s.get("guards", ()))


def _flatten_block(it, measured):
    """flat steps of one block placed in a body where `measured` (updated in place) holds the keys measured so far"""
    out = []
    reps = it["reps"]
    if reps == 0:
        return out
    inner = flatten(it["body"])
    has_meas = any(s["t"] == "M" for s in inner)
    q = it["qmap"]
    mapped = []
    for s in inner:
        s = copy.deepcopy(s)
        if "w" in s:
            s["w"] = tuple(q.get(w, w) for w in s["w"])
        if s["t"] == "C":
            s["inner"]["w"] = tuple(q.get(w, w) for w in s["inner"]["w"])
        mapped.append(s)
    if reps < 0:
        mapped = [dict(s, inv=not s["inv"]) for s in reversed(mapped)]
    km = it["kmap"]
    for s in mapped:
        if s["t"] == "M":
            s["key"] = s["key"][:-1] + (km.get(s["key"][-1], s["key"][-1]),)
        for c in _ctrl_refs(s):
            c["ckey"] = c["ckey"][:-1] + (km.get(c["ckey"][-1], c["ckey"][-1]),)
    ids = _effective_ids(it) if has_meas else None
    # Scoping is static: a control that is not bound inside the body can only bind to keys measured
    # *before this block* in the enclosing body (the block's extern keys), never to a measurement made
    # by an earlier repetition of the same block.
    measured_before_block = set(measured)
    for i in range(abs(reps)):
        prefix = (ids[i],) if ids is not None else ()
        for s in mapped:
            s = copy.deepcopy(s)
            if s["t"] == "M":
                s["key"] = prefix + s["key"]
                measured.add(s["key"])
            for c in _ctrl_refs(s):
                if c["bound"]:
                    c["ckey"] = prefix + c["ckey"]
                else:
                    c["bound"] = c["ckey"] in measured_before_block
            out.append(s)
    return out


def keystr(key):
    return ":".join(key)


def flat_to_ref(flat):
    steps = []
    for s in flat:
        if s["t"] == "U":
            spec = P.spec_by_name(s["spec"])
            m = np.asarray(spec.ref(s["p"]), dtype=complex)
            steps.append(I.U(m.conj().T if s["inv"] else m, s["w"]))
        elif s["t"] == "M":
            steps.append(I.M(keystr(s["key"]), s["w"], s["mask"], s.get("conf")))
        elif s["t"] == "C":
            spec = P.spec_by_name(s["inner"]["spec"])
            m = np.asarray(spec.ref(s["inner"]["p"]), dtype=complex)
            cond = dict(s["cond"])
            cond["key"] = keystr(s["ckey"])
            steps.append(I.If(P.key_cond_fn(cond), I.U(m.conj().T if s["inner"]["inv"] else m, s["inner"]["w"])))
        elif s["t"] == "N":
            continue  # a guarded empty body: no effect on a program whose controls are all bound
        else:
            raise ValueError(s["t"])
        for g in s.get("guards", ()):
            cond = dict(g["cond"])
            cond["key"] = keystr(g["ckey"])
            steps[-1] = I.If(P.key_cond_fn(cond), steps[-1])
    return steps


def flat_keys(flat):
    return sorted({keystr(s["key"]) for s in flat if s["t"] == "M"})


def flat_unbound_controls(flat):
    return sorted({keystr(c["ckey"]) for s in flat for c in _ctrl_refs(s) if not c["bound"]})


def flat_index_errors(flat):
    """control references whose record index does not exist when the step runs (measurements are never themselves
    classically controlled in these programs, so the number of records of a key before a step is static)"""
    bad = []
    count = {}
    for s in flat:
        for c in _ctrl_refs(s):
            idx = c["cond"].get("index", -1)
            have = count.get(keystr(c["ckey"]), 0)
            if (idx >= 0 and idx >= have) or (idx < 0 and -idx > have):
                bad.append((keystr(c["ckey"]), idx, have))
        if s["t"] == "M":
            count[keystr(s["key"])] = count.get(keystr(s["key"]), 0) + 1
    return bad


def flat_indexed_controls(flat):
    """number of control references that read a record other than the latest one of their key"""
    n = 0
    count = {}
    for s in flat:
        for c in _ctrl_refs(s):
            idx = c["cond"].get("index", -1)
            have = count.get(keystr(c["ckey"]), 0)
            if have >= 2 and idx not in (-1, have - 1):
                n += 1
        if s["t"] == "M":
            count[keystr(s["key"])] = count.get(keystr(s["key"]), 0) + 1
    return n


def flat_control_keys(flat):
    return sorted({keystr(c["ckey"]) for s in flat for c in _ctrl_refs(s)})


# ------------------------------------------------------------------ Cirq construction
def item_to_op(it, qubits):
    import cirq

    if it.get("tags"):
        return item_to_op({k: v for k, v in it.items() if k != "tags"}, qubits).with_tags(*it["tags"])
    if it["t"] == "CB":
        return item_to_op(it["blk"], qubits).with_classical_controls(P.cirq_cond(it["cond"]))
    if it["t"] != "B":
        return P.step_to_op(it, qubits)
    moments = items_to_moments(it["body"], qubits)
    kw = {}
    if it["reps"] != 1 or True:
        kw["repetitions"] = it["reps"]
    if it["qmap"]:
        kw["qubit_map"] = {qubits[a]: qubits[b] for a, b in it["qmap"].items()}
    if it["kmap"]:
        kw["measurement_key_map"] = dict(it["kmap"])
    if it["ids"] is not None:
        kw["repetition_ids"] = list(it["ids"])
    if it["use_ids"] is not None:
        kw["use_repetition_ids"] = it["use_ids"]
    return cirq.CircuitOperation(cirq.FrozenCircuit(moments), **kw)


def add_tags(rng, items, p=0.25):
    """tags (which carry no meaning) on operations at every depth, sub-circuits and controlled sub-circuits included"""
    for it in items:
        if rng.random() < p:
            it["tags"] = tuple(["tag-a", "tag-b", 7][int(i)] for i in rng.choice(3, size=int(rng.integers(1, 3)), replace=False))
        if it["t"] == "B":
            add_tags(rng, it["body"], p)
        elif it["t"] == "CB":
            add_tags(rng, it["blk"]["body"], p)


def item_qubits_keys(it):
    if it["t"] == "CB":
        ws, ks = item_qubits_keys(it["blk"])
        return ws, ks | {it["cond"]["key"]}
    if it["t"] != "B":
        return P.step_qubits_keys(it)
    ws, ks = set(), set()
    for sub in it["body"]:
        w, k = item_qubits_keys(sub)
        ws |= w
        ks |= k
    ws = {it["qmap"].get(w, w) for w in ws}
    ks = {it["kmap"].get(k, k) for k in ks} | ks
    return ws, ks


def items_to_moments(items, qubits):
    import cirq

    moments, cur, used_q, used_k = [], [], set(), set()
    for it in items:
        w, keys = item_qubits_keys(it)
        if (w & used_q or keys & used_k or it["t"] in ("B", "CB")) and cur:
            moments.append(cirq.Moment(cur))
            cur, used_q, used_k = [], set(), set()
        cur.append(item_to_op(it, qubits))
        used_q |= w
        used_k |= keys
        if it["t"] in ("B", "CB"):
            moments.append(cirq.Moment(cur))
            cur, used_q, used_k = [], set(), set()
    if cur:
        moments.append(cirq.Moment(cur))
    return moments


def describe(items, ind=0):
    out = []
    for it in items:
        if it["t"] == "CB":
            out.append("%sIF(%s) controls:" % ("  " * ind, {k: v for k, v in it["cond"].items() if k != "dims"}))
            out += describe([it["blk"]], ind + 1)
        elif it["t"] == "B":
            out.append("%sBLOCK reps=%s ids=%s use_ids=%s qmap=%s kmap=%s {" % ("  " * ind, it["reps"], it["ids"], it["use_ids"], it["qmap"], it["kmap"]))
            out += describe(it["body"], ind + 1)
            out.append("  " * ind + "}")
        else:
            out.append("  " * ind + P.describe([it])[0] + (" tags=%r" % (it["tags"],) if it.get("tags") else ""))
    return out
