"""Seeded generators of matrices for the decomposition checks (C15).  numpy only.

Haar-random inputs plus the measure-zero set: named gates and their local
conjugates, Weyl-chamber vertices / edges / faces, degenerate and nearly
degenerate spectra, inputs within a few `atol` of a lower-count class, real
(special-orthogonal), diagonal and permutation inputs."""
from __future__ import annotations

import itertools
import math

import numpy as np

from vf.refmodel import linalg as L
from vf.refmodel import weyl as W

PI4 = math.pi / 4
GAPS = [1e-3, 1e-4, 1e-5, 1e-6, 1e-7, 1e-8, 1e-9, 1e-10, 1e-11, 1e-12]
PHASES = [1, -1, 1j, -1j, np.exp(0.25j * math.pi), np.exp(1j), np.exp(-2.5j)]


def pick_phase(rng):
    r = rng.random()
    if r < 0.4:
        return 1.0 + 0j
    if r < 0.7:
        return complex(PHASES[int(rng.integers(len(PHASES)))])
    return complex(np.exp(1j * rng.uniform(-math.pi, math.pi)))


def _t(rng):
    """a parameter in (0, 1): special fractions or uniform."""
    if rng.random() < 0.4:
        return float([0.5, 0.25, 0.75, 1 / 3, 2 / 3, 0.125, 0.9, 0.1][int(rng.integers(8))])
    return float(rng.uniform(0.02, 0.98))


def weyl_vertex(rng):
    names = list(W.VERTICES)
    n = names[int(rng.integers(len(names)))]
    return "vertex:" + n, np.array(W.VERTICES[n], dtype=float) * PI4


def weyl_edge(rng):
    t = _t(rng)
    edges = {
        "I-CZ": (t, 0, 0), "CZ-ISWAP": (1, t, 0), "I-ISWAP": (t, t, 0), "I-SWAP": (t, t, t), "I-SWAPdag": (t, t, -t),
        "ISWAP-SWAP": (1, 1, t), "CZ-SWAP": (1, t, t), "SQISW-edge": (0.5 + t / 2, 0.5 - t / 2, 0),
    }
    k = list(edges)[int(rng.integers(len(edges)))]
    return "edge:" + k, np.array(edges[k], dtype=float) * PI4


def weyl_face(rng):
    a, b, c = sorted([_t(rng), _t(rng), _t(rng)], reverse=True)
    s = 1 if rng.random() < 0.5 else -1
    faces = {
        "z=0": (a, b, 0), "x=pi/4": (1, a, b), "y=|z|": (a, b, s * b), "x=y": (a, a, s * c),
        "x=y+|z|": (0, 0, 0),  # filled in below (the sqrt-iSWAP 2/3 boundary)
    }
    k = list(faces)[int(rng.integers(len(faces)))]
    v = np.array(faces[k], dtype=float)
    if k == "x=y+|z|":  # x = y + |z| with y >= |z|
        y, z = max(b, c) / 2, s * min(b, c) / 2
        v = np.array([y + abs(z), y, z])
        if v[0] > 1:
            v = v / v[0]
    return "face:" + k, v * PI4


def noncanonical(rng, v):
    """An equivalent-by-local-operations but non-canonical coordinate vector."""
    v = np.array(v, dtype=float)
    v = v[rng.permutation(3)]
    if rng.random() < 0.5:
        i, j = rng.choice(3, size=2, replace=False)
        v[i], v[j] = -v[i], -v[j]
    v = v + (math.pi / 2) * rng.integers(-2, 3, size=3)
    return v


def gen_two_qubit(rng, case, atol=1e-8):
    """Returns (u, info): info has kind, label, intended coordinates (may be None), perturbation size."""
    kind = case % 10
    info = {"kind": kind, "label": "", "delta": 0.0}
    local_style = [None, "haar", "clifford", "id", "z"][int(rng.integers(5))]
    k1, k2 = W.local_pair(rng, local_style), W.local_pair(rng, local_style)
    if kind == 0:
        info["label"] = "haar"
        return L.haar_unitary(rng, 4), info
    if kind == 1:
        n = W.NAMED[(case // 10) % len(W.NAMED)]
        info["label"] = "named:" + n
        return W.named_gate(n) * pick_phase(rng), info
    if kind == 2:
        n = W.NAMED[(case // 10) % len(W.NAMED)]
        info["label"] = "local-conjugate:" + n
        return k1 @ W.named_gate(n) @ k2 * pick_phase(rng), info
    if kind in (3, 4, 5):
        label, v = (weyl_vertex, weyl_edge, weyl_face)[kind - 3](rng)
        if rng.random() < 0.3:
            v = noncanonical(rng, v)
            label += ":noncanonical"
        info["label"] = label
        return k1 @ W.interaction(*v) @ k2 * pick_phase(rng), info
    if kind in (6, 7):
        label, v = (weyl_vertex, weyl_edge, weyl_face)[int(rng.integers(3))](rng)
        if kind == 6:
            delta = atol * [0.1, 1.0, 10.0, 0.5, 2.0][(case // 10) % 5]
        else:
            delta = GAPS[(case // 10) % len(GAPS)]
        direction = rng.standard_normal(3)
        if rng.random() < 0.5:  # move along a single coordinate
            direction = np.eye(3)[int(rng.integers(3))] * (1 if rng.random() < 0.5 else -1)
        direction = direction / np.abs(direction).max()
        v = v + delta * direction
        info["label"] = "%s%s" % ("near-class:" if kind == 6 else "near-degenerate:", label)
        info["delta"] = float(delta)
        u = k1 @ W.interaction(*v) @ k2 * pick_phase(rng)
        if rng.random() < 0.3:  # also perturb a local factor slightly
            h = W.haar_su2(rng)
            u = np.kron(L.expm_herm(h @ W.Z @ h.conj().T, 1j * delta), W.I2) @ u
        return u, info
    if kind == 8:
        sub = (case // 10) % 6
        if sub == 0:  # real special orthogonal: Mag^H (a (x) b) Mag
            o = np.real(W.MAGIC_H @ np.kron(W.haar_su2(rng), W.haar_su2(rng)) @ W.MAGIC)
            info["label"] = "SO(4)"
            return o.astype(complex), info
        if sub == 1:  # real orthogonal, generic (det +-1)
            q, r = np.linalg.qr(rng.standard_normal((4, 4)))
            info["label"] = "O(4)"
            return (q * np.sign(np.diag(r))).astype(complex), info
        if sub == 2:
            d = np.exp(1j * rng.uniform(-math.pi, math.pi, 4))
            if rng.random() < 0.5:
                d = np.array([1, -1, 1j, -1j, np.exp(0.25j * math.pi)])[rng.integers(5, size=4)]
            info["label"] = "diagonal"
            return np.diag(d).astype(complex), info
        if sub == 3:
            p = np.eye(4)[rng.permutation(4)]
            sg = np.array([1, -1, 1j, -1j])[rng.integers(4, size=4)]
            info["label"] = "phased-permutation"
            return (p * sg).astype(complex), info
        if sub == 4:
            info["label"] = "local-only"
            return k1 * pick_phase(rng), info
        th = rng.uniform(-math.pi, math.pi)
        c, s = math.cos(th), math.sin(th)
        g = np.eye(4, dtype=complex)
        g[1:3, 1:3] = [[c, -s], [s, c]]
        info["label"] = "givens"
        return g, info
    # kind 9: random, far-from-canonical coordinates
    v = rng.uniform(-3 * math.pi, 3 * math.pi, 3)
    if rng.random() < 0.5:
        v = PI4 * rng.integers(-8, 9, size=3).astype(float) + (rng.random() < 0.5) * rng.uniform(-1, 1, 3) * 1e-9
    info["label"] = "noncanonical-coordinates"
    return k1 @ W.interaction(*v) @ k2 * pick_phase(rng), info


# --------------------------------------------------------------------------- single qubit
def gen_one_qubit(rng, case):
    kind = case % 8
    ph = pick_phase(rng)
    if kind == 0:
        if rng.random() < 0.3:
            t = float(rng.uniform(-math.pi, math.pi))
            c, s_ = math.cos(t), math.sin(t)
            refl = rng.random() < 0.3
            return np.array([[c, s_ if refl else -s_], [s_, -c if refl else c]]), "real-dtype:rotation"  # float64 input
        return L.haar_unitary(rng, 2), "haar"
    if kind == 1:
        m = W.CLIFFORD_1Q[(case // 8) % len(W.CLIFFORD_1Q)]
        return m * ph, "clifford"
    if kind == 2:  # axis rotations by special angles
        t = [0.0, 0.5, -0.5, 1.0, 0.25, 1e-9, 1 - 1e-9, 1.5, 2.0, 1 / 3][(case // 8) % 10]
        P = [W.X, W.Y, W.Z][int(rng.integers(3))]
        return L.expm_herm(P, -0.5j * math.pi * t) * ph, "pauli-rotation"
    if kind == 3:  # near identity / near a Pauli
        eps = GAPS[(case // 8) % len(GAPS)]
        h = W.haar_su2(rng)
        base = [W.I2, W.X, W.Y, W.Z, W.H][int(rng.integers(5))]
        return L.expm_herm(h @ W.Z @ h.conj().T, 1j * eps) @ base * ph, "near-special"
    if kind == 4:
        return np.diag([1, np.exp(1j * rng.uniform(-math.pi, math.pi))]).astype(complex) * ph, "diagonal"
    if kind == 5:
        th = rng.uniform(-math.pi, math.pi)
        return np.array([[math.cos(th), -math.sin(th)], [math.sin(th), math.cos(th)]], dtype=complex), "real-rotation"
    if kind == 6:
        a = np.exp(1j * rng.uniform(-math.pi, math.pi))
        return np.array([[0, a], [np.conj(a) * ph, 0]], dtype=complex), "anti-diagonal"
    a, b = W.CLIFFORD_1Q[int(rng.integers(len(W.CLIFFORD_1Q)))], W.CLIFFORD_1Q[int(rng.integers(len(W.CLIFFORD_1Q)))]
    t = _t(rng) * 2
    return a @ np.diag([1, np.exp(1j * math.pi * t)]) @ b * ph, "clifford-conjugated-phase"


# --------------------------------------------------------------------------- normal matrices with chosen spectra
def frame(rng, d):
    r = rng.random()
    if r < 0.55:
        return L.haar_unitary(rng, d)
    if r < 0.75:
        q, rr = np.linalg.qr(rng.standard_normal((d, d)))
        return (q * np.sign(np.diag(rr))).astype(complex)
    if r < 0.85:
        return np.eye(d, dtype=complex)
    return np.eye(d, dtype=complex)[rng.permutation(d)]


def degenerate_values(rng, d, unit=True, real=False):
    """d values with repeated and nearly-repeated entries."""
    ngroups = int(rng.integers(1, d + 1))
    centers = rng.uniform(-math.pi, math.pi, ngroups)
    if rng.random() < 0.3:
        centers = np.array([0, math.pi, math.pi / 2, -math.pi / 2, math.pi / 4])[rng.integers(5, size=ngroups)]
    idx = np.sort(rng.integers(ngroups, size=d))
    vals = centers[idx].astype(float)
    if rng.random() < 0.6:
        gap = GAPS[int(rng.integers(len(GAPS)))]
        vals = vals + gap * rng.uniform(-1, 1, d) * (rng.random(d) < 0.6)
    if real:
        return vals
    if unit:
        return np.exp(1j * vals)
    return vals * np.exp(1j * rng.uniform(-math.pi, math.pi, d)[idx])


def gen_normal(rng, case):
    d = [2, 4, 3, 8, 4, 2][case % 6]
    flavour = ["unitary", "hermitian", "normal", "real-orthogonal"][(case // 6) % 4]
    if flavour == "real-orthogonal":
        # a normal matrix handed over in a real dtype (float64, or int for signed permutations): its eigenvalues are
        # still complex in general
        o = random_orthogonal(rng, d)
        if rng.random() < 0.3 and d >= 2:
            o = np.roll(np.eye(d), int(rng.integers(1, d)), axis=0)  # a cyclic shift
        if np.all(o == np.round(o)) and rng.random() < 0.5:
            o = o.astype(int)
        return o, flavour, d
    v = frame(rng, d)
    if flavour == "unitary":
        lam = degenerate_values(rng, d, unit=True)
    elif flavour == "hermitian":
        lam = degenerate_values(rng, d, real=True).astype(complex)
    else:
        lam = degenerate_values(rng, d, unit=False)
    return (v * lam) @ v.conj().T, flavour, d


def random_orthogonal(rng, d):
    if d == 0:
        return np.zeros((0, 0))
    q, r = np.linalg.qr(rng.standard_normal((d, d)))
    q = q * np.sign(np.diag(r))
    r2 = rng.random()
    if r2 < 0.15:
        return np.eye(d)
    if r2 < 0.3:
        return np.eye(d)[rng.permutation(d)] * rng.choice([-1.0, 1.0], size=d)
    return q


def gen_real_pair(rng, case):
    """mat1 = A D1 B, mat2 = A D2 B with A, B orthogonal and D1, D2 real diagonal (so both products are symmetric)."""
    d = [1, 2, 3, 4, 4, 5][case % 6]
    a, b = random_orthogonal(rng, d), random_orthogonal(rng, d)
    style = (case // 6) % 5
    d1 = rng.uniform(-2, 2, d)
    d2 = rng.uniform(-2, 2, d)
    if style == 1:  # repeated |singular values| of mat1
        d1 = rng.choice([1.0, -1.0, 0.5], size=d)
    elif style == 2:  # rank deficient mat1
        d1[rng.random(d) < 0.5] = 0.0
    elif style == 3:  # nearly repeated
        d1 = 1.0 + GAPS[int(rng.integers(len(GAPS)))] * rng.uniform(-1, 1, d)
    elif style == 4:  # cos / sin of a unitary's phases (the KAK use)
        ph = degenerate_values(rng, d, real=True)
        d1, d2 = np.cos(ph), np.sin(ph)
    return a @ np.diag(d1) @ b, a @ np.diag(d2) @ b, style, d


def gen_sym_and_sorted_diag(rng, case):
    d = [1, 2, 3, 4, 5, 4][case % 6]
    ngroups = int(rng.integers(1, d + 1))
    sizes = np.ones(ngroups, dtype=int)
    for _ in range(d - ngroups):
        sizes[int(rng.integers(ngroups))] += 1
    centers = np.sort(rng.uniform(-3, 3, ngroups))[::-1]
    if rng.random() < 0.3:
        centers = np.sort(rng.choice([0.0, 1.0, -1.0, 2.0, 0.5, -0.5, 3.0], size=ngroups, replace=False))[::-1]
    diag, sym = [], np.zeros((d, d))
    pos = 0
    for g, sz in enumerate(sizes):
        vals = np.full(sz, centers[g])
        if rng.random() < 0.4 and sz > 1:  # nearly equal inside the group, still sorted descending
            vals = vals - np.sort(rng.uniform(0, 1, sz)) * 1e-10 * max(1.0, abs(centers[g]))
        diag.extend(vals)
        blk = rng.standard_normal((sz, sz))
        blk = (blk + blk.T) / 2
        if rng.random() < 0.3:
            o = random_orthogonal(rng, sz)
            blk = o @ np.diag(rng.choice([1.0, -1.0, 0.0], size=sz)) @ o.T
        sym[pos:pos + sz, pos:pos + sz] = blk
        pos += sz
    return sym, np.diag(np.array(diag, dtype=float)), d


# --------------------------------------------------------------------------- n-qubit unitaries
def gen_n_qubit(rng, case, n):
    D = 2 ** n
    kind = case % 8
    if kind in (0, 1):
        return L.haar_unitary(rng, D), "haar"
    if kind == 2:
        return np.eye(D, dtype=complex) * pick_phase(rng), "identity"
    if kind == 3:
        return np.diag(np.exp(1j * rng.uniform(-math.pi, math.pi, D))).astype(complex), "diagonal"
    if kind == 4:
        r = rng.random()
        if r < 0.35:
            return np.roll(np.eye(D), int(rng.integers(1, D)), axis=0), "real-dtype:cyclic-shift"  # float64 input
        if r < 0.6:
            return random_orthogonal(rng, D), "real-dtype:orthogonal"  # float64 input with complex eigenvalues
        return np.eye(D, dtype=complex)[rng.permutation(D)], "permutation"
    if kind == 5:
        ms = [L.haar_unitary(rng, 2) for _ in range(n)]
        return L.kron(*ms), "product"
    if kind == 6:  # multi-controlled single-qubit unitary, or a 2q gate (x) identities
        if rng.random() < 0.5:
            return L.controlled(L.haar_unitary(rng, 2), [2] * (n - 1), [(1,) * (n - 1)]), "multi-controlled"
        u = L.embed(L.haar_unitary(rng, 4), list(rng.choice(n, size=2, replace=False)), [2] * n) if n >= 2 else L.haar_unitary(rng, D)
        return u, "embedded-2q"
    q, r = np.linalg.qr(rng.standard_normal((D, D)))
    return (q * np.sign(np.diag(r))).astype(complex), "real-orthogonal"


def gen_state(rng, case):
    """A normalised two-qubit state and its smaller Schmidt coefficient."""
    kind = case % 6
    a, b = L.haar_unitary(rng, 2), L.haar_unitary(rng, 2)
    if kind == 0:
        psi = L.random_state(rng, 4)
    else:
        if kind == 1:
            s1 = 0.0
        elif kind == 2:
            s1 = 1 / math.sqrt(2)
        elif kind == 3:
            s1 = float(rng.uniform(0.05, 0.7))
        elif kind == 4:
            s1 = float([1e-2, 3e-2, 0.1, 0.2, 3e-3, 1e-3, 1e-4, 1e-7, 1e-9][(case // 6) % 9])
        else:
            basis = np.eye(4)[(case // 6) % 4]
            return basis.astype(complex) * pick_phase(rng), 0.0
        s0 = math.sqrt(1 - s1 * s1)
        m = a @ np.diag([s0, s1]) @ b
        if rng.random() < 0.3:
            m = np.diag([s0, s1]).astype(complex)
        psi = m.reshape(4) * pick_phase(rng)
    sv = np.linalg.svd(psi.reshape(2, 2), compute_uv=False)
    return psi / np.linalg.norm(psi), float(sv[1])
