"""Value generators for C11 (JSON / repr / hash / pickle round trips).

Three sources of values:
  (a) typed generators   - `build_generators()` -> list of (name, fn(rng) -> Val)
  (b) repr-literal mutation of the stored examples - `mutate_repr(text, rng)`
  (c) composition        - `compose(rng, gens)` nests (a)-values in lists / dicts /
                           circuits / CircuitOperations to depth 3, with shared FrozenCircuits.

Only public constructors are used.  A `Val` carries, besides the object, the
generator's own description (gate-pool spec + parameters) so that the driver
can compare the round-tripped copy with the closed-form catalogue instead of
with Cirq's own idea of the value.
"""
from __future__ import annotations

import datetime
import io
import math
import tokenize

import numpy as np

from vf.workloads import gatepool as GP


class Val:
    __slots__ = ("obj", "gen", "spec", "params", "kind", "info")

    def __init__(self, obj, gen="", spec=None, params=None, kind="value", info=None):
        self.obj, self.gen, self.spec, self.params, self.kind, self.info = obj, gen, spec, params, kind, info


def namespace():
    """The namespace in which Cirq's stored `.repr` files are evaluated."""
    import cirq
    import networkx as nx
    import pandas as pd
    import sympy
    ns = {"cirq": cirq, "pd": pd, "sympy": sympy, "np": np, "datetime": datetime, "nx": nx}
    for m in ("cirq_google", "cirq_ionq", "cirq_aqt", "cirq_pasqal"):
        try:
            ns[m] = __import__(m)
        except ImportError:
            pass
    return ns


# ------------------------------------------------------------------ small pickers
NAMES = ["a", "b", "m", "q0", "key", "x_1", "out", "theta", "a b", "it's", "θ", "A", "0", "m2"]
KEYNAMES = ["a", "b", "m", "k0", "out", "x_1", "a b", "θ", "0"]
FLOATS = [0.0, 0.25, -0.25, 0.5, -0.5, 1.0, -1.0, 1.5, 2.0, 1e-9, 0.1, 1 / 3, 0.625, 3.0, 1e-3, 123.456]


def pick(rng, seq):
    return seq[int(rng.integers(len(seq)))]


def rfloat(rng):
    if rng.random() < 0.5:
        return float(pick(rng, FLOATS))
    return float(rng.uniform(-4, 4))


def rprob(rng):
    return float(pick(rng, [0.0, 1.0, 0.5, 0.1, 0.25, 1e-3])) if rng.random() < 0.4 else float(rng.uniform(0, 1))


def rname(rng):
    return pick(rng, NAMES)


def rkeyname(rng):
    return pick(rng, KEYNAMES)


def rbool(rng):
    return bool(rng.integers(2))


# ------------------------------------------------------------------ sympy
def rsymbol(rng):
    import sympy
    return sympy.Symbol(pick(rng, ["t", "s", "theta", "x0", "a", "b"]))


def rexpr(rng, depth=0):
    import sympy
    t = rsymbol(rng)
    k = int(rng.integers(9 if depth < 2 else 4))
    if k == 0:
        return t
    if k == 1:
        return t + pick(rng, [1, 2, -3])
    if k == 2:
        return pick(rng, [2, 3, -1]) * t
    if k == 3:
        return t * rsymbol(rng) + 1
    if k == 4:
        return rexpr(rng, depth + 1) ** 2
    if k == 5:
        return rexpr(rng, depth + 1) + rexpr(rng, depth + 1)
    if k == 6:
        return sympy.Rational(int(rng.integers(1, 5)), int(rng.integers(2, 7))) * t
    if k == 7:
        return t * sympy.pi
    return pick(rng, [0.5, 0.25, 1.5]) * t


def rparamval(rng):
    """A gate parameter: mostly floats, sometimes a symbol / expression."""
    r = rng.random()
    if r < 0.7:
        return rfloat(rng)
    if r < 0.85:
        return rsymbol(rng)
    return rexpr(rng)


# ------------------------------------------------------------------ qubits
def q_line(rng):
    import cirq
    return cirq.LineQubit(int(rng.integers(-3, 12)))


def q_grid(rng):
    import cirq
    return cirq.GridQubit(int(rng.integers(-2, 8)), int(rng.integers(-2, 8)))


def q_named(rng):
    import cirq
    return cirq.NamedQubit(rname(rng))


def q_lineqid(rng, d=None):
    import cirq
    return cirq.LineQid(int(rng.integers(-3, 12)), dimension=d or int(rng.integers(2, 6)))


def q_gridqid(rng, d=None):
    import cirq
    return cirq.GridQid(int(rng.integers(-2, 8)), int(rng.integers(-2, 8)), dimension=d or int(rng.integers(2, 6)))


def q_namedqid(rng, d=None):
    import cirq
    return cirq.NamedQid(rname(rng), dimension=d or int(rng.integers(2, 6)))


def q_3d(rng):
    import cirq_pasqal
    c = [0.0, 0.5, 1.0, 1.5, 2.0, -1.0, 3.25]
    return cirq_pasqal.ThreeDQubit(pick(rng, c), pick(rng, c), pick(rng, c))


def q_2d(rng):
    import cirq_pasqal
    c = [0.0, 0.5, 1.0, 1.5, 2.0, -1.0, 3.25]
    return cirq_pasqal.TwoDQubit(pick(rng, c), pick(rng, c))


def q_asqid(rng):
    """_QubitAsQid: a generic Qid subclass re-dimensioned."""
    return q_3d(rng).with_dimension(int(rng.integers(2, 5)))


def q_coupler(rng):
    import cirq
    import cirq_google
    r, c = int(rng.integers(0, 6)), int(rng.integers(0, 6))
    if rbool(rng):
        return cirq_google.Coupler(cirq.GridQubit(r, c), cirq.GridQubit(r + 1, c))
    return cirq_google.Coupler(cirq.GridQubit(r, c + 1), cirq.GridQubit(r, c))


QUBIT_KINDS = [q_line, q_grid, q_named]
QID_KINDS = [q_lineqid, q_gridqid, q_namedqid]


def any_qid(rng):
    r = rng.random()
    if r < 0.55:
        return pick(rng, QUBIT_KINDS)(rng)
    if r < 0.85:
        return pick(rng, QID_KINDS)(rng)
    if r < 0.9:
        return q_3d(rng)
    if r < 0.94:
        return q_2d(rng)
    if r < 0.97:
        return q_asqid(rng)
    return q_coupler(rng)


def qids_for(rng, shape):
    """Distinct qids with the given dimensions, of mixed kinds."""
    out, seen = [], set()
    for d in shape:
        for _ in range(50):
            if d == 2 and rng.random() < 0.8:
                q = pick(rng, QUBIT_KINDS)(rng)
            else:
                q = pick(rng, QID_KINDS)(rng, d)
            k = repr(q)
            # also avoid a qubit and a qid with the same coordinates (same comparison key)
            base = _qkey(q)
            if base not in seen:
                seen.add(base)
                out.append(q)
                break
        else:
            raise RuntimeError("could not draw distinct qubits")
    return out


def _qkey(q):
    """Identity of a qid up to its dimension / Qid-vs-Qubit flavour (LineQid(1, 2) == LineQubit(1))."""
    k = repr(q).replace("LineQid", "LineQubit").replace("GridQid", "GridQubit").replace("NamedQid", "NamedQubit")
    return k.split(", dimension")[0].rstrip(")")


def line_qubits(rng, n):
    import cirq
    xs = rng.choice(12, size=n, replace=False)
    return [cirq.LineQubit(int(x)) for x in xs]


def grid_qubits(rng, n):
    import cirq
    cells = rng.choice(16, size=n, replace=False)
    return [cirq.GridQubit(int(c) // 4, int(c) % 4) for c in cells]


# ------------------------------------------------------------------ keys / conditions / tags
def meas_key(rng):
    import cirq
    r = rng.random()
    if r < 0.6:
        return cirq.MeasurementKey(rkeyname(rng))
    path = tuple(pick(rng, ["0", "1", "p", "sub", "r2"]) for _ in range(int(rng.integers(1, 4))))
    return cirq.MeasurementKey(rkeyname(rng), path)


def condition(rng):
    import cirq
    import sympy
    k = int(rng.integers(8))
    if k == 0:
        return cirq.KeyCondition(meas_key(rng))
    if k == 1:
        return cirq.KeyCondition(meas_key(rng), index=int(pick(rng, [0, 1, 2, -2, 5])))
    if k == 2:
        return cirq.BitMaskKeyCondition(rkeyname(rng), index=int(pick(rng, [-1, 0, 1])),
                                        target_value=int(rng.integers(0, 8)), equal_target=rbool(rng),
                                        bitmask=(None if rbool(rng) else int(rng.integers(1, 16))))
    if k == 3:
        return pick(rng, [cirq.BitMaskKeyCondition.create_equal_mask, cirq.BitMaskKeyCondition.create_not_equal_mask])(
            cirq.MeasurementKey(rkeyname(rng)), int(rng.integers(1, 8)))
    a, b = sympy.Symbol(pick(rng, ["a", "b", "m"])), sympy.Symbol(pick(rng, ["k0", "out", "x_1"]))
    if k == 4:
        return cirq.SympyCondition(a > int(rng.integers(0, 3)))
    if k == 5:
        return cirq.SympyCondition(sympy.Eq(a, int(rng.integers(0, 4))))
    if k == 6:
        return cirq.SympyCondition(pick(rng, [a >= b, a < b, sympy.Ne(a, b), a <= 2 * b + 1]))
    return cirq.SympyCondition(pick(rng, [sympy.And(a > 0, b > 0), sympy.Or(a > 1, b < 1), sympy.Xor(a > 0, b > 0),
                                          sympy.Not(a > 0)]))


def tag(rng):
    import cirq
    import cirq_google
    k = int(rng.integers(12))
    if k == 0:
        return rname(rng)
    if k == 1:
        return int(rng.integers(-5, 100))
    if k == 2:
        return cirq.VirtualTag()
    if k == 3:
        return cirq.RoutingSwapTag()
    if k == 4:
        return cirq_google.PhysicalZTag()
    if k == 5:
        return cirq_google.CalibrationTag(rname(rng))
    if k == 6:
        return cirq_google.FSimViaModelTag()
    if k == 7:
        return cirq_google.InternalTag(name=rname(rng), package="internal.module", phase_match=rbool(rng),
                                       pad_ns=rfloat(rng))
    if k == 8:
        return cirq_google.CompressDurationTag()
    if k == 9:
        return cirq_google.TwoPulseFSimTag()
    if k == 10:
        return rfloat(rng)
    return cirq.Duration(nanos=int(rng.integers(1, 50)))


def tags(rng, lo=1, hi=3):
    out, seen = [], set()
    for _ in range(int(rng.integers(lo, hi + 1))):
        t = tag(rng)
        if repr(t) not in seen:
            seen.add(repr(t))
            out.append(t)
    return out


def _shuffled_dict(rng, d):
    items = list(d.items())
    return {items[i][0]: items[i][1] for i in rng.permutation(len(items))} if items else {}


# ------------------------------------------------------------------ gates
_SPECS = {}


def specs():
    if not _SPECS:
        _SPECS["u"] = GP.build_specs() + GP.build_vendor_specs()
        _SPECS["c"] = [s for s in GP.build_channel_specs() if "custom" not in s.tags]
    return _SPECS


def spec_gate(rng, spec=None, channel_ok=True):
    """A gate from the shared gate pool, with the catalogue description attached."""
    S = specs()
    if spec is None:
        pool = S["u"] + (S["c"] if channel_ok else [])
        spec = pick(rng, pool)
    for _ in range(20):
        p = spec.sample(rng)
        try:
            g = spec.make(p)
        except ValueError:
            continue
        return Val(g, "gate:" + spec.name, spec=spec, params=p, kind="gate")
    raise RuntimeError("gate pool sampler kept being rejected: " + spec.name)


def other_gate(rng):
    """Gate classes that are not in the shared pool (or use symbols)."""
    import cirq
    import cirq_google
    import cirq_ionq
    import sympy
    k = int(rng.integers(38))
    if k == 0:
        n = int(rng.integers(1, 4))
        shape = tuple(int(rng.integers(2, 4)) for _ in range(n)) if rbool(rng) else None
        cm = None
        if rng.random() < 0.3:
            cm = {(0,): np.array([[0.8, 0.2], [0.25, 0.75]])}
            shape = None
        return cirq.MeasurementGate(n, key=meas_key(rng) if rbool(rng) else rkeyname(rng),
                                    invert_mask=tuple(rbool(rng) for _ in range(int(rng.integers(0, n + 1)))),
                                    qid_shape=shape, confusion_map=cm)
    if k == 1:
        obs = [pick(rng, [cirq.X, cirq.Y, cirq.Z]) for _ in range(int(rng.integers(1, 4)))]
        if rbool(rng):
            obs = cirq.DensePauliString(obs, coefficient=pick(rng, [1, -1]))
        cmx = np.array([[0.9, 0.1], [0.2, 0.8]]) if rng.random() < 0.3 else None
        return cirq.PauliMeasurementGate(obs, key=rkeyname(rng), confusion_matrix=cmx)
    if k == 2:
        n = int(rng.integers(1, 3))
        d = cirq.Duration(nanos=abs(rfloat(rng))) if rbool(rng) else cirq.Duration(picos=int(rng.integers(0, 10000)))
        if rng.random() < 0.3:
            return cirq.WaitGate(d, qid_shape=tuple(int(rng.integers(2, 4)) for _ in range(n)))
        return cirq.WaitGate(d, num_qubits=n)
    if k == 3:
        sub = spec_gate(rng, channel_ok=False).obj
        nc = int(rng.integers(1, 3))
        r = rng.random()
        if r < 0.35:
            return cirq.ControlledGate(sub, num_controls=nc)
        if r < 0.7:
            shape = [int(rng.integers(2, 4)) for _ in range(nc)]
            cv = [sorted(set(int(x) for x in rng.integers(0, d, size=int(rng.integers(1, d + 1))))) for d in shape]
            return cirq.ControlledGate(sub, control_values=cv, control_qid_shape=shape)
        rows = sorted(set(tuple(int(x) for x in rng.integers(0, 2, size=nc)) for _ in range(int(rng.integers(1, 4)))))
        name = rname(rng) if rbool(rng) else None
        return cirq.ControlledGate(sub, control_values=cirq.SumOfProducts(rows, name=name))
    if k == 4:
        sub = spec_gate(rng, pick(rng, [s for s in specs()["u"] if s.shape == (2,)])).obj
        return cirq.ParallelGate(sub, int(rng.integers(1, 5)))
    if k == 5:
        sub = spec_gate(rng, channel_ok=True).obj
        return cirq.RandomGateChannel(sub_gate=sub, probability=rprob(rng) if rng.random() < 0.8 else rsymbol(rng))
    if k == 6:
        from vf.refmodel import linalg as L
        d, m = 2 ** int(rng.integers(1, 3)), int(rng.integers(1, 4))
        big = L.haar_unitary(rng, d * m)
        ks = [big[i * d:(i + 1) * d, :d] for i in range(m)]
        return cirq.KrausChannel(ks, key=(rkeyname(rng) if rbool(rng) else None))
    if k == 7:
        from vf.refmodel import linalg as L
        d, m = 2 ** int(rng.integers(1, 3)), int(rng.integers(1, 4))
        ps = rng.dirichlet(np.ones(m))
        return cirq.MixedUnitaryChannel([(float(p), L.haar_unitary(rng, d)) for p in ps],
                                        key=(rkeyname(rng) if rbool(rng) else None))
    if k == 8:
        from vf.refmodel import linalg as L
        n = int(rng.integers(1, 3))
        if rbool(rng):
            return cirq.StatePreparationChannel(L.random_state(rng, 2 ** n), name=rname(rng))
        return cirq.StatePreparationChannel(L.random_state(rng, 2 ** n))
    if k == 9:
        n = int(rng.integers(1, 4))
        names = ["x%d" % i for i in range(n)]
        exprs = [(" %s " % pick(rng, ["^", "&", "|"])).join(names[int(v)] for v in
                                                            rng.choice(n, size=int(rng.integers(1, n + 1)), replace=False))
                 for _ in range(int(rng.integers(1, 3)))]
        return cirq.BooleanHamiltonianGate(names, exprs, rfloat(rng))
    if k == 10:
        n = int(rng.integers(1, 5))
        return cirq.UniformSuperpositionGate(int(rng.integers(1, 2 ** n + 1)), n)
    if k == 11:
        P = [cirq.X, cirq.Y, cirq.Z]
        return cirq.PauliInteractionGate(pick(rng, P), rbool(rng), pick(rng, P), rbool(rng), exponent=rparamval(rng))
    if k == 12:
        return dense_pauli(rng)
    if k == 13:
        dps = cirq.DensePauliString([pick(rng, [cirq.I, cirq.X, cirq.Y, cirq.Z]) for _ in range(int(rng.integers(1, 4)))],
                                    coefficient=pick(rng, [1, -1]))
        return cirq.PauliStringPhasorGate(dps, exponent_neg=rparamval(rng), exponent_pos=rparamval(rng))
    if k == 14:
        return cirq.circuits.qasm_output.QasmUGate(rfloat(rng), rfloat(rng), rfloat(rng))
    if k == 15:
        return clifford_gate(rng)
    if k == 16:
        return pick(rng, list(_single_qubit_cliffords()))
    if k == 17:
        return pick(rng, [cirq.CYPowGate, cirq.CCYPowGate])(exponent=rparamval(rng), global_shift=pick(rng, GP.SHIFTS))
    if k == 18:
        return cirq.inverse(cirq.QuantumFourierTransformGate(int(rng.integers(1, 4)), without_reverse=rbool(rng)))
    if k == 19:
        return pick(rng, [cirq.X, cirq.Y, cirq.Z, cirq.H, cirq.S, cirq.T, cirq.CZ, cirq.CNOT, cirq.SWAP, cirq.ISWAP, cirq.CCZ,
                          cirq.CCX, cirq.CSWAP, cirq.I, cirq.XX, cirq.YY, cirq.ZZ, cirq.SQRT_ISWAP, cirq.SQRT_ISWAP_INV,
                          cirq_google.SYC, cirq_google.WILLOW])
    if k == 20:  # symbolic eigen gates
        cls = pick(rng, [cirq.XPowGate, cirq.YPowGate, cirq.ZPowGate, cirq.HPowGate, cirq.CZPowGate, cirq.CXPowGate,
                         cirq.SwapPowGate, cirq.ISwapPowGate, cirq.XXPowGate, cirq.YYPowGate, cirq.ZZPowGate, cirq.CCZPowGate,
                         cirq.CCXPowGate])
        return cls(exponent=rexpr(rng), global_shift=pick(rng, GP.SHIFTS))
    if k == 21:
        return pick(rng, [cirq.Rx, cirq.Ry, cirq.Rz])(rads=rexpr(rng))
    if k == 22:
        return cirq.PhasedXPowGate(phase_exponent=rparamval(rng), exponent=rparamval(rng), global_shift=pick(rng, GP.SHIFTS))
    if k == 23:
        return cirq.PhasedXZGate(x_exponent=rparamval(rng), z_exponent=rparamval(rng), axis_phase_exponent=rparamval(rng))
    if k == 24:
        return cirq.FSimGate(theta=rparamval(rng), phi=rparamval(rng))
    if k == 25:
        return cirq.PhasedFSimGate(theta=rparamval(rng), zeta=rparamval(rng), chi=rparamval(rng), gamma=rparamval(rng),
                                   phi=rparamval(rng))
    if k == 26:
        return cirq.PhasedISwapPowGate(phase_exponent=rparamval(rng), exponent=rparamval(rng))
    if k == 27:
        n = int(rng.integers(1, 3))
        return cirq.DiagonalGate([rparamval(rng) for _ in range(2 ** n)])
    if k == 28:
        return cirq.GlobalPhaseGate(rsymbol(rng) if rng.random() < 0.3 else complex(np.exp(1j * rfloat(rng))))
    if k == 29:
        return cirq.ms(rfloat(rng))
    if k == 30:
        kw = {}
        for nm in ["delay", "zpa", "zpl", "amp", "label"][:int(rng.integers(0, 5))]:
            kw[nm] = pick(rng, [rfloat(rng), int(rng.integers(0, 9)), rname(rng), None, rsymbol(rng), [1, 2], True])
        return cirq_google.InternalGate(gate_name=rname(rng), gate_module="internal.module",
                                        num_qubits=int(rng.integers(1, 4)), **kw)
    if k == 31:
        kw = dict(hold_time=cirq.Duration(nanos=int(rng.integers(1, 40))), coupling_mhz=rparamval(rng))
        if rbool(rng):
            kw["rise_time"] = cirq.Duration(nanos=int(rng.integers(1, 40)))
        if rbool(rng):
            kw["padding_time"] = cirq.Duration(picos=rfloat(rng) ** 2)
        if rbool(rng):
            kw["q0_detune_mhz"] = rparamval(rng)
        if rbool(rng):
            kw["q1_detune_mhz"] = rparamval(rng)
        return cirq_google.experimental.CouplerPulse(**kw)
    if k == 32:
        turn = float(rng.uniform(-1, 1))
        return pick(rng, [lambda: cirq_ionq.GPIGate(phi=turn), lambda: cirq_ionq.GPI2Gate(phi=turn),
                          lambda: cirq_ionq.ZZGate(theta=turn),
                          lambda: cirq_ionq.MSGate(phi0=turn, phi1=float(rng.uniform(-1, 1)), theta=float(rng.uniform(0, 0.25)))])()
    if k == 33:
        return cirq.ResetChannel(dimension=int(rng.integers(2, 5)))
    if k == 34:
        n = int(rng.integers(2, 5))
        return cirq.QubitPermutationGate([int(x) for x in rng.permutation(n)])
    if k == 35:
        return cirq.MutableDensePauliString([pick(rng, [cirq.I, cirq.X, cirq.Y, cirq.Z]) for _ in range(int(rng.integers(1, 5)))],
                                            coefficient=pick(rng, [1, -1, 1j, -1j]))
    if k == 36:
        from vf.refmodel import linalg as L
        shape = pick(rng, [(2,), (3,), (2, 2)])
        return cirq.MatrixGate(L.haar_unitary(rng, L.dim_of(shape)), qid_shape=shape, name=rname(rng))
    return cirq.IdentityGate(qid_shape=tuple(int(rng.integers(2, 5)) for _ in range(int(rng.integers(1, 4)))))


def dense_pauli(rng):
    import cirq
    ps = [pick(rng, [cirq.I, cirq.X, cirq.Y, cirq.Z]) for _ in range(int(rng.integers(1, 5)))]
    coef = pick(rng, [1, -1, 1j, -1j]) if rng.random() < 0.8 else rsymbol(rng)
    return cirq.DensePauliString(ps, coefficient=coef)


_SQC = []


def _single_qubit_cliffords():
    import cirq
    if not _SQC:
        _SQC.extend(cirq.SingleQubitCliffordGate.all_single_qubit_cliffords)
    return _SQC


def clifford_tableau(rng, n=None):
    import cirq
    n = n or int(rng.integers(1, 4))
    # initial_state only selects the constructor's default arrays (and is printed by repr); it is not written to JSON, so
    # the generator starts from 0 and reaches other states with gates
    t = cirq.CliffordTableau(n)
    qs = cirq.LineQubit.range(n)
    gates = [cirq.H, cirq.S, cirq.X, cirq.Y, cirq.Z] + ([cirq.CNOT, cirq.CZ] if n > 1 else [])
    args = cirq.CliffordTableauSimulationState(tableau=t, qubits=qs, prng=np.random.RandomState(int(rng.integers(1 << 30))))
    for _ in range(int(rng.integers(0, 8))):
        g = pick(rng, gates)
        k = cirq.num_qubits(g)
        sel = [qs[int(i)] for i in rng.choice(n, size=k, replace=False)]
        cirq.act_on(g, args, sel)
    return args.tableau


def clifford_gate(rng):
    import cirq
    return cirq.CliffordGate.from_clifford_tableau(clifford_tableau(rng))


# ------------------------------------------------------------------ operations
def base_op(rng, unitary_only=False):
    """gate.on(qubits) for a pool gate or one of the other gate classes."""
    import cirq
    if rng.random() < 0.65:
        v = spec_gate(rng, channel_ok=not unitary_only)
        g = v.obj
    else:
        for _ in range(20):
            g = other_gate(rng)
            if isinstance(g, cirq.Gate) and not (unitary_only and not cirq.has_unitary(g)):
                break
        else:
            g = cirq.X
    shape = cirq.qid_shape(g)
    return g.on(*qids_for(rng, shape))


def measure_op(rng, qs=None, key=None):
    import cirq
    qs = qs or qids_for(rng, (2,) * int(rng.integers(1, 4)))
    return cirq.measure(*qs, key=key if key is not None else rkeyname(rng),
                        invert_mask=tuple(rbool(rng) for _ in range(int(rng.integers(0, len(qs) + 1)))))


def decorated_op(rng, depth=0):
    import cirq
    op = base_op(rng)
    for _ in range(int(rng.integers(0, 3))):
        k = int(rng.integers(4))
        if k == 0:
            op = op.with_tags(*tags(rng))
        elif k == 1 and not cirq.is_measurement(op):
            used = set(op.qubits)
            nc = int(rng.integers(1, 3))
            cq = [q for q in qids_for(rng, tuple(int(rng.integers(2, 4)) for _ in range(nc))) if q not in used]
            cq = [q for q in cq if all(_qkey(q) != _qkey(u) for u in used)]
            if not cq:
                continue
            cv = [sorted(set(int(x) for x in rng.integers(0, q.dimension, size=int(rng.integers(1, q.dimension + 1)))))
                  for q in cq]
            try:
                op = op.controlled_by(*cq, control_values=cv)
            except ValueError:
                continue
        elif k == 2 and not cirq.is_measurement(op):
            conds = [condition(rng) for _ in range(int(rng.integers(1, 3)))]
            if rng.random() < 0.2:
                conds.append(rkeyname(rng))
            try:
                op = op.with_classical_controls(*conds)
            except ValueError:
                continue
        else:
            op = op.with_tags(tag(rng))
    return op



def constructed_wrapper_op(rng):
    """wrapper operations built through their constructors, in shapes the convenience methods never produce
    (zero tags, tags around an already tagged op, controls around a controlled op, ...)"""
    import cirq
    op = base_op(rng)
    k = int(rng.integers(6))
    if k == 0:
        return cirq.TaggedOperation(op)
    if k == 1:
        return cirq.TaggedOperation(cirq.TaggedOperation(op, tag(rng)), tag(rng))
    if k == 2:
        return cirq.TaggedOperation(cirq.TaggedOperation(op), *tags(rng))
    if k == 3 and type(op) is cirq.GateOperation and cirq.has_unitary(op):
        used = set(op.qubits)
        c1 = [q for q in qids_for(rng, (2,)) if q not in used and all(_qkey(q) != _qkey(u) for u in used)]
        if c1:
            inner = cirq.ControlledOperation(c1, op)
            c2 = [q for q in qids_for(rng, (2,)) if q not in set(inner.qubits) and all(_qkey(q) != _qkey(u) for u in inner.qubits)]
            if c2:
                try:
                    return cirq.ControlledOperation(c2, inner, control_values=[int(rng.integers(2))])
                except ValueError:
                    return inner
            return inner
    if k == 4 and not cirq.is_measurement(op):
        try:
            inner = cirq.ClassicallyControlledOperation(op, [condition(rng)])
            return cirq.ClassicallyControlledOperation(inner, [condition(rng)])
        except ValueError:
            pass
    if k == 5:
        return cirq.TaggedOperation(op, tag(rng)).with_tags()
    return cirq.TaggedOperation(op, *tags(rng))


def pauli_string(rng, qs=None):
    import cirq
    qs = qs or qids_for(rng, (2,) * int(rng.integers(0, 4)))
    coef = pick(rng, [1, -1, 1j, -1j, 0.5, -0.25 + 0.5j, 2.0]) if rng.random() < 0.85 else rsymbol(rng)
    return cirq.PauliString({q: pick(rng, [cirq.X, cirq.Y, cirq.Z]) for q in qs}, coefficient=coef)


def pauli_sum(rng):
    import cirq
    qs = line_qubits(rng, 3)
    s = cirq.PauliSum()
    for _ in range(int(rng.integers(1, 4))):
        sub = [q for q in qs if rbool(rng)]
        s += cirq.PauliString({q: pick(rng, [cirq.X, cirq.Y, cirq.Z]) for q in sub},
                              coefficient=pick(rng, [1, -1, 0.5, 1j, 0.25 - 0.5j]))
    return s


def pauli_like_op(rng):
    import cirq
    k = int(rng.integers(5))
    if k == 0:
        return pauli_string(rng)
    if k == 1:
        return pick(rng, [cirq.X, cirq.Y, cirq.Z]).on(pick(rng, QUBIT_KINDS)(rng))  # SingleQubitPauliStringGateOperation
    if k == 2:
        qs = qids_for(rng, (2,) * int(rng.integers(1, 4)))
        ps = cirq.PauliString({q: pick(rng, [cirq.X, cirq.Y, cirq.Z]) for q in qs}, coefficient=pick(rng, [1, -1]))
        extra = qs + [q for q in qids_for(rng, (2,)) if q not in qs and rbool(rng)]
        try:
            return cirq.PauliStringPhasor(ps, extra, exponent_neg=rparamval(rng), exponent_pos=rparamval(rng))
        except ValueError:
            return cirq.PauliStringPhasor(ps, exponent_neg=0.5, exponent_pos=0.25)
    if k == 3:
        return cirq.MutablePauliString(pauli_string(rng))
    return cirq.global_phase_operation(complex(np.exp(1j * rfloat(rng))))


# ------------------------------------------------------------------ moments / circuits
def moment(rng, qs=None, with_tags=False):
    import cirq
    ops, used = [], set()

    def free(op):
        ks = set()
        for q in op.qubits:
            ks.add(_qkey(q))
        return not (ks & used), ks

    for _ in range(int(rng.integers(0, 4))):
        op = decorated_op(rng) if rng.random() < 0.7 else pauli_like_op(rng)
        if not isinstance(op, cirq.Operation):
            continue
        ok, ks = free(op)
        if ok:
            used |= ks
            ops.append(op)
    try:
        if with_tags and rbool(rng):
            return cirq.Moment(ops, tags=tuple(tags(rng)))
        return cirq.Moment(ops)
    except ValueError:
        return cirq.Moment(ops[:1])


def small_circuit(rng, measure_key=None, unitary_only=False, symbols=False):
    """A circuit on a few line/grid/named qubits; optionally with a measurement of `measure_key`."""
    import cirq
    qs = qids_for(rng, (2,) * int(rng.integers(1, 4)))
    c = cirq.Circuit()
    for _ in range(int(rng.integers(1, 5))):
        r = rng.random()
        if r < 0.5:
            g = spec_gate(rng, pick(rng, [s for s in specs()["u"] if s.shape in ((2,), (2, 2)) and len(s.shape) <= len(qs)])).obj
        elif r < 0.7 and symbols:
            g = pick(rng, [cirq.XPowGate, cirq.ZPowGate, cirq.YPowGate])(exponent=rsymbol(rng))
        elif r < 0.85 and not unitary_only:
            g = pick(rng, [cirq.depolarize(0.125), cirq.bit_flip(0.25), cirq.ResetChannel()])
        else:
            g = pick(rng, [cirq.H, cirq.X, cirq.T, cirq.S])
        n = cirq.num_qubits(g)
        sel = [qs[int(i)] for i in rng.choice(len(qs), size=n, replace=False)]
        c.append(g.on(*sel), strategy=pick(rng, [cirq.InsertStrategy.EARLIEST, cirq.InsertStrategy.NEW_THEN_INLINE]))
    if measure_key is not None:
        c.append(cirq.measure(*qs[:int(rng.integers(1, len(qs) + 1))], key=measure_key))
    return c


def circuit(rng, frozen=None, with_tags=True):
    import cirq
    k = int(rng.integers(4))
    if k == 0:
        c = small_circuit(rng, measure_key=(rkeyname(rng) if rbool(rng) else None), symbols=rbool(rng))
    else:
        ms = [moment(rng, with_tags=True) for _ in range(int(rng.integers(0, 4)))]
        c = cirq.Circuit(ms)
    if with_tags and rng.random() < 0.3:
        c = c.with_tags(*tags(rng))
    if frozen is None:
        frozen = rbool(rng)
    return c.freeze() if frozen else c


def derived_after_queries(rng):
    """A value derived through a public with_* method from a value that has already answered queries (hash, parameter
    names, qubits, keys): whatever the source cached must not leak into the derived value."""
    import cirq
    import sympy
    for _ in range(8):
        kind = int(rng.integers(2))
        src = circuit(rng, frozen=True) if kind == 0 else moment(rng, with_tags=False)
        try:
            hash(src)
        except TypeError:
            continue   # (unhashable contents: other generators cover those)
        break
    tag = pick(rng, ["x", 7, "x"] + ([sympy.Symbol("t")] if kind == 0 else []))
    for q_ in (cirq.is_parameterized, cirq.parameter_names, cirq.measurement_key_names,
               lambda v: v.qubits if hasattr(v, "qubits") else v.all_qubits()):
        q_(src)
    if rbool(rng):
        _ = src in {src}
    return src.with_tags(tag)


def near_twin_subcircuits(rng):
    """One document holding two different sub-circuits that are as alike as values get: they differ in one number, chosen
    among pairs that Python hashes alike (-1 / -2, 1.0 / 1, 0.0 / -0.0 ...), so that anything that tells sub-circuits apart
    by less than their value (a hash, an id, a position) mixes them up."""
    import cirq
    a, b = pick(rng, [(-1, -2), (-2, -1), (1, 1.0), (-1.0, -2.0), (0.5, 0.5000000000000001), (-1, -2)])
    # (pairs like 2**61 - 1 / 0 also hash alike, but as gate angles they are equal *values* under Cirq's periodic equality)
    kind = int(rng.integers(4))
    if kind == 0 and isinstance(a, int) and isinstance(b, int) and abs(a) < 100 and abs(b) < 100:
        qa, qb = cirq.LineQubit(a), cirq.LineQubit(b)
        fa, fb = cirq.FrozenCircuit(cirq.X(qa)), cirq.FrozenCircuit(cirq.X(qb))
    elif kind == 1 and isinstance(a, int) and isinstance(b, int) and abs(a) < 100 and abs(b) < 100:
        c = int(rng.integers(-2, 3))
        fa, fb = cirq.FrozenCircuit(cirq.H(cirq.GridQubit(a, c))), cirq.FrozenCircuit(cirq.H(cirq.GridQubit(b, c)))
    elif kind == 2:
        q = q_line(rng)
        fa, fb = cirq.FrozenCircuit(cirq.X(q) ** float(a)), cirq.FrozenCircuit(cirq.X(q) ** float(b))
    else:
        q = q_line(rng)
        fa, fb = cirq.FrozenCircuit(cirq.rz(float(a)).on(q)), cirq.FrozenCircuit(cirq.rz(float(b)).on(q))
    ops = [cirq.CircuitOperation(fa), cirq.CircuitOperation(fb)]
    if rbool(rng):
        ops.append(cirq.CircuitOperation(fa, repetitions=2))  # and a genuinely shared one
    order = [ops[int(i)] for i in rng.permutation(len(ops))]
    if rbool(rng):
        return cirq.Circuit([cirq.Moment([o]) for o in order])
    return cirq.FrozenCircuit([cirq.Moment([o]) for o in order])


def circuit_op(rng, fc=None, depth=0):
    """CircuitOperation exercising every constructor field."""
    import cirq
    import sympy
    mode = int(rng.integers(7))
    key = rkeyname(rng)
    if fc is None:
        if mode == 5:
            fc = small_circuit(rng, measure_key=key).freeze()
        elif mode == 3:
            fc = small_circuit(rng, unitary_only=True).freeze()
        elif mode == 4:
            fc = small_circuit(rng, symbols=True, measure_key=(key if rbool(rng) else None)).freeze()
        else:
            fc = small_circuit(rng, measure_key=(key if rbool(rng) else None)).freeze()
    kw = {}
    if mode == 5 and key in cirq.measurement_key_names(fc):
        cond = pick(rng, [cirq.KeyCondition(cirq.MeasurementKey(key)), cirq.KeyCondition(cirq.MeasurementKey(key), index=0),
                          cirq.SympyCondition(sympy.Symbol(key) > 0),
                          cirq.BitMaskKeyCondition(key, bitmask=1, target_value=1, equal_target=True)])
        kw["repeat_until"] = cond
        kw["use_repetition_ids"] = False
    elif mode == 3:
        kw["repetitions"] = int(pick(rng, [-1, -2, 2, 3, 0]))
        if rbool(rng):
            kw["use_repetition_ids"] = True
    elif mode == 6:
        kw["repetitions"] = rsymbol(rng) if rbool(rng) else 2 * rsymbol(rng)
    else:
        r = int(pick(rng, [1, 1, 2, 3, 7]))
        kw["repetitions"] = r
        u = rng.random()
        if u < 0.3:
            kw["repetition_ids"] = [pick(rng, ["a", "b", "r"]) + str(i) for i in range(r)]
        elif u < 0.5:
            kw["use_repetition_ids"] = False
        elif u < 0.7:
            kw["use_repetition_ids"] = True
    qs = sorted(fc.all_qubits())
    if qs and rng.random() < 0.5:
        qm = {}
        taken = set(_qkey(q) for q in qs)
        for q in qs:
            if rbool(rng):
                for _ in range(10):
                    nq = pick(rng, QUBIT_KINDS)(rng) if q.dimension == 2 else pick(rng, QID_KINDS)(rng, q.dimension)
                    if _qkey(nq) not in taken:
                        taken.add(_qkey(nq))
                        qm[q] = nq
                        break
        if qm:
            # the spelling order of a mapping carries no meaning: insert in random order
            kw["qubit_map"] = _shuffled_dict(rng, qm)
    keys = sorted(cirq.measurement_key_names(fc))
    if keys and rng.random() < 0.5 and "repeat_until" not in kw:
        kw["measurement_key_map"] = _shuffled_dict(rng, {k: pick(rng, ["n", "z", "k2"]) + str(i) for i, k in enumerate(keys) if rbool(rng)})
    params = sorted(cirq.parameter_names(fc))
    if params and rng.random() < 0.7:
        pr = {}
        for p in params:
            if rbool(rng):
                pr[sympy.Symbol(p) if rbool(rng) else p] = pick(rng, [rfloat(rng), rsymbol(rng), int(rng.integers(0, 4))])
        if pr:
            kw["param_resolver"] = _shuffled_dict(rng, pr)
    try:
        return cirq.CircuitOperation(fc, **kw)
    except ValueError:
        return cirq.CircuitOperation(fc)


# ------------------------------------------------------------------ sweeps / resolvers / results
def sweep(rng, depth=0, keys=None):
    import cirq
    keys = keys if keys is not None else ["t", "s", "theta", "x0", "a", "b", "c", "d"]
    k = int(rng.integers(9 if depth < 2 else 3))

    def md():
        import cirq_google
        r = rng.random()
        if r < 0.5:
            return None
        if r < 0.7:
            return rname(rng)
        if r < 0.85:
            return cirq_google.study.DeviceParameter(path=[rname(rng), "k"], idx=(int(rng.integers(0, 5)) if rbool(rng) else None),
                                                     value=(rfloat(rng) if rbool(rng) else None),
                                                     units=(pick(rng, ["GHz", "ns"]) if rbool(rng) else None))
        return cirq_google.study.Metadata(
            device_parameters=[cirq_google.study.DeviceParameter(path=[rname(rng)], idx=None)], is_const=rbool(rng),
            label=(rname(rng) if rbool(rng) else None), unit=(pick(rng, ["MHz", "us"]) if rbool(rng) else None))

    def leaf(key):
        import sympy
        kk = sympy.Symbol(key) if rbool(rng) else key
        if rbool(rng):
            return cirq.Linspace(kk, start=rfloat(rng), stop=rfloat(rng), length=int(rng.integers(1, 5)), metadata=md())
        return cirq.Points(kk, [rfloat(rng) for _ in range(int(rng.integers(1, 5)))], metadata=md())

    def disjoint(n):
        sel = [keys[int(i)] for i in rng.choice(len(keys), size=min(n, len(keys)), replace=False)]
        return sel
    if k in (0, 1, 2):
        return leaf(pick(rng, keys))
    if k in (3, 4, 5):
        n = int(rng.integers(1, 4))
        parts = disjoint(n)
        subs = []
        for i, key in enumerate(parts):
            subs.append(leaf(key) if depth >= 1 or rng.random() < 0.7 else sweep(rng, depth + 1, keys=[key]))
        cls = {3: cirq.Zip, 4: cirq.Product, 5: cirq.ZipLongest}[k]
        try:
            return cls(*subs)
        except ValueError:
            return cirq.Product(*[leaf(key) for key in parts])
    if k == 6:
        key = pick(rng, keys)
        return cirq.Concat(*[leaf(key) for _ in range(int(rng.integers(1, 4)))])
    if k == 7:
        ks = disjoint(int(rng.integers(1, 3)))
        return cirq.ListSweep([cirq.ParamResolver({kk: rfloat(rng) for kk in ks}) for _ in range(int(rng.integers(1, 4)))])
    return cirq.UnitSweep


def param_resolver(rng):
    import cirq
    import sympy
    d = {}
    for _ in range(int(rng.integers(0, 4))):
        key = pick(rng, ["t", "s", "theta", "x0", "a"])
        key = sympy.Symbol(key) if rbool(rng) else key
        d[key] = pick(rng, [rfloat(rng), int(rng.integers(-3, 9)), rsymbol(rng), rexpr(rng), complex(rfloat(rng), 0.5)])
    return cirq.ParamResolver(d)


def _memory_layout(rng, arr):
    """the same values in another memory layout (what transposes, Fortran-ordered decoders and strided views hand over)"""
    r = rng.random()
    if r < 0.6:
        return arr
    if r < 0.75:
        return np.asfortranarray(arr)
    if r < 0.9:
        return np.ascontiguousarray(arr.T).T  # a transposed view: same values, reversed strides
    big = np.zeros(tuple(2 * d for d in arr.shape), dtype=arr.dtype)
    view = big[tuple(slice(None, None, 2) for _ in arr.shape)]
    view[...] = arr
    return view  # every second element of a larger buffer


def result_dict(rng):
    import cirq
    reps = int(rng.integers(1, 6)) if rng.random() < 0.93 else 0
    r = rng.random()
    if r < 0.5:
        meas = {}
        for key in set(rkeyname(rng) for _ in range(int(rng.integers(1, 4)))):
            width = int(pick(rng, [1, 2, 3, 9, 17]))
            dtype = pick(rng, [np.int8, np.uint8, np.int64, bool, np.int32])
            hi = 2 if rng.random() < 0.7 else 4
            arr = rng.integers(0, hi, size=(reps, width))
            meas[key] = _memory_layout(rng, arr.astype(dtype) if hi == 2 else arr.astype(np.int64))
        return cirq.ResultDict(params=param_resolver(rng), measurements=meas)
    recs = {}
    for key in set(rkeyname(rng) for _ in range(int(rng.integers(1, 4)))):
        width = int(pick(rng, [1, 2, 9, 17]))
        inst = int(pick(rng, [1, 2, 3]))
        dtype = pick(rng, [np.int8, np.uint8, np.int64, bool])
        recs[key] = _memory_layout(rng, rng.integers(0, 2, size=(reps, inst, width)).astype(dtype))
    return cirq.ResultDict(params=param_resolver(rng), records=recs)


def classical_store(rng):
    import cirq
    recs, mq, ch, mt = {}, {}, {}, {}
    # tuples are what record_measurement() stores (and what the annotations say); lists are what the stored example uses
    shape_ = tuple if rbool(rng) else list
    for i in range(int(rng.integers(0, 3))):
        key = cirq.MeasurementKey("m%d" % i) if rbool(rng) else cirq.MeasurementKey("m%d" % i, ("p",))
        n = int(rng.integers(1, 3))
        inst = int(rng.integers(1, 3))
        recs[key] = [shape_(int(x) for x in rng.integers(0, 2, size=n)) for _ in range(inst)]
        qs = line_qubits(rng, n)
        mq[key] = [shape_(qs) for _ in range(inst)]
        mt[key] = cirq.MeasurementType.MEASUREMENT
    for i in range(int(rng.integers(0, 2))):
        key = cirq.MeasurementKey("c%d" % i)
        ch[key] = [int(rng.integers(0, 4)) for _ in range(int(rng.integers(1, 3)))]
        mt[key] = cirq.MeasurementType.CHANNEL
    return cirq.ClassicalDataDictionaryStore(_records=recs, _measured_qubits=mq, _channel_records=ch, _measurement_types=mt)


# ------------------------------------------------------------------ plain values
def duration(rng):
    import cirq
    k = int(rng.integers(6))
    if k == 0:
        return cirq.Duration(picos=int(rng.integers(0, 100000)))
    if k == 1:
        return cirq.Duration(nanos=rfloat(rng))
    if k == 2:
        return cirq.Duration(micros=int(rng.integers(0, 50)), nanos=int(rng.integers(0, 999)))
    if k == 3:
        return cirq.Duration(millis=pick(rng, [1, 0.5, 2]))
    if k == 4:
        return cirq.Duration(nanos=rsymbol(rng))
    return cirq.Duration(picos=pick(rng, [2500.0, 0.5, 1e6]))


def linear_dict(rng):
    import cirq
    d = {}
    for _ in range(int(rng.integers(0, 4))):
        d[pick(rng, ["X", "Y", "Z", "I", "XX", "a"])] = pick(rng, [1, -1, 0.5, 1j, 0.25 - 0.5j, 2.0])
    return cirq.LinearDict(d)


def product_state(rng):
    import cirq
    states = [cirq.KET_PLUS, cirq.KET_MINUS, cirq.KET_IMAG, cirq.KET_MINUS_IMAG, cirq.KET_ZERO, cirq.KET_ONE]
    k = int(rng.integers(3))
    if k == 0:
        return pick(rng, states)
    qs = qids_for(rng, (2,) * int(rng.integers(0, 4)))
    return cirq.ProductState({q: pick(rng, states) for q in qs})


def control_values(rng):
    import cirq
    n = int(rng.integers(1, 4))
    if rbool(rng):
        return cirq.ProductOfSums([sorted(set(int(x) for x in rng.integers(0, 3, size=int(rng.integers(1, 3))))) for _ in range(n)])
    rows = sorted(set(tuple(int(x) for x in rng.integers(0, 3, size=n)) for _ in range(int(rng.integers(1, 4)))))
    return cirq.SumOfProducts(rows, name=(rname(rng) if rbool(rng) else None))


def plain_payload(rng):
    """numpy / pandas / sympy / complex / datetime payloads handled by the encoder itself."""
    import pandas as pd
    import sympy
    k = int(rng.integers(12))
    if k == 0:
        return complex(rfloat(rng), rfloat(rng))
    if k == 1:
        return rexpr(rng)
    if k == 2:
        a, b = sympy.Symbol(pick(rng, ["t", "s", "a"])), sympy.Symbol(pick(rng, ["u", "x0", "b"]))  # distinct: no constant folding
        return pick(rng, [a > b, a >= 1, sympy.Eq(a, b + 1), sympy.Ne(a, 2), sympy.And(a > 0, b > 0), sympy.Or(a > 0, b <= 0),
                          sympy.Not(a > b), sympy.Xor(a > 0, b > 0), a < 3, sympy.IndexedBase("v")[int(rng.integers(0, 4))]])
    if k == 3:
        return pick(rng, [sympy.pi, sympy.E, sympy.EulerGamma, sympy.Integer(int(rng.integers(-5, 9))),
                          sympy.Rational(int(rng.integers(1, 9)), 7), sympy.Float(rfloat(rng))])
    if k == 4:
        return datetime.datetime(2020 + int(rng.integers(0, 6)), int(rng.integers(1, 13)), int(rng.integers(1, 28)),
                                 int(rng.integers(0, 24)), int(rng.integers(0, 60)), int(rng.integers(0, 60)),
                                 int(rng.integers(0, 999)) * 1000, tzinfo=datetime.timezone.utc)
    if k == 5:
        return pd.DataFrame(data=[[int(rng.integers(0, 9)), rfloat(rng)] for _ in range(int(rng.integers(1, 4)))],
                            columns=["x", "y"])
    if k == 6:
        n = int(rng.integers(1, 4))
        return pd.DataFrame(data=[[rfloat(rng), rfloat(rng)] for _ in range(n)], columns=["u", rname(rng) + "_"],
                            index=pd.MultiIndex.from_tuples([(i, i + 1) for i in range(n)], names=["q0", "q1"]))
    if k == 7:
        return pd.Index([int(x) for x in rng.integers(0, 9, size=3)], name=rname(rng))
    if k == 8:
        return pd.MultiIndex.from_tuples([(int(rng.integers(0, 4)), rname(rng)) for _ in range(3)], names=["i", "n"])
    if k == 9:
        return [int(rng.integers(0, 9)), rfloat(rng), rname(rng), None, rbool(rng)]
    if k == 10:
        return {"k": rfloat(rng), rname(rng): [1, 2, {"z": None}], "c": complex(0, 1)}
    return rfloat(rng)


# ------------------------------------------------------------------ gatesets / devices / noise
def gate_family(rng):
    import cirq
    g = pick(rng, [cirq.XPowGate, cirq.ZPowGate, cirq.CZPowGate, cirq.X, cirq.CZ, cirq.ISWAP ** 0.5, cirq.FSimGate,
                   cirq.PhasedXZGate, cirq.MeasurementGate, cirq.X ** 0.25])
    k = int(rng.integers(6))
    if k == 0:
        return cirq.GateFamily(g)
    if k == 1:
        return cirq.GateFamily(g, name=rname(rng), description="d " + rname(rng), ignore_global_phase=rbool(rng))
    if k == 2:
        return cirq.GateFamily(g, tags_to_accept=tags(rng, 1, 2), ignore_global_phase=rbool(rng))
    if k == 3:
        return cirq.GateFamily(g, tags_to_ignore=tags(rng, 1, 2))
    if k == 4:
        if rbool(rng):
            return cirq.AnyUnitaryGateFamily(pick(rng, [None, 1, 2, 3]))
        return cirq.AnyIntegerPowerGateFamily(pick(rng, [cirq.XPowGate, cirq.CZPowGate, cirq.ZPowGate, cirq.ISwapPowGate]))
    kw = {}
    if rbool(rng):
        kw["name"] = rname(rng)
        kw["description"] = "desc"
    return cirq.ParallelGateFamily(pick(rng, [cirq.XPowGate, cirq.X, cirq.ZPowGate, cirq.H]),
                                   max_parallel_allowed=pick(rng, [None, 1, 2, 4]), **kw)


def gateset(rng):
    import cirq
    import cirq_google
    import cirq_ionq
    import cirq_pasqal
    k = int(rng.integers(12))
    if k in (0, 1):
        fams, seen = [], set()
        for _ in range(int(rng.integers(0, 5))):
            f = gate_family(rng) if rbool(rng) else pick(rng, [cirq.XPowGate, cirq.CZ, cirq.H, cirq.MeasurementGate, cirq.ISWAP ** 0.5])
            if repr(f) not in seen:
                seen.add(repr(f))
                fams.append(f)
        return cirq.Gateset(*fams, name=(rname(rng) if rbool(rng) else None), unroll_circuit_op=rbool(rng))
    add = [pick(rng, [cirq.XPowGate, cirq.H, cirq.GateFamily(cirq.T), cirq.CNOT, cirq.ZZPowGate]) for _ in range(int(rng.integers(0, 3)))]
    add = list({repr(a): a for a in add}.values())
    if k in (2, 3, 4):
        pms, ro = pick(rng, [(True, False), (False, False), (False, True)])
        return cirq.CZTargetGateset(atol=pick(rng, [1e-8, 1e-6, 1e-5]), allow_partial_czs=rbool(rng), additional_gates=add,
                                    preserve_moment_structure=pms, reorder_operations=ro)
    if k in (5, 6):
        return cirq.SqrtIswapTargetGateset(atol=pick(rng, [1e-8, 1e-6]), required_sqrt_iswap_count=pick(rng, [None, 1, 2, 3]),
                                           use_sqrt_iswap_inv=rbool(rng), additional_gates=add)
    if k == 7:
        return cirq_google.GoogleCZTargetGateset(atol=pick(rng, [1e-8, 1e-6]), eject_paulis=rbool(rng), additional_gates=add)
    if k == 8:
        return cirq_google.SycamoreTargetGateset(atol=pick(rng, [1e-8, 1e-6, 1e-5]))
    if k == 9:
        return pick(rng, [cirq_ionq.IonQTargetGateset, cirq_ionq.AriaNativeGateset, cirq_ionq.ForteNativeGateset])(
            atol=pick(rng, [1e-8, 1e-6, 1e-5]))
    if k == 10:
        return cirq_pasqal.PasqalGateset(include_additional_controlled_ops=rbool(rng))
    gta = [pick(rng, [cirq.ISWAP, cirq.CZ, cirq.FSimGate(0.5, 0.25), cirq.ISwapPowGate, cirq.CZPowGate, cirq.SQRT_ISWAP])
           for _ in range(int(rng.integers(0, 3)))]
    gta = list({repr(a): a for a in gta}.values())
    gtc = [pick(rng, [cirq.FSimGate, cirq.PhasedFSimGate, cirq.ISwapPowGate, cirq.CZPowGate, cirq.IdentityGate,
                      cirq.PhasedISwapPowGate]) for _ in range(int(rng.integers(0, 4)))]
    gtc = list({repr(a): a for a in gtc}.values())
    return cirq_google.FSimGateFamily(gates_to_accept=gta, gate_types_to_check=gtc, allow_symbols=rbool(rng),
                                      atol=pick(rng, [1e-6, 1e-4, 1e-8]))


def grid_metadata(rng):
    import cirq
    rows, cols = int(rng.integers(1, 3)), int(rng.integers(2, 4))
    qs = [cirq.GridQubit(r, c) for r in range(rows) for c in range(cols)]
    pairs = [(a, b) for a in qs for b in qs if a < b and a.is_adjacent(b) and rng.random() < 0.8]
    fams = [cirq.GateFamily(cirq.XPowGate), cirq.GateFamily(cirq.ZPowGate, tags_to_accept=["physical_z"]) if rbool(rng)
            else cirq.GateFamily(cirq.ZPowGate), cirq.GateFamily(cirq.CZ), cirq.GateFamily(cirq.MeasurementGate)]
    fams = fams[:int(rng.integers(1, 5))]
    gs = cirq.Gateset(*fams, name=(rname(rng) if rbool(rng) else None))
    kw = {}
    if rbool(rng):
        kw["gate_durations"] = {f: duration_numeric(rng) for f in fams if rbool(rng)}
    if rbool(rng):
        extra = [cirq.GridQubit(5, 5)] if rbool(rng) else []
        kw["all_qubits"] = qs + extra
    if rbool(rng):
        kw["compilation_target_gatesets"] = [pick(rng, [
            cirq.CZTargetGateset(), cirq.SqrtIswapTargetGateset(),
            cirq.CZTargetGateset(allow_partial_czs=True, preserve_moment_structure=False, reorder_operations=rbool(rng)),
            cirq.SqrtIswapTargetGateset(use_sqrt_iswap_inv=True)])]
    return cirq.GridDeviceMetadata(pairs, gs, **kw)


def duration_numeric(rng):
    import cirq
    return cirq.Duration(picos=int(rng.integers(1, 100000))) if rbool(rng) else cirq.Duration(nanos=int(rng.integers(1, 500)))


def device_like(rng):
    import cirq
    import cirq_google
    import cirq_pasqal
    import networkx as nx
    k = int(rng.integers(9))
    if k == 0:
        return grid_metadata(rng)
    if k == 1:
        n = int(rng.integers(2, 6))
        qs = cirq.LineQubit.range(n)
        g = nx.Graph()
        g.add_nodes_from(qs)
        for i in range(n - 1):
            if rng.random() < 0.8:
                g.add_edge(qs[i], qs[i + 1])
        return cirq.DeviceMetadata(qs, g)
    if k == 2:
        return cirq_google.GridDevice(grid_metadata(rng))
    if k == 3:
        qs = list({repr(q): q for q in [q_named(rng) for _ in range(int(rng.integers(1, 5)))]}.values())
        return cirq_pasqal.PasqalDevice(qs)
    if k == 4:
        kind = int(rng.integers(3))
        if kind == 0:
            qs = list({repr(q): q for q in [q_3d(rng) for _ in range(4)]}.values())
        elif kind == 1:
            qs = list({repr(q): q for q in [q_2d(rng) for _ in range(4)]}.values())
        else:
            qs = line_qubits(rng, 3)
        return cirq_pasqal.PasqalVirtualDevice(control_radius=pick(rng, [1.0, 1.5, 0.75]), qubits=qs)
    if k == 5:
        return pick(rng, [cirq.UNCONSTRAINED_DEVICE, cirq.NO_NOISE, cirq.UnitSweep])
    if k == 6:
        return cirq.LineTopology(int(rng.integers(2, 9))) if rbool(rng) else cirq.TiltedSquareLattice(int(rng.integers(1, 6)), int(rng.integers(1, 6)))
    if k == 7:
        gt = pick(rng, [cirq.XPowGate, cirq.ZPowGate, cirq.CZPowGate, cirq.MeasurementGate, cirq.PhasedXZGate])
        return cirq.devices.noise_utils.OpIdentifier(gt, *qids_for(rng, (2,) * int(rng.integers(0, 3))))
    return cirq.experiments.GridInteractionLayer(col_offset=int(rng.integers(0, 3)), vertical=rbool(rng), stagger=rbool(rng))


def noise_model(rng):
    import cirq
    from cirq.devices import InsertionNoiseModel, ThermalNoiseModel
    from cirq.devices.noise_utils import OpIdentifier
    k = int(rng.integers(7))
    if k in (0, 1):
        g = spec_gate(rng, pick(rng, [s for s in specs()["c"] if s.shape == (2,)])).obj
        if k == 0:
            return cirq.ConstantQubitNoiseModel(g)
        return cirq.ConstantQubitNoiseModel(g, prepend=rbool(rng))
    if k in (2, 3):
        ops = {}
        for _ in range(int(rng.integers(0, 3))):
            gt = pick(rng, [cirq.XPowGate, cirq.HPowGate, cirq.ZPowGate])
            q = q_line(rng)
            oid = OpIdentifier(gt, q) if rbool(rng) else OpIdentifier(gt)
            tq = q
            ops[oid] = pick(rng, [cirq.bit_flip(0.25), cirq.depolarize(0.125), cirq.phase_damp(0.5)]).on(tq)
        return InsertionNoiseModel(ops_added=ops, prepend=rbool(rng), require_physical_tag=rbool(rng))
    if k == 4:
        qs = line_qubits(rng, int(rng.integers(1, 4)))

        def rate():
            r = rng.random()
            if r < 0.3:
                return None
            if r < 0.6:
                return float(pick(rng, [1e-5, 2e-4, 1e-3]))
            return {q: float(pick(rng, [1e-5, 2e-4, 1e-3, 5e-4])) for q in qs}
        return ThermalNoiseModel(qubits=set(qs), gate_durations_ns={cirq.ZPowGate: float(pick(rng, [5.0, 25.0])),
                                                                    cirq.CZPowGate: float(pick(rng, [12.0, 32.0]))},
                                 heat_rate_GHz=rate(), cool_rate_GHz=rate(), dephase_rate_GHz=rate(),
                                 require_physical_tag=rbool(rng), skip_measurements=rbool(rng), prepend=rbool(rng))
    if k == 5:
        return cirq.NO_NOISE
    return google_noise_props(rng, model=rbool(rng))


def google_noise_props(rng, model=False):
    import cirq
    import cirq_google
    from cirq.devices.noise_utils import OpIdentifier
    qs = grid_qubits(rng, int(rng.integers(1, 3)))
    qs = sorted(qs)
    gts = [cirq.ZPowGate, cirq.MeasurementGate, cirq.ResetChannel, cirq.PhasedXZGate, cirq.FSimGate, cirq.ISwapPowGate,
           cirq.CZPowGate, cirq_google.SycamoreGate]
    gate_times = {g: float(pick(rng, [25.0, 32.0, 4000.0, 250.0, 12.0])) for g in gts}
    pauli = {}
    for g in [cirq.ZPowGate, cirq.MeasurementGate, cirq.ResetChannel, cirq.PhasedXZGate]:
        for q in qs:
            pauli[OpIdentifier(g, q)] = float(pick(rng, [0.001, 0.002, 0.0005, 0.003]))
    fsim = {}
    if len(qs) == 2:
        for g in [cirq.FSimGate, cirq.ISwapPowGate, cirq.CZPowGate, cirq_google.SycamoreGate]:
            for pair in [(qs[0], qs[1]), (qs[1], qs[0])]:
                pauli[OpIdentifier(g, *pair)] = float(pick(rng, [0.01, 0.02, 0.015]))
            if rbool(rng):
                for pair in [(qs[0], qs[1]), (qs[1], qs[0])]:
                    fsim[OpIdentifier(g, *pair)] = cirq.PhasedFSimGate(theta=0.01 * int(rng.integers(1, 9)), zeta=0.03, chi=0.04,
                                                                       gamma=0.05, phi=0.02)
    props = cirq_google.GoogleNoiseProperties(
        gate_times_ns=gate_times, t1_ns={q: float(pick(rng, [1e4, 2e4, 3e4])) for q in qs},
        tphi_ns={q: float(pick(rng, [1e10, 2e5, 3.75e5])) for q in qs},
        readout_errors={q: [float(pick(rng, [0.004, 0.005])), float(pick(rng, [0.007, 0.009]))] for q in qs},
        gate_pauli_errors=pauli, fsim_errors=fsim)
    if model:
        return cirq.devices.NoiseModelFromNoiseProperties(props)
    return props


# ------------------------------------------------------------------ observables / work
def init_obs_setting(rng, qs=None):
    import cirq
    qs = qs or line_qubits(rng, int(rng.integers(1, 4)))
    states = [cirq.KET_PLUS, cirq.KET_MINUS, cirq.KET_IMAG, cirq.KET_MINUS_IMAG, cirq.KET_ZERO, cirq.KET_ONE]
    init = cirq.ProductState({q: pick(rng, states) for q in qs})
    obs = cirq.PauliString({q: pick(rng, [cirq.X, cirq.Y, cirq.Z]) for q in qs if rng.random() < 0.8})
    return cirq.work.InitObsSetting(init_state=init, observable=obs)


def circuit_params(rng):
    import sympy
    d = {}
    for _ in range(int(rng.integers(0, 3))):
        d[pick(rng, ["beta", "gamma", "t"])] = pick(rng, [rfloat(rng), int(rng.integers(0, 9))])
    return d


def work_value(rng):
    import cirq
    k = int(rng.integers(7))
    if k == 0:
        return init_obs_setting(rng)
    if k == 1:
        return cirq.work._MeasurementSpec(max_setting=init_obs_setting(rng), circuit_params=circuit_params(rng))
    if k == 2:
        return cirq.work.ObservableMeasuredResult(setting=init_obs_setting(rng), mean=rfloat(rng), variance=rfloat(rng) ** 2,
                                                  repetitions=int(rng.integers(1, 100000)), circuit_params=circuit_params(rng))
    if k == 3:
        return cirq.work.RepetitionsStoppingCriteria(int(rng.integers(1, 100000)), repetitions_per_chunk=int(rng.integers(1, 20000)))
    if k == 4:
        return cirq.work.VarianceStoppingCriteria(rfloat(rng) ** 2 + 1e-6, repetitions_per_chunk=int(rng.integers(1, 20000)))
    if k == 5:
        qs = line_qubits(rng, 2)
        ms = init_obs_setting(rng, qs)
        spec = cirq.work._MeasurementSpec(max_setting=ms, circuit_params=circuit_params(rng))
        n = int(rng.integers(0, 3))
        chunks = [int(rng.integers(1, 4)) for _ in range(n)]
        bits = rng.integers(0, 2, size=(sum(chunks), 2)).astype(np.uint8)
        ts = np.array([np.datetime64(datetime.datetime(2021, 3, 4, 5, 6, 7, 1000 * i)) for i in range(n)], dtype="datetime64[us]")
        return cirq.work.BitstringAccumulator(meas_spec=spec, simul_settings=[ms], qubit_to_index={q: i for i, q in enumerate(qs)},
                                              bitstrings=bits, chunksizes=np.array(chunks, dtype=np.int64), timestamps=ts)
    qs = line_qubits(rng, 2)
    return cirq.experiments.SingleQubitReadoutCalibrationResult(
        zero_state_errors={q: rprob(rng) for q in qs}, one_state_errors={q: rprob(rng) for q in qs},
        repetitions=int(rng.integers(1, 10000)), timestamp=float(rng.uniform(1e9, 2e9)))


def experiments_value(rng):
    import cirq
    k = int(rng.integers(4))
    if k == 0:
        q = line_qubits(rng, 3)
        m1 = np.array([[0.75, 0.25], [0.125, 0.875]])
        m2 = np.array([[0.5, 0.5], [0.25, 0.75]])
        if rbool(rng):
            return cirq.TensoredConfusionMatrices([m1, m2], [[q[0]], [q[1]]], repetitions=int(rng.integers(1, 10000)),
                                                  timestamp=float(rng.uniform(1e9, 2e9)))
        return cirq.TensoredConfusionMatrices(m1, [q[2]], repetitions=int(rng.integers(1, 10000)), timestamp=float(rng.uniform(1e9, 2e9)))
    if k == 1:
        kw = {}
        for nm in ["theta", "zeta", "chi", "gamma", "phi"]:
            if rbool(rng):
                kw["characterize_" + nm] = rbool(rng)
            if rbool(rng):
                kw[nm + "_default"] = rfloat(rng)
        return cirq.experiments.XEBPhasedFSimCharacterizationOptions(**kw)
    if k == 2:
        return clifford_state(rng)
    return stabilizer_ch_form(rng)


def stabilizer_ch_form(rng, n=None):
    import cirq
    n = n or int(rng.integers(1, 4))
    st = cirq.StabilizerStateChForm(n, initial_state=int(rng.integers(0, 2 ** n)))
    for _ in range(int(rng.integers(0, 6))):
        k = int(rng.integers(4 if n > 1 else 3))
        a = int(rng.integers(n))
        if k == 0:
            st.apply_h(a)
        elif k == 1:
            st.apply_z(a, pick(rng, [0.5, 1, 1.5]))
        elif k == 2:
            st.apply_x(a, 1)
        else:
            b = int((a + 1 + rng.integers(n - 1)) % n)
            st.apply_cz(a, b)
    return st


def clifford_state(rng):
    import cirq
    n = int(rng.integers(1, 4))
    qs = line_qubits(rng, n)
    return cirq.CliffordState({q: i for i, q in enumerate(qs)}, initial_state=stabilizer_ch_form(rng, n))


# ------------------------------------------------------------------ google workflow dataclasses
def google_workflow(rng):
    import cirq
    import cirq_google
    k = int(rng.integers(12))
    if k == 0:
        return cirq_google.BitstringsMeasurement(int(rng.integers(1, 10000)))
    if k == 1:
        return cirq_google.KeyValueExecutableSpec(executable_family=rname(rng),
                                                  key_value_pairs=tuple((rname(rng) + str(i), pick(rng, [1, 2.5, "v"])) for i in range(int(rng.integers(0, 3)))))
    if k == 2:
        return quantum_executable(rng)
    if k == 3:
        return cirq_google.QuantumExecutableGroup([quantum_executable(rng) for _ in range(int(rng.integers(1, 3)))])
    if k == 4:
        return pick(rng, [cirq_google.EngineProcessorRecord(rname(rng)),
                          cirq_google.SimulatedProcessorRecord("rainbow", noise_strength=pick(rng, [0, 0.001, float("inf")])),
                          cirq_google.SimulatedProcessorWithLocalDeviceRecord("rainbow", noise_strength=pick(rng, [0, 0.001]))])
    if k == 5:
        return cirq_google.QuantumRuntimeConfiguration(
            processor_record=cirq_google.SimulatedProcessorWithLocalDeviceRecord("rainbow"),
            run_id=(rname(rng) if rbool(rng) else None), random_seed=(int(rng.integers(0, 99)) if rbool(rng) else None),
            qubit_placer=pick(rng, [cirq_google.NaiveQubitPlacer(), cirq_google.RandomDevicePlacer()]),
            target_gateset=pick(rng, [None, cirq.CZTargetGateset(), cirq.SqrtIswapTargetGateset(use_sqrt_iswap_inv=True)]))
    if k == 6:
        qs = grid_qubits(rng, 2)
        return cirq_google.RuntimeInfo(execution_index=int(rng.integers(0, 9)),
                                       qubit_placement=({(0, i): q for i, q in enumerate(qs)} if rbool(rng) else None),
                                       timings_s={rname(rng): rfloat(rng) ** 2} if rbool(rng) else {})
    if k == 7:
        t0 = datetime.datetime(2022, 1, int(rng.integers(1, 28)), 3, 4, 5, tzinfo=datetime.timezone.utc)
        return cirq_google.SharedRuntimeInfo(run_id=rname(rng), device=(cirq.UNCONSTRAINED_DEVICE if rbool(rng) else None),
                                             run_start_time=(t0 if rbool(rng) else None),
                                             run_end_time=(t0 + datetime.timedelta(seconds=30) if rbool(rng) else None))
    if k == 8:
        return cirq_google.ExecutableResult(spec=(cirq_google.KeyValueExecutableSpec(executable_family="f", key_value_pairs=(("a", 1),))
                                                  if rbool(rng) else None),
                                            runtime_info=cirq_google.RuntimeInfo(execution_index=int(rng.integers(0, 9))),
                                            raw_data=result_dict(rng))
    if k == 9:
        return cirq_google.ExecutableGroupResultFilesystemRecord(
            runtime_configuration_path="rc.json.gz", shared_runtime_info_path="sri.json.gz",
            executable_result_paths=["r%d.json.gz" % i for i in range(int(rng.integers(0, 3)))], run_id=rname(rng))
    if k == 10:
        topo = cirq.LineTopology(2)
        qs = grid_qubits(rng, 2)
        return cirq_google.HardcodedQubitPlacer({topo: {0: qs[0], 1: qs[1]}})
    rd = result_dict(rng)
    return cirq_google.EngineResult(job_id=rname(rng), params=rd.params, records=rd.records)


def quantum_executable(rng):
    import cirq
    import cirq_google
    c = small_circuit(rng, measure_key="z", symbols=rbool(rng)).freeze()
    kw = {}
    names = sorted(cirq.parameter_names(c))
    if names and rbool(rng):
        kw["params"] = tuple((n, rfloat(rng)) for n in names)
    if rbool(rng):
        kw["spec"] = cirq_google.KeyValueExecutableSpec(executable_family="fam", key_value_pairs=(("n", int(rng.integers(0, 9))),))
    if rbool(rng):
        kw["problem_topology"] = cirq.LineTopology(int(rng.integers(2, 6)))
    # initial_state=ProductState(...) cannot be used: QuantumExecutable.__init__ hashes dataclasses.astuple(self),
    # which turns the ProductState into a dict -> TypeError (constructor bug, outside C11's round-trip scope)
    return cirq_google.QuantumExecutable(circuit=c, measurement=cirq_google.BitstringsMeasurement(int(rng.integers(1, 999))), **kw)


def google_misc(rng):
    import cirq
    import cirq_google
    k = int(rng.integers(8))
    if k == 0:
        return cirq_google.AnalogDetuneCouplerOnly(length=pick(rng, [rsymbol(rng), 10, 12.5]), w=pick(rng, [10, 5.5]), g_0=int(rng.integers(1, 9)),
                                                   g_max=int(rng.integers(10, 30)), g_ramp_exponent=pick(rng, [1.0, 2.0]),
                                                   interpolate_coupling_cal=rbool(rng))
    if k == 1:
        return cirq_google.AnalogDetuneQubit(length=int(rng.integers(1, 30)), w=int(rng.integers(1, 9)),
                                             target_freq=pick(rng, [None, 8, 6.5, rsymbol(rng)]), prev_freq=pick(rng, [None, 4, 5.5]),
                                             neighbor_coupler_g_dict=pick(rng, [None, {"c_q0_0_q0_1": 5}]), linear_rise=rbool(rng))
    if k == 2:
        return pick(rng, [cirq_google.LZSResetViaResonator, cirq_google.MultilevelResetViaResonator])(num_qubits=int(rng.integers(1, 4)))
    if k == 3:
        return cirq_google.LeakageISWAP(phase_matched=rbool(rng))
    if k == 4:
        qs = line_qubits(rng, 2)
        kw = {}
        for nm in ("depol_probs", "bitflip_probs", "decay_probs"):
            if rbool(rng):
                kw[nm] = {q: rprob(rng) for q in qs if rbool(rng)} or {qs[0]: 0.125}
        return cirq_google.experimental.noise_models.PerQubitDepolarizingWithDampedReadoutNoiseModel(**kw)
    if k == 5:
        return cirq_google.CalibrationLayer(calibration_type=pick(rng, ["xeb", "floquet"]), program=small_circuit(rng),
                                            args={"type": pick(rng, ["full", "half"]), "samples": int(rng.integers(1, 500)), "w": rfloat(rng)})
    if k == 6:
        qs = qids_for(rng, (2,) * int(rng.integers(1, 3)))
        return cirq.ProjectorString({q: int(rng.integers(0, 2)) for q in qs}, coefficient=pick(rng, [1, 0.5, 20.25, 1j, -2.5 + 0.5j]))
    qs = line_qubits(rng, 2)
    return cirq.ProjectorSum.from_projector_strings([cirq.ProjectorString({q: int(rng.integers(0, 2)) for q in qs if rbool(rng)} or {qs[0]: 1},
                                                                          coefficient=pick(rng, [1, 0.5, 2.0])) for _ in range(int(rng.integers(1, 3)))])


# ------------------------------------------------------------------ registry
def build_generators():
    """(name, fn(rng) -> Val) for every typed generator."""
    import cirq
    S = specs()
    gens = []

    def add(name, fn, kind="value"):
        def wrapped(rng, fn=fn, name=name, kind=kind):
            v = fn(rng)
            if isinstance(v, Val):
                return v
            return Val(v, name, kind=kind)
        gens.append((name, wrapped))

    for spec in S["u"] + S["c"]:
        add("gate:" + spec.name, lambda rng, spec=spec: spec_gate(rng, spec), "gate")
    for i in range(3):
        add("othergate/%d" % i, other_gate, "gate")
    for q in [q_line, q_grid, q_named, q_lineqid, q_gridqid, q_namedqid, q_3d, q_2d, q_asqid, q_coupler]:
        add("qid:" + q.__name__, q, "qid")
    add("qid:noid", lambda rng: cirq.testing.NoIdentifierQubit(), "qid")
    add("op:base", base_op, "op")
    for i in range(4):
        add("op:decorated/%d" % i, decorated_op, "op")
    add("op:constructed", constructed_wrapper_op, "op")
    add("op:constructed/1", constructed_wrapper_op, "op")
    add("op:measure", measure_op, "op")
    add("op:pauli", pauli_like_op, "op")
    add("op:pauli/1", pauli_like_op, "op")
    add("paulistring", pauli_string, "op")
    add("paulisum", pauli_sum)
    add("densepauli", dense_pauli, "gate")
    add("moment", lambda rng: moment(rng, with_tags=True), "moment")
    add("moment/1", lambda rng: moment(rng, with_tags=True), "moment")
    add("circuit", lambda rng: circuit(rng, frozen=False), "circuit")
    add("circuit/1", lambda rng: circuit(rng, frozen=False), "circuit")
    add("frozencircuit", lambda rng: circuit(rng, frozen=True), "circuit")
    add("frozencircuit/1", lambda rng: circuit(rng, frozen=True), "circuit")
    for i in range(4):
        add("circuitop/%d" % i, circuit_op, "op")
    add("near-twin-subcircuits", near_twin_subcircuits, "circuit")
    add("derived-after-queries", derived_after_queries)
    add("derived-after-queries/1", derived_after_queries)
    for i in range(3):
        add("sweep/%d" % i, sweep, "sweep")
    add("resolver", param_resolver)
    add("result", result_dict, "result")
    add("result/1", result_dict, "result")
    add("classicalstore", classical_store)
    add("condition", condition)
    add("condition/1", condition)
    add("measkey", meas_key)
    add("duration", duration)
    add("lineardict", linear_dict)
    add("productstate", product_state)
    add("controlvalues", control_values)
    add("tag", tag)
    add("payload", plain_payload, "payload")
    add("payload/1", plain_payload, "payload")
    add("gatefamily", gate_family, "gateset")
    add("gateset", gateset, "gateset")
    add("gateset/1", gateset, "gateset")
    add("gateset/2", gateset, "gateset")
    add("device", device_like, "device")
    add("device/1", device_like, "device")
    add("noise", noise_model, "noise")
    add("noise/1", noise_model, "noise")
    add("noise/2", noise_model, "noise")
    add("work", work_value)
    add("work/1", work_value)
    add("experiments", experiments_value)
    add("tableau", clifford_tableau)
    add("cliffordgate", clifford_gate, "gate")
    add("google-workflow", google_workflow)
    add("google-workflow/1", google_workflow)
    add("google-misc", google_misc)
    add("google-misc/1", google_misc)
    add("measurement-type", lambda rng: pick(rng, list(cirq.MeasurementType)))
    return gens


# ------------------------------------------------------------------ (b) repr-literal mutation
def _perturb_number(tok, rng):
    s = tok.replace("_", "")
    try:
        if s.lower().endswith("j"):
            return None
        if any(c in s.lower() for c in ".e") and not s.lower().startswith("0x"):
            v = float(s)
            choices = [v * 1.25 if v else 0.125, v + 0.125, v / 2 if v else 0.5, v + 1.0, 0.625, 0.0]
            nv = float(pick(rng, choices))
            if nv == v:
                nv = v + 0.375
            return repr(nv)
        v = int(s, 0)
        nv = int(pick(rng, [v + 1, v + 2, v - 1 if v > 0 else v + 3, 2 * v if v else 2, 0 if v else 1]))
        if nv == v:
            nv = v + 1
        return repr(nv)
    except ValueError:
        return None


def _perturb_string(tok, rng):
    import ast
    try:
        v = ast.literal_eval(tok)
    except Exception:
        return None
    if not isinstance(v, str):
        return None
    nv = pick(rng, [v + "x", v + "_2", "z" + v, v.upper() if v.upper() != v else v + "q", v + " y"])
    return repr(nv)


def mutate_repr(text, rng, max_changes=3, numbers=True):
    """Perturb 1..max_changes numeric / string literals of a repr text.  Returns (new_text, n_changed)."""
    try:
        toks = list(tokenize.generate_tokens(io.StringIO(text).readline))
    except (tokenize.TokenError, IndentationError, SyntaxError):
        return None, 0
    kinds = (tokenize.NUMBER, tokenize.STRING) if numbers else (tokenize.STRING,)
    idx = [i for i, t in enumerate(toks) if t.type in kinds]
    if not idx:
        return None, 0
    k = int(rng.integers(1, max_changes + 1))
    chosen = set(int(i) for i in rng.choice(idx, size=min(k, len(idx)), replace=False))
    # splice by character offsets so that the rest of the text is untouched
    lines = text.splitlines(keepends=True)
    starts = [0]
    for ln in lines:
        starts.append(starts[-1] + len(ln))
    edits = []
    for i in chosen:
        t = toks[i]
        new = _perturb_number(t.string, rng) if t.type == tokenize.NUMBER else _perturb_string(t.string, rng)
        if new is None:
            continue
        if t.start[0] != t.end[0]:
            continue
        a = starts[t.start[0] - 1] + t.start[1]
        b = starts[t.end[0] - 1] + t.end[1]
        edits.append((a, b, new))
    if not edits:
        return None, 0
    out = text
    for a, b, new in sorted(edits, reverse=True):
        out = out[:a] + new + out[b:]
    return out, len(edits)


# ------------------------------------------------------------------ (c) composition
def compose(rng, gens):
    """Nest generated values to depth <= 3.  Returns Val with info = {'shared': n_shared_frozen_circuits, 'depth': d}."""
    import cirq
    mode = int(rng.integers(6))

    def leaf():
        for _ in range(10):
            name, fn = gens[int(rng.integers(len(gens)))]
            v = fn(rng)
            o = v.obj
            # pandas / bare numpy payloads are exercised at top level; inside containers keep values whose == is a bool
            if type(o).__module__.split(".")[0] in ("pandas",) or isinstance(o, np.ndarray):
                continue
            return o
        return 1

    def nest(depth):
        r = rng.random()
        if depth >= 3 or r < 0.35:
            return leaf()
        if r < 0.7:
            return [nest(depth + 1) for _ in range(int(rng.integers(0, 4)))]
        return {pick(rng, ["a", "b", "k", "x y", "0"]) + str(i): nest(depth + 1) for i in range(int(rng.integers(0, 4)))}

    if mode in (0, 1):
        return Val(nest(0) if mode == 0 else [nest(1), nest(1)], "compose:containers", kind="composite", info={"shared": 0})
    if mode == 2:
        return Val({"k%d" % i: nest(1) for i in range(int(rng.integers(1, 4)))}, "compose:dict", kind="composite", info={"shared": 0})
    # shared FrozenCircuit at different depths
    key = rkeyname(rng)
    fc = small_circuit(rng, measure_key=(key if rbool(rng) else None), symbols=rbool(rng)).freeze()
    if rng.random() < 0.3:
        fc = fc.with_tags(*tags(rng))
    op1 = circuit_op(rng, fc)
    op2 = cirq.CircuitOperation(fc, repetitions=int(pick(rng, [1, 2, 3])))
    mid = cirq.Circuit(cirq.Moment([op1]), cirq.Moment([op2.with_tags(tag(rng)) if rbool(rng) else op2])).freeze()
    op_mid = cirq.CircuitOperation(mid, repetitions=int(pick(rng, [1, 2])))
    outer = cirq.Circuit(cirq.Moment([op_mid]), cirq.Moment([cirq.CircuitOperation(fc)]))
    if mode == 3:
        return Val(outer, "compose:nested-circuitop", kind="composite", info={"shared": 1, "fc": fc})
    if mode == 4:
        val = {"a": fc, "b": [cirq.CircuitOperation(fc, repetitions=2), {"deep": [outer, fc]}], "c": mid}
        return Val(val, "compose:shared-in-dict", kind="composite", info={"shared": 1, "fc": fc})
    fc2 = small_circuit(rng).freeze()
    val = [cirq.CircuitOperation(fc2), outer.freeze(), [cirq.CircuitOperation(fc2, repetitions=3), {"x": op_mid, "y": fc2}], nest(2)]
    return Val(val, "compose:two-shared", kind="composite", info={"shared": 2, "fc": fc, "exact": False})
