"""Abstract programs for the wire-format property (C16).  No cirq / sympy imports: the output is plain
Python (dicts, lists, tuples, numbers, strings) that the driver turns into Cirq objects and, separately,
uses as the expected value of the structural comparator.

Value specs
    number                      int / float
    ("sym", name)               sympy.Symbol
    ("expr", template, names, consts)   see EXPR_TEMPLATES in the driver
    ("tu", number, unit)        tunits value
Qubit specs   ("g", row, col) | ("l", x) | ("n", name)
Tag specs     ("physz",) ("fsimvia",) ("twopulse",) ("compress",) ("cal", token) ("dd", protocol)
              ("internal", name, package, ((k, v), ...)) ("raw", value)
Condition     ("key", name, index) | ("bitmask", name, index, target, equal, bitmask|None)
              | ("sympy", template, (keys...), const)
Operation     {"k": kind, "p": {...}, "q": [qubit...], "t": [tag...], "c": [cond...]}
CircuitOp     {"k": "CircuitOp", "sub": circuit, "reps", "qmap", "kmap", "pmap", "rep_ids", "use_ids",
               "until", "q", "t": [], "c": [...]}
Moment        {"ops": [...], "tags": [...]}
Circuit       {"m": [moment...], "tags": [...]}
"""
from __future__ import annotations

import copy

SPECIAL = [0.0, -0.0, 0.25, -0.25, 0.5, -0.5, 1.0, -1.0, 2.0, 0.1, 1 / 3, 0.75, 1.5, -1.25, 3.0, 1e-3, 0.123456789]
SYMBOLS = ["a", "b", "theta", "s_1", "phi"]
N_EXPR_TEMPLATES = 10
NAMES = ["alice", "bob", "anc", "q_a", "qb3", "x", "y.z", "data-1", "Q 0", "w"]
KEYS = ["m", "m2", "k_0", "z", "out", "meas key"]
RAW_TAGS = ["a", "A", "a ", "", 1, 2, 0, 1.5, 0.1, -0.0, True, False, b"xy", b"", ("x", 1), ("x", 2), ("x", ("y", 0.5)),
            2 + 3j, (1, 2, 3), (True, False), (0.5, 1.5), ("s", "t"), frozenset(["u", 7]), "tag with spaces", "é"]

ONE_Q_UNITARY = ["XPow", "YPow", "ZPow", "HPow", "PhasedXPow", "PhasedXZ", "Clifford", "Identity"]
TWO_Q_UNITARY = ["CZPow", "ISwapPow", "FSim", "SYC", "WILLOW"]
EXPONENT_KINDS = {"XPow", "YPow", "ZPow", "HPow", "CZPow", "ISwapPow"}

W_FULL = {
    "XPow": 3, "YPow": 2, "ZPow": 3, "HPow": 1, "PhasedXPow": 2, "PhasedXZ": 2, "Clifford": 1, "Identity": 1,
    "Measure": 2.5, "Wait": 1, "WaitUnit": 0.5, "Reset": 0.7, "MLReset": 0.2, "LZSReset": 0.2, "Internal": 1.2,
    "Depol": 0.5, "RandomGate": 0.6, "AnalogDetuneQubit": 0.3, "AnalogDetuneCouplerOnly": 0.2,
    "CZPow": 3, "ISwapPow": 2, "FSim": 2.5, "SYC": 1, "WILLOW": 0.5, "CouplerPulse": 0.6, "LeakageISWAP": 0.3,
    "CircuitOp": 1.8,
}
W_UNITARY = {
    "XPow": 3, "YPow": 2, "ZPow": 3, "HPow": 1, "PhasedXPow": 2, "PhasedXZ": 2, "Clifford": 1, "Identity": 1,
    "Wait": 0.5, "CZPow": 3, "ISwapPow": 2, "FSim": 2.5, "SYC": 1, "WILLOW": 0.5, "CircuitOp": 1.5,
}
ARITY = {"CZPow": 2, "ISwapPow": 2, "FSim": 2, "SYC": 2, "WILLOW": 2, "CouplerPulse": 2, "LeakageISWAP": 2,
         "AnalogDetuneCouplerOnly": 1}


def _ri(rng, lo, hi):
    return int(rng.integers(lo, hi))


def _choice(rng, seq):
    return seq[int(rng.integers(len(seq)))]


def _wchoice(rng, weights):
    names = list(weights)
    w = [float(weights[n]) for n in names]
    tot = sum(w)
    u = float(rng.random()) * tot
    acc = 0.0
    for n, x in zip(names, w):
        acc += x
        if u <= acc:
            return n
    return names[-1]


class State:
    """Per-circuit generation state: value / tag / op / sub-circuit palettes that create the
    equal-but-distinct and nearly-equal patterns."""

    def __init__(self, rng, qubits, mode, symbolic):
        self.rng, self.qubits, self.mode, self.symbolic = rng, qubits, mode, symbolic
        base = [_choice(rng, SPECIAL) for _ in range(2)] + [round(float(rng.uniform(-2, 2)), int(rng.integers(2, 9)))
                                                            for _ in range(2)]
        vals = list(base)
        for v in base:
            d = 1e-6 * max(abs(v), 1.0)
            vals += [v + d, v * (1 + 1e-6) if v else 1e-6, -v]
        vals += [0.0, -0.0]
        self.values = vals
        self.ops, self.subs = [], []
        self.syms = [_choice(rng, SYMBOLS) for _ in range(2)]
        self.keys = [_choice(rng, KEYS) for _ in range(3)]
        ntags = _ri(rng, 3, 8)
        self.tags = [self.fresh_tag() for _ in range(ntags)]

    # -- values
    def num(self):
        r = self.rng
        if r.random() < 0.65:
            return _choice(r, self.values)
        if r.random() < 0.5:
            return _choice(r, SPECIAL)
        return float(r.uniform(-4, 4))

    def sym(self):
        return _choice(self.rng, self.syms) if self.rng.random() < 0.8 else _choice(self.rng, SYMBOLS)

    def param(self):
        """number, symbol or expression"""
        r = self.rng
        if not self.symbolic or r.random() < 0.7:
            return self.num()
        if r.random() < 0.45:
            return ("sym", self.sym())
        t = _ri(r, 0, N_EXPR_TEMPLATES)
        c1 = _choice(r, [2, 0.5, -1.5, 3, 0.25, 0.1, 1 / 3, "pi", ("rat", 1, 2), ("rat", 2, 3), 1.000001])
        c2 = _choice(r, [1, -0.5, 0.75, 2, 0.3])
        return ("expr", t, (self.sym(), self.sym()), (c1, c2))

    def prob(self):
        return _choice(self.rng, [0.0, 1.0, 0.5, 0.25, 0.1, 0.1000001, 0.01, 0.3, float(self.rng.uniform(0, 1))])

    # -- tags
    def fresh_tag(self):
        r = self.rng
        u = r.random()
        if u < 0.07 and self.qubits:
            # a plain string tag that spells the wire id of one of the program's qubits (tags, qubits, operations and
            # sub-circuits share one constants table)
            q = _choice(r, self.qubits)
            return ("raw", "%d_%d" % (q[1], q[2]) if q[0] == "g" else (str(q[1]) if q[0] == "l" else q[1]))
        if u < 0.45:
            return ("raw", _choice(r, RAW_TAGS))
        if u < 0.55:
            return ("cal", _choice(r, ["tok", "tok2", "", "abc/def"]))
        if u < 0.65:
            return ("dd", _choice(r, ["X", "Y", "XY4", "XY8"]))
        if u < 0.72:
            return ("compress",)
        if u < 0.78:
            return ("physz",)
        if u < 0.82:
            return ("fsimvia",)
        if u < 0.85:
            return ("twopulse",)
        return ("internal", _choice(r, ["T", "T2"]), _choice(r, ["pkg", "pkg.sub", ""]), self.arg_items(_ri(r, 0, 4)))

    def arg_items(self, n):
        r = self.rng
        names = ["x", "y", "width", "mode", "flag"]
        out, used = [], set()
        for _ in range(n):
            k = _choice(r, names)
            if k in used:
                continue
            used.add(k)
            out.append((k, self.arg_value()))
        return tuple(out)

    def arg_value(self):
        r = self.rng
        u = r.random()
        if u < 0.2:
            return _ri(r, -5, 100)
        if u < 0.4:
            return self.num()
        if u < 0.5:
            return _choice(r, ["s", "", "long string value", "é"])
        if u < 0.58:
            return bool(r.integers(2))
        if u < 0.63:
            return None
        if u < 0.68:
            return complex(self.num(), self.num())
        if u < 0.73:
            return _choice(r, [b"bytes", b"", b"\x00\xff"])
        if u < 0.8:
            return _choice(r, [("x", 1), (1, "x", 0.5), ("a", ("b", 2)), ()])
        if u < 0.86:
            return _choice(r, [(1, 2, 3), (True, False, True), (0.5, 1.5, -2.25), (True, 2), (1, 2.5), ("s", "t")])
        if u < 0.9:
            return ("tu", _choice(r, [1, 2.5, 3.14, 0.1, -4]), _choice(r, ["ns", "us", "GHz", "MHz"]))
        if u < 0.95 and self.symbolic:
            return ("sym", self.sym())
        if self.symbolic:
            return ("expr", _ri(r, 0, N_EXPR_TEMPLATES), (self.sym(), self.sym()), (2, 1))
        return 2 ** 40

    def tags_for(self, kind):
        r = self.rng
        tags = []
        if kind == "ZPow" and r.random() < 0.3:
            tags.append(("physz",))
        if kind == "FSim" and r.random() < 0.4:
            tags.append(("fsimvia",) if r.random() < 0.6 else ("twopulse",))
        if r.random() < 0.35:
            for _ in range(_ri(r, 1, 3)):
                t = _choice(r, self.tags) if r.random() < 0.8 else self.fresh_tag()
                # gate-specific tags are re-created first by the reader; keep them first (the other
                # position is exercised, with its own mechanism key, in the edge section)
                if kind == "ZPow" and t == ("physz",):
                    continue
                if kind == "FSim" and t in (("fsimvia",), ("twopulse",)):
                    continue
                tags.append(t)
        return tags

    # -- classical conditions
    def cond(self):
        r = self.rng
        key = _choice(r, self.keys)
        u = r.random()
        if u < 0.45:
            return ("key", key, _choice(r, [-1, -1, -2, 0, 1]))
        if u < 0.7:
            return ("bitmask", key, _choice(r, [-1, -2, 0]), _ri(r, 0, 8), bool(r.integers(2)),
                    _choice(r, [None, 0, 0, 1, 3, 6, 255, 1 << 40]))
        return ("sympy", _ri(r, 0, 8), (key, _choice(r, self.keys)), _ri(r, 0, 4))


def gen_qubits(rng, n, family=None):
    fam = family or _wchoice(rng, {"grid": 6, "line": 1.5, "named": 1.5, "mixed": 1})
    out = []
    if fam == "grid":
        rows, cols = _ri(rng, 1, 4), _ri(rng, 1, 5)
        r0, c0 = _choice(rng, [0, 0, 1, 5, -2]), _choice(rng, [0, 0, 3, 10, -1])
        cells = [("g", r0 + i, c0 + j) for i in range(max(rows, 3)) for j in range(max(cols, 3))]
        idx = rng.permutation(len(cells))[:n]
        out = [cells[int(i)] for i in idx]
    elif fam == "line":
        xs = rng.permutation(20)[:n]
        off = _choice(rng, [0, 0, 100, -7])
        out = [("l", int(x) + off) for x in xs]
    elif fam == "named":
        idx = rng.permutation(len(NAMES))[:n]
        out = [("n", NAMES[int(i)]) for i in idx]
    else:
        pool = [("g", i, j) for i in range(3) for j in range(3)] + [("l", x) for x in range(5, 9)] + \
               [("n", s) for s in NAMES[:4]]
        idx = rng.permutation(len(pool))[:n]
        out = [pool[int(i)] for i in idx]
    return out


def gen_params(st, kind, nq):
    r = st.rng
    if kind in EXPONENT_KINDS:
        p = {"exponent": st.param()}
        if r.random() < 0.15:
            p["shift"] = _choice(r, [-0.5, 0.5, 0.25, -0.25, 1.0])
        return p
    if kind == "PhasedXPow":
        p = {"exponent": st.param(), "phase_exponent": st.param()}
        if r.random() < 0.15:
            p["shift"] = _choice(r, [-0.5, 0.5, 0.25])
        return p
    if kind == "PhasedXZ":
        return {"x": st.param(), "z": st.param(), "a": st.param()}
    if kind == "FSim":
        return {"theta": st.param(), "phi": st.param()}
    if kind == "Clifford":
        return {"index": _ri(r, 0, 24)}
    if kind == "Identity":
        return {"n": nq}
    if kind == "Measure":
        mask = _choice(r, [(), (), (True,), (False,), tuple(bool(b) for b in r.integers(0, 2, size=nq)),
                           tuple(bool(b) for b in r.integers(0, 2, size=max(1, nq - 1)))])
        mask = tuple(mask[:nq])
        return {"key": _choice(r, st.keys) if r.random() < 0.8 else _choice(r, KEYS), "mask": mask}
    if kind == "Wait":
        v = st.param() if st.mode != "unitary" else st.num()
        if isinstance(v, (int, float)):
            v = abs(v) * 10
        return {"nanos": v, "n": nq}
    if kind == "WaitUnit":
        return {"dur": ("tu", _choice(r, [1, 2.5, 10, 0.1, 1000]), _choice(r, ["ns", "us"])), "n": nq}
    if kind == "Reset":
        return {}
    if kind in ("MLReset", "LZSReset", "SYC", "WILLOW"):
        return {}
    if kind == "LeakageISWAP":
        return {"phase_matched": bool(r.integers(2))}
    if kind == "Internal":
        return {"name": _choice(r, ["G", "G2", "PulseGate"]), "module": _choice(r, ["mod", "mod.sub", ""]), "n": nq,
                "args": st.arg_items(_ri(r, 0, 5))}
    if kind == "Depol":
        # p = 0 / 1 come back as Python ints, which the reader rejects (mechanism key in the edge section)
        return {"p": _choice(r, [0.5, 0.25, 0.1, 0.1000001, 0.01, 0.3, float(r.uniform(0.001, 0.7))]), "n": nq}
    if kind == "RandomGate":
        sub = _choice(r, ["XPow", "YPow", "ZPow", "HPow"] if nq == 1 else ["CZPow", "ISwapPow"])
        return {"p": st.prob(), "sub": sub, "sub_p": {"exponent": st.num()}}
    if kind == "CouplerPulse":
        return {"hold_ps": abs(st.num()) * 1000 + 1, "rise_ps": abs(st.num()) * 1000 + 1, "pad_ps": abs(st.num()) * 1000 + 1,
                "coupling": st.param(), "q0": st.param(), "q1": st.param()}
    if kind == "AnalogDetuneQubit":
        def tu(units):
            return _choice(r, [None, ("tu", _choice(r, [1, 2.5, 5, 0.1]), _choice(r, units))])
        d = _choice(r, [None, (("c_q0_0_q0_1", ("tu", 5, "MHz")),), (("c_q0_0_q0_1", ("tu", 5.5, "MHz")),
                                                                     ("c_q1_0_q0_0", ("tu", -2, "MHz")))])
        return {"length": ("tu", _choice(r, [10, 20.5, 3]), "ns"), "w": ("tu", _choice(r, [1, 0.5]), "ns"),
                "target_freq": tu(["GHz", "MHz"]), "prev_freq": tu(["GHz"]), "g": d,
                "prev_g": _choice(r, [None, (("c_q0_0_q0_1", ("tu", 1, "MHz")),)]), "linear_rise": bool(r.integers(2))}
    if kind == "AnalogDetuneCouplerOnly":
        f = lambda: _choice(r, [None, ("tu", _choice(r, [5, 6.5]), "GHz")])  # noqa: E731
        return {"length": ("tu", _choice(r, [10, 20.5]), "ns"), "w": ("tu", _choice(r, [1, 0.5]), "ns"),
                "g_0": ("tu", _choice(r, [0, 5]), "MHz"), "g_max": ("tu", _choice(r, [10, 25.5]), "MHz"),
                "g_ramp_exponent": _choice(r, [1, 2, 1.5]), "nf": (f(), f()), "pnf": (f(), f()),
                "interp": bool(r.integers(2)), "acal": bool(r.integers(2))}
    raise ValueError(kind)


def op_keys(op):
    """measurement keys an operation spec writes (after sub-circuit key maps)"""
    if op["k"] == "Measure":
        return {op["p"]["key"]}
    if op["k"] == "CircuitOp":
        km = dict(op["kmap"])
        return {km.get(k, k) for k in circuit_keys(op["sub"])}
    return set()


def circuit_keys(c):
    out = set()
    for m in c["m"]:
        for op in m["ops"]:
            out |= op_keys(op)
    return out


def circuit_qubits(c):
    out = []
    for m in c["m"]:
        for op in m["ops"]:
            for q in op["q"]:
                if q not in out:
                    out.append(q)
    return out


def circuit_symbols(c):
    out = set()

    def walk(v):
        if isinstance(v, tuple) and v and v[0] == "sym":
            out.add(v[1])
        elif isinstance(v, tuple) and v and v[0] == "expr":
            out.update(v[2])
        elif isinstance(v, (tuple, list)):
            for x in v:
                walk(x)
        elif isinstance(v, dict):
            for x in v.values():
                walk(x)

    for m in c["m"]:
        for op in m["ops"]:
            if op["k"] == "CircuitOp":
                inner = circuit_symbols(op["sub"])
                pm = dict(op["pmap"])
                for s in inner:
                    v = pm.get(s, ("sym", s))
                    walk(v)
            else:
                walk(op["p"])
                walk(op["t"])
    return out


def count_ops(c):
    return sum(len(m["ops"]) for m in c["m"])


def _nudge(st, op):
    """nearly-equal copy: one numeric parameter moved in the 7th digit, or the sign of a zero flipped"""
    op = copy.deepcopy(op)
    nums = [k for k, v in op["p"].items() if isinstance(v, float)]
    if not nums:
        return None
    k = _choice(st.rng, nums)
    v = op["p"][k]
    if v == 0:
        op["p"][k] = -v if st.rng.random() < 0.5 else 1e-6
    else:
        op["p"][k] = v * (1 + 1e-6) if st.rng.random() < 0.5 else v + 1e-6
    if op["k"] in ("Depol", "RandomGate"):
        op["p"]["p"] = min(max(op["p"]["p"], 0.0), 1.0)
    return op


def gen_gate_op(st, free, used_keys, weights):
    """One gate operation on currently free qubits, or None."""
    r = st.rng
    u = r.random()
    # --- reuse patterns -------------------------------------------------------------------------------
    if st.ops and u < 0.5:
        src = _choice(r, st.ops)
        v = r.random()
        op = None
        if v < 0.45:  # exact second / third use (same qubits)
            op = copy.deepcopy(src)
        elif v < 0.65:  # equal gate on different qubits
            if len(free) >= len(src["q"]):
                op = copy.deepcopy(src)
                idx = r.permutation(len(free))[:len(src["q"])]
                op["q"] = [free[int(i)] for i in idx]
        elif v < 0.8:  # equal op, different tags
            op = copy.deepcopy(src)
            keep = [t for t in op["t"] if t in (("physz",), ("fsimvia",), ("twopulse",))][:1] if r.random() < 0.5 else []
            extra = [t for t in st.tags_for("none")]
            if src["k"] == "ZPow":
                extra = [t for t in extra if t != ("physz",)]
            if src["k"] == "FSim":
                extra = [t for t in extra if t not in (("fsimvia",), ("twopulse",))]
            op["t"] = keep + extra
            op["c"] = []
        elif v < 0.9:  # nearly equal parameter
            op = _nudge(st, src)
        else:  # same op with / without a classical control
            op = copy.deepcopy(src)
            if st.mode != "unitary" and op["k"] != "Measure":
                op["c"] = [] if op["c"] else [st.cond()]
                if op["c"]:
                    op["t"] = []  # cirq-core drops tags when a tagged operation is wrapped in a classical control
        if op is not None and all(q in free for q in op["q"]) and not (op_keys(op) & used_keys):
            return op
    # --- fresh -----------------------------------------------------------------------------------------
    for _ in range(6):
        kind = _wchoice(r, weights)
        if kind == "CircuitOp":
            continue
        nq = ARITY.get(kind, 1)
        if kind in ("Measure", "Identity"):
            nq = min(len(free), _choice(r, [1, 1, 2, 3, 4]))
        elif kind in ("Wait", "WaitUnit", "Depol", "RandomGate", "Internal"):
            nq = min(len(free), _choice(r, [1, 1, 2]))
        if nq == 0 or len(free) < nq:
            continue
        idx = r.permutation(len(free))[:nq]
        qs = [free[int(i)] for i in idx]
        p = gen_params(st, kind, nq)
        if kind == "Measure" and p["key"] in used_keys:
            continue
        op = {"k": kind, "p": p, "q": qs, "t": st.tags_for(kind), "c": []}
        if st.mode != "unitary" and kind != "Measure" and r.random() < 0.12:
            op["c"] = [st.cond() for _ in range(_choice(r, [1, 1, 2]))]
            op["t"] = []  # tags and classical controls cannot be combined on the wire (documented ValueError)
        st.ops.append(op)
        if len(st.ops) > 12:
            st.ops.pop(int(r.integers(len(st.ops))))
        return op
    return None


def gen_circuit_op(st, free, used_keys, depth, weights):
    r = st.rng
    if not free:
        return None
    k = min(len(free), _choice(r, [1, 2, 2, 3]))
    idx = r.permutation(len(free))[:k]
    outer = [free[int(i)] for i in idx]
    reuse = st.subs and r.random() < 0.5
    if reuse:
        sub = copy.deepcopy(_choice(r, st.subs))
        if r.random() < 0.3:  # nearly-equal sub-circuit
            cands = [op for m in sub["m"] for op in m["ops"] if op["k"] != "CircuitOp"]
            if cands:
                tgt = _choice(r, cands)
                nud = _nudge(st, tgt)
                if nud is not None:
                    tgt["p"] = nud["p"]
        inner = circuit_qubits(sub)
        if len(inner) > len(free):
            return None
        if len(inner) != len(outer):
            idx = r.permutation(len(free))[:len(inner)]
            outer = [free[int(i)] for i in idx]
    else:
        inner_choice = r.random()
        if inner_choice < 0.5:
            inner = list(outer)
        else:
            pool = list(st.qubits)
            idx = r.permutation(len(pool))[:len(outer)]
            inner = [pool[int(i)] for i in idx]
        sub_st = State(r, inner, st.mode, st.symbolic)
        sub_st.values, sub_st.tags, sub_st.syms, sub_st.keys = st.values, st.tags, st.syms, st.keys
        sub_st.subs = st.subs
        sub = gen_body(sub_st, _ri(r, 1, 7), depth + 1, weights)
        inner = circuit_qubits(sub)
        outer = outer[:len(inner)]
        if len(outer) < len(inner):
            return None
        st.subs.append(copy.deepcopy(sub))
        if len(st.subs) > 4:
            st.subs.pop(0)
    qmap = [(qi, qo) for qi, qo in zip(inner, outer)]
    if all(a == b for a, b in qmap) and r.random() < 0.7:
        qmap_spec = []
    else:
        # unmapped qubits stay themselves, so only drop identity entries
        qmap_spec = [(a, b) for a, b in qmap if a != b or r.random() < 0.3]
        kept_in = {a for a, _ in qmap_spec}
        for a, b in qmap:
            if a not in kept_in and a != b:
                qmap_spec.append((a, b))
    # validity: the image must be injective and unmapped inner qubits must not collide with mapped images
    image = [dict(qmap_spec).get(a, a) for a in inner]
    if len(set(image)) != len(image) or any(q not in free for q in image):
        return None
    keys = sorted(circuit_keys(sub))
    kmap = [(k_, k_ + _choice(r, ["_r", "2", " x"])) for k_ in keys if r.random() < 0.3]
    syms = sorted(circuit_symbols(sub))
    pmap = []
    for s in syms:
        if r.random() < 0.35:
            pmap.append((s, _choice(r, [st.num(), ("sym", st.sym()), _ri(r, -3, 4)])))
    has_meas = bool(keys)
    unitary_sub = st.mode == "unitary"
    reps = _choice(r, [1, 1, 1, 2, 3, 0, 5] + ([-1, -2] if unitary_sub and not has_meas else []))
    rep_ids, use_ids, until = None, False, None
    u = r.random()
    if reps != 0 and u < 0.15:
        # (inverted repetitions carry ids too; a single repetition may be given the id '0' explicitly)
        use_ids = True
        # (an inverted sub-circuit with ids other than the default ones is the recorded finding
        # C16:inverted-repetitions-with-custom-ids-lose-the-inversion - the format holds either a count or a list of ids -
        # and is probed on its own in prog_edges, so that it does not drown the structural comparison here)
        if r.random() < 0.5 and reps != -1:
            pre = _choice(r, ["r", "x", "0", "rep", ""]) if reps > 0 else ""
            rep_ids = [pre + str(i) for i in range(abs(reps))]
    elif reps > 0 and u < 0.22:
        # explicit ids that the operation is told not to use in its keys
        rep_ids = [_choice(r, ["r", "x", "0", "rep"]) + str(i) for i in range(reps)]
    elif has_meas and reps == 1 and u < 0.3 and st.mode != "unitary":
        until = ("key", _choice(r, keys), -1) if r.random() < 0.7 else ("sympy", 0, (_choice(r, keys), keys[0]), 1)
        km = dict(kmap)
        # repeat_until is evaluated on the mapped key
        if until[0] == "key":
            until = ("key", km.get(until[1], until[1]), -1)
        else:
            until = ("sympy", 0, (km.get(until[2][0], until[2][0]), km.get(until[2][1], until[2][1])), 1)
    op = {"k": "CircuitOp", "sub": sub, "reps": reps, "qmap": qmap_spec, "kmap": kmap, "pmap": pmap,
          "rep_ids": rep_ids, "use_ids": use_ids, "until": until, "q": image, "t": [], "c": [], "p": {}}
    if not has_meas and st.mode != "unitary" and r.random() < 0.15:
        op["c"] = [st.cond()]
    if op_keys(op) & used_keys:
        return None
    return op


def gen_body(st, n_ops, depth, weights):
    r = st.rng
    moments = []
    total = 0
    guard = 0
    while total < n_ops and guard < 4 * n_ops + 10:
        guard += 1
        u = r.random()
        if moments and u < 0.12:  # exact copy of an earlier moment
            m = copy.deepcopy(_choice(r, moments))
            moments.append(m)
            total += max(1, len(m["ops"]))
            continue
        if moments and u < 0.2:  # near copy: one op dropped / different moment tags
            m = copy.deepcopy(_choice(r, moments))
            if m["ops"] and r.random() < 0.6:
                m["ops"].pop(int(r.integers(len(m["ops"]))))
            else:
                m["tags"] = [_choice(r, st.tags)] if not m["tags"] else []
            moments.append(m)
            total += max(1, len(m["ops"]))
            continue
        if u < 0.23:
            moments.append({"ops": [], "tags": []})
            total += 1
            continue
        free = list(st.qubits)
        ops, used_keys = [], set()
        want = _ri(r, 1, max(2, len(free) + 1))
        tries = 0
        while free and len(ops) < want and tries < 3 * want:
            tries += 1
            if depth < 2 and "CircuitOp" in weights and r.random() < weights["CircuitOp"] / sum(weights.values()):
                op = gen_circuit_op(st, free, used_keys, depth, weights)
            else:
                op = gen_gate_op(st, free, used_keys, weights)
            if op is None:
                continue
            ops.append(op)
            used_keys |= op_keys(op)
            free = [q for q in free if q not in op["q"]]
        mtags = []
        if r.random() < 0.08:
            mtags.append(_choice(r, st.tags))
        moments.append({"ops": ops, "tags": mtags})
        total += max(1, len(ops))
    ctags = []
    if r.random() < 0.1:
        ctags.append(_choice(r, st.tags))
    return {"m": moments, "tags": ctags}


SYMMETRIC = {"CZPow", "ISwapPow", "FSim", "SYC", "WILLOW"}


def _content_key(m):
    """Moment content up to what Cirq's Moment equality can see at the abstract level (tags of the moment
    itself are NOT part of Moment equality)."""
    ops = []
    for op in m["ops"]:
        o = dict(op)
        o["q"] = sorted(map(tuple, op["q"])) if op["k"] in SYMMETRIC else [tuple(q) for q in op["q"]]
        if op["k"] != "CircuitOp":
            # numbers that Cirq's value equality identifies: -0.0 / 0.0, exponents modulo the period, FSim angles
            p = {}
            for k_, v in op["p"].items():
                if isinstance(v, float):
                    v = v + 0.0
                    if op["k"] in EXPONENT_KINDS and k_ == "exponent" and "shift" not in op["p"]:
                        v = v % (4.0 if op["k"] == "ISwapPow" else 2.0)
                    elif op["k"] == "FSim":
                        v = round(v % (2 * 3.141592653589793), 12)
                    elif k_ in ("phase_exponent", "a", "z"):
                        v = v % 2.0
                p[k_] = v
            o["p"] = p
        ops.append(repr(sorted(o.items(), key=lambda kv: kv[0])))
    return repr(sorted(ops))


def normalise_moment_tags(circuits):
    """Known defect (mechanism C16:moment-tags-lost-on-constants-hit): the constants table is keyed by Moment
    equality, which ignores moment tags.  The random sections keep moment tags equal across moments of equal
    content (so a table hit is legitimate); the mixed pattern is exercised in the edge section."""
    first = {}

    def walk(c):
        for m in c["m"]:
            for op in m["ops"]:
                if op["k"] == "CircuitOp":
                    walk(op["sub"])
            k = _content_key(m)
            if k in first:
                m["tags"] = copy.deepcopy(first[k])
            else:
                first[k] = m["tags"]

    for c in circuits:
        walk(c)


def gen_program(rng, mode=None, n_ops=None, nq=None, family=None):
    """mode 'unitary': <= 5 qubits, unitary gates only (numeric or symbolic); mode 'full': everything."""
    mode = mode or ("unitary" if rng.random() < 0.4 else "full")
    if nq is None:
        nq = _ri(rng, 1, 6) if mode == "unitary" else _ri(rng, 1, 9)
    qubits = gen_qubits(rng, nq, family)
    symbolic = bool(rng.random() < 0.45)
    st = State(rng, qubits, mode, symbolic)
    n = n_ops if n_ops is not None else _ri(rng, 5, 61)
    weights = dict(W_UNITARY if mode == "unitary" else W_FULL)
    body = gen_body(st, n, 0, weights)
    normalise_moment_tags([body])
    return {"mode": mode, "qubits": qubits, "symbolic": symbolic, "circuit": body}
