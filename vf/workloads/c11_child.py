"""Child process of C11 section `pickle_child`.

Started by the driver with a PYTHONHASHSEED different from the parent's.
Reads a batch of (pickle bytes, repr text) pairs written by the parent *after*
the parent computed hash(x) (so any cached hash is populated when pickled),
unpickles each value here, rebuilds a fresh equal value with eval(repr) and
reports, per value:  equality, hash(loaded) == hash(fresh), dict lookup.

usage: python -m vf.workloads.c11_child <batch.pkl> <out.json>
"""
from __future__ import annotations

import json
import os
import pickle
import sys
import warnings


def main():
    warnings.simplefilter("ignore")
    os.environ.setdefault("ALLOW_DEPRECATION_IN_TEST", "True")
    src, dst = sys.argv[1], sys.argv[2]
    batch = pickle.load(open(src, "rb"))
    import cirq  # noqa
    from vf.refmodel.structdiff import peq
    from vf.workloads import jsonvalues as JV

    repo = os.path.abspath(os.environ.get("VERIF_REPO", "/repo"))
    ns = JV.namespace()
    out = {"hashseed": os.environ.get("PYTHONHASHSEED"), "cirq_file": cirq.__file__,
           "root_ok": os.path.abspath(cirq.__file__).startswith(repo + os.sep), "items": []}
    for idx, blob, rep in batch["items"]:
        rec = {"i": idx}
        try:
            loaded = pickle.loads(blob)
        except Exception as e:  # noqa
            rec["error"] = "unpickle:%s:%s" % (type(e).__name__, str(e)[:200])
            out["items"].append(rec)
            continue
        try:
            fresh = eval(rep, dict(ns), {})
        except Exception as e:  # noqa
            rec["skip"] = "eval:%s" % type(e).__name__
            out["items"].append(rec)
            continue
        try:
            rec["eq"] = bool(peq(loaded, fresh)) and bool(peq(fresh, loaded))
            rec["repr_same"] = repr(loaded) == rep
            try:
                hl, hf = hash(loaded), hash(fresh)
                rec["hash_eq"] = hl == hf
                rec["lookup"] = ({fresh: 1}.get(loaded) == 1) and ({loaded: 1}.get(fresh) == 1) and (loaded in {fresh})
                # second unpickle of the same bytes hashes the same
                rec["hash_stable"] = hash(pickle.loads(blob)) == hl
            except TypeError:
                rec["unhashable"] = True
        except Exception as e:  # noqa
            rec["error"] = "compare:%s:%s" % (type(e).__name__, str(e)[:200])
        out["items"].append(rec)
    tmp = dst + ".tmp"
    json.dump(out, open(tmp, "w"))
    os.replace(tmp, dst)


if __name__ == "__main__":
    main()
