"""Shared exception types (kept out of vf.worker, which runs as __main__)."""


class Reject(Exception):
    """Raised by a driver when the generated case is outside the documented domain."""
