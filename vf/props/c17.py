"""C17 - vendor job payloads mean the same as the circuit they were built from.

Observed: cirq_ionq.Serializer (single / batch), cirq_ionq.QPUResult /
SimulatorResult, the chain Service.create_job -> Job.results -> to_cirq_result
over a fake HTTP layer, cirq_aqt.AQTSampler._generate_json /
_parse_legacy_circuit_json / AQTSimulator / AQTSamplerLocalSimulator,
cirq_pasqal.PasqalSampler over a fake endpoint.

Oracle: vendor-side interpreters written from the vendors' gate definitions
(vf.refmodel.ionq_reader / aqt_reader / pasqal_reader) for the payload, the
closed-form catalogue (vf.refmodel.gates) for the submitted abstract program,
plain-Python bit bookkeeping for results.  cirq.unitary of a circuit is never
consulted."""
from __future__ import annotations

import json
import math

import numpy as np

from vf.refmodel import aqt_reader as AR
from vf.refmodel import gates as G
from vf.refmodel import ionq_reader as IR
from vf.refmodel import linalg as L
from vf.refmodel import pasqal_reader as PR
from vf.workloads import gatepool as GP

PACKAGES = ["cirq_ionq", "cirq_aqt", "cirq_pasqal"]
LEVEL = "exploration"
RULE = ("abstract programs (family, parameters, wires) over each vendor's accepted vocabulary: exponents on / within "
        "+-5e-9 / +-2e-8, +-1e-7, +-1e-3 around / away from every special-cased value, shifted by whole periods, "
        "negative and > 2, global shifts, 1-6 LineQubits with sparse indices, 0-4 measurement keys (short, long, "
        "odd characters) with 1-6 permuted targets; result histograms over 1-6 qubits with arbitrary counts and key "
        "layouts.  Distinct by (vendor, families, rounded parameters, wires, key layout); non-trivial when the "
        "program's unitary is not a multiple of the identity or it has a measurement key (payload cases), when the "
        "histogram has >= 2 outcomes or a key that is not the identity layout (result cases)")
ASSUMPTIONS = [
    "vf/refmodel/ionq_reader.py transcribes IonQ's gate semantics (QIS radians, native turns) correctly; pauliexp "
    "term strings are little-endian w.r.t. targets (inferred from serializer.py comment + serializer_test.py)",
    "native zz is read from 'angle' or 'phase' (field-name validation by the IonQ API is out of reach offline)",
    "vf/refmodel/aqt_reader.py: AQT angles are in units of pi, R(theta,phi)=exp(-i theta/2 (cos phi X + sin phi Y))",
    "payload unitary compared up to global phase at 1e-6 (the payload formats cannot express a phase)",
    "the fake IonQ job document has the shape used in cirq_ionq/job_test.py (id,status,backend,metadata,stats.qubits)",
]
MIN_EVAL = {"ionq-payload-unitary": 300, "ionq-measurement-metadata": 200, "ionq-result-views": 300,
            "ionq-job-chain": 60, "aqt-payload-unitary": 100, "aqt-localsim-result": 20, "ionq-rejects-unsupported": 100}
MUST_REACH = [
    "cirq_ionq/serializer.py:Serializer._serialize_x_pow_gate", "cirq_ionq/serializer.py:Serializer._serialize_y_pow_gate",
    "cirq_ionq/serializer.py:Serializer._serialize_z_pow_gate", "cirq_ionq/serializer.py:Serializer._serialize_parity_pow_gate",
    "cirq_ionq/serializer.py:Serializer._serialize_swap_gate", "cirq_ionq/serializer.py:Serializer._serialize_h_pow_gate",
    "cirq_ionq/serializer.py:Serializer._serialize_cnot_pow_gate",
    "cirq_ionq/serializer.py:Serializer._serialize_pauli_string_phasor_gate",
    "cirq_ionq/serializer.py:Serializer._serialize_gpi_gate", "cirq_ionq/serializer.py:Serializer._serialize_gpi2_gate",
    "cirq_ionq/serializer.py:Serializer._serialize_ms_gate", "cirq_ionq/serializer.py:Serializer._serialize_zz_gate",
    "cirq_ionq/serializer.py:Serializer._serialize_measurement_gate", "cirq_ionq/serializer.py:Serializer._near_mod_n",
    "cirq_ionq/serializer.py:Serializer._serialize_measurements", "cirq_ionq/serializer.py:Serializer._validate_circuit",
    "cirq_ionq/serializer.py:Serializer._validate_qubits", "cirq_ionq/serializer.py:Serializer.serialize_many_circuits",
    "cirq_ionq/results.py:QPUResult.ordered_results", "cirq_ionq/results.py:QPUResult.counts",
    "cirq_ionq/results.py:QPUResult.to_cirq_result", "cirq_ionq/results.py:SimulatorResult.probabilities",
    "cirq_ionq/results.py:SimulatorResult.to_cirq_result", "cirq_ionq/job.py:Job.results",
    "cirq_ionq/job.py:Job.measurement_dict", "cirq_aqt/aqt_sampler.py:AQTSampler._generate_json",
    "cirq_aqt/aqt_sampler.py:AQTSampler._parse_legacy_circuit_json",
    "cirq_aqt/aqt_sampler.py:AQTSamplerLocalSimulator._send_json", "cirq_aqt/aqt_device.py:get_op_string",
    "cirq_aqt/aqt_device.py:AQTSimulator.generate_circuit_from_list",
    "cirq_pasqal/pasqal_sampler.py:PasqalSampler.run_sweep",
]

UTOL = 1e-6
_S = {}

# special-cased exponents per family in the IonQ serializer's vocabulary (mod 2)
SPECIAL = {"XPow": [1.0, 0.5, -0.5], "YPow": [1.0], "ZPow": [1.0, 0.5, -0.5, 0.25, -0.25],
           "HPow": [1.0], "CXPow": [1.0], "SwapPow": [1.0], "XXPow": [], "YYPow": [], "ZZPow": []}
OFF_IN = [0.0, 0.0, 1e-9, -1e-9, 5e-9, -5e-9]           # well inside Serializer(atol=1e-8)
OFF_OUT = [2e-8, -2e-8, 1e-7, -1e-7, 1e-3, -1e-3]       # outside it
PERIODS = [0, 0, 0, 0, 1, -1, 2, -2]
ONLY_SPECIAL = ("HPow", "CXPow", "SwapPow")             # families serializable at the special value only
QIS_1Q = ["XPow", "YPow", "ZPow", "HPow", "rx", "ry", "rz"]
QIS_2Q = ["CXPow", "SwapPow", "XXPow", "YYPow", "ZZPow", "ms"]
NATIVE_1Q = ["GPI", "GPI2"]
NATIVE_2Q = ["IonQ_MS", "IonQ_ZZ"]


# ------------------------------------------------------------------ setup
class _Resp:
    def __init__(self, payload=None, text=None):
        self._text = json.dumps(payload) if text is None else text
        self.ok, self.status_code, self.reason = True, 200, "OK"

    def json(self):
        return json.loads(self._text)

    @property
    def text(self):
        return self._text

    def raise_for_status(self):
        return None


class FakeIonQ:
    """Model of the IonQ HTTP API as far as cirq_ionq uses it.  Everything crosses as JSON text."""

    def __init__(self, real):
        self.codes, self.RequestException = real.codes, real.RequestException
        self.reset()

    def reset(self, histogram_for=None):
        self.jobs, self.order, self.histogram_for = {}, [], histogram_for

    def post(self, url, json=None, headers=None, **kw):
        body = _json_copy(json)
        jid = "job-%d" % len(self.order)
        self.jobs[jid] = body
        self.order.append(jid)
        return _Resp({"id": jid, "status": "ready"})

    def get(self, url, params=None, headers=None, **kw):
        tail = url.split("/jobs/", 1)[1]
        parts = tail.split("/")
        body = self.jobs[parts[0]]
        if len(parts) == 1:
            return _Resp({"id": parts[0], "status": "completed", "backend": body["backend"], "type": body["type"],
                          "name": body.get("name", ""), "metadata": body["metadata"],
                          "stats": {"qubits": body["input"]["qubits"]}})
        batch = body["type"] == "ionq.multi-circuit.v1"
        if batch != tail.endswith("/aggregated"):
            raise AssertionError("results endpoint does not match the job type: %s for %s" % (url, body["type"]))
        return _Resp(self.histogram_for(parts[0], body))


class FakePasqal:
    def __init__(self):
        self.posts, self.reply_for = [], None

    def post(self, url, headers=None, data=None, **kw):
        self.posts.append({"url": url, "headers": dict(headers or {}), "data": data})
        return _Resp(text="task-%d" % (len(self.posts) - 1))

    def get(self, url, headers=None, **kw):
        i = int(url.rsplit("task-", 1)[1])
        return _Resp(text=self.reply_for(i, self.posts[i]))


def _json_copy(o):
    return json.loads(json.dumps(o))


def setup(ctx):
    import cirq_ionq
    import cirq_ionq.ionq_client as ic
    import cirq_pasqal.pasqal_sampler as ps

    specs = {s.name: s for s in GP.build_specs() + GP.build_vendor_specs()}
    _S["specs"] = specs
    fake = FakeIonQ(ic.requests)
    ic.requests = fake
    _S["ionq_http"] = fake
    _S["service"] = cirq_ionq.Service(remote_host="http://ionq.invalid", api_key="k", default_target="simulator",
                                      max_retry_seconds=0)
    fp = FakePasqal()
    ps.requests = fp
    _S["pasqal_http"] = fp


# ------------------------------------------------------------------ abstract IonQ programs
def _ionq_exp(rng, fam, supported=True):
    sp = SPECIAL.get(fam, [])
    if fam in ONLY_SPECIAL:
        if supported:
            return 1.0 + float(OFF_IN[rng.integers(len(OFF_IN))]) + 2 * int(PERIODS[rng.integers(len(PERIODS))])
        if rng.random() < 0.5:
            return 1.0 + float(OFF_OUT[rng.integers(len(OFF_OUT))]) + 2 * int(PERIODS[rng.integers(len(PERIODS))])
        e = GP.pick_exp(rng)
        return e if abs((e % 2) - 1) > 1e-3 else 0.5
    r = rng.random()
    if r < 0.6:
        bases = sp + [0.0, 1 / 3, 2.0]
        base = float(bases[rng.integers(len(bases))]) if (sp and rng.random() < 0.8) else float(bases[rng.integers(len(bases))])
        offs = OFF_IN + OFF_OUT
        return base + float(offs[rng.integers(len(offs))]) + 2 * int(PERIODS[rng.integers(len(PERIODS))])
    return GP.pick_exp(rng)


def _pauli_op(rng, k):
    while True:
        s = "".join("IXYZ"[rng.integers(4)] for _ in range(k))
        if rng.random() < 0.9 and set(s) == {"I"}:
            continue
        break
    coef = -1 if rng.random() < 0.3 else 1
    vals = [0.0, 0.25, 0.5, 1.0, -0.5, 1 / 3]
    a = float(vals[rng.integers(len(vals))]) if rng.random() < 0.4 else float(rng.uniform(-1, 1))
    b = float(vals[rng.integers(len(vals))]) if rng.random() < 0.4 else float(rng.uniform(-1, 1))
    return s, coef, a, b


def _pauli_time(coef, e_neg, e_pos):
    """Evolution time of exp(-i time (+P)) for the phasor of coef*P: documented canonical exponents lie in (-1, 1]."""
    if coef == -1:
        e_neg, e_pos = e_pos, e_neg

    def canon(x):
        x = x % 2
        return x - 2 if x > 1 else x
    return math.pi * (canon(e_neg) - canon(e_pos)) / 2


def gen_ionq_program(rng, native=False, max_ops=10, allow_pauli=True):
    """-> dict(idx=[LineQubit indices], ops=[(family, params, wire positions)], keys=[(key, wire positions)])"""
    n = int(rng.integers(1, 7))
    if rng.random() < 0.45:
        idx = sorted(int(x) for x in rng.choice(7, size=n, replace=False))
    else:
        idx = list(range(n))
    nops = int(rng.integers(0 if rng.random() < 0.1 else 1, max_ops + 1))
    ops = []
    for _ in range(nops):
        two = n >= 2 and rng.random() < 0.45
        if native:
            fam = (NATIVE_2Q if two else NATIVE_1Q)[rng.integers(2)]
            p = _S["specs"][fam].sample(rng)
            w = tuple(int(x) for x in rng.choice(n, size=2 if two else 1, replace=False))
        elif allow_pauli and rng.random() < 0.15:
            k = int(rng.integers(1, min(n, 4) + 1))
            w = tuple(int(x) for x in rng.choice(n, size=k, replace=False))
            for _t in range(20):
                p = _pauli_op(rng, k)
                if _pauli_time(p[1], p[2], p[3]) >= 0:
                    break
            else:
                p = (p[0], 1, 0.5, 0.0)
            fam = "pauliexp"
        else:
            fam = (QIS_2Q if two else QIS_1Q)[rng.integers(len(QIS_2Q if two else QIS_1Q))]
            if fam in ("rx", "ry", "rz", "ms"):
                p = (GP.pick_ang(rng),)
            else:
                p = (_ionq_exp(rng, fam), GP.pick_shift(rng))
            w = tuple(int(x) for x in rng.choice(n, size=2 if two else 1, replace=False))
        if ops and fam != "pauliexp" and rng.random() < 0.25:
            # an echo of an earlier operation: same family and wires, all parameters but one repeated (what a cache keyed on
            # too little would confuse)
            cands = [o for o in ops if o[0] == fam and len(o[1]) == len(p)]
            if cands:
                f0, p0, w0 = cands[int(rng.integers(len(cands)))]
                j = int(rng.integers(len(p))) if len(p) else 0
                p = tuple(p[i] if i == j else p0[i] for i in range(len(p)))
                w = w0
        ops.append((fam, tuple(p), w))
    keys = gen_keys(rng, n)
    if not ops and not keys:
        ops.append(("XPow", (1.0, 0.0), (0,)) if not native else ("GPI", (0.25,), (0,)))
    return {"idx": idx, "ops": ops, "keys": keys, "native": native}


_KEY_ALPHA = "abcdefghijklmnopqrstuvwxyzABCDEFGHIJKLMNOPQRSTUVWXYZ0123456789_-., =()[]{}/+*#!?"


def gen_key_name(rng, used):
    while True:
        r = rng.random()
        if r < 0.35:
            k = "abcmxyzq"[rng.integers(8)] + ("" if rng.random() < 0.5 else str(int(rng.integers(100))))
        elif r < 0.5:
            k = ["measurement0", "measurements", "shots", "result", "0", ",", "a,b", " "][rng.integers(8)]
        elif r < 0.85:
            ln = int(rng.integers(2, 90))
            k = "".join(_KEY_ALPHA[rng.integers(len(_KEY_ALPHA))] for _ in range(ln))
        else:
            k = "".join(["é", "α", "k", "☃", "0", " "][rng.integers(6)] for _ in range(int(rng.integers(1, 12))))
        if k and k not in used:
            return k


def gen_keys(rng, n, max_keys=4):
    nk = int(rng.choice([0, 1, 1, 2, 2, 3, 4]))
    nk = min(nk, max_keys)
    free = [int(x) for x in rng.permutation(n)]
    keys, used = [], set()
    for _ in range(nk):
        if not free:
            break
        k = int(rng.integers(1, len(free) + 1)) if rng.random() < 0.6 else 1
        tg, free = free[:k], free[k:]
        name = gen_key_name(rng, used)
        used.add(name)
        keys.append((name, tuple(tg)))
    return keys


def op_matrix(fam, p):
    """Catalogue matrix of one abstract operation (never asks Cirq)."""
    if fam == "pauliexp":
        s, coef, e_neg, e_pos = p
        P = G.pauli_string_matrix(s, coef)
        I = np.eye(P.shape[0], dtype=complex)
        # docstring of PauliStringPhasorGate: -1 eigenstates x e^{i pi exponent_neg}, +1 eigenstates x e^{i pi exponent_pos}
        return np.exp(1j * math.pi * e_pos) * (I + P) / 2 + np.exp(1j * math.pi * e_neg) * (I - P) / 2
    return _S["specs"][fam].ref(p)


def program_unitary(ops, nwires, wiremap=None):
    """Catalogue product on `nwires` wires; op wire positions are mapped through `wiremap` (list) when given."""
    D = 2 ** nwires
    if nwires <= 4:
        U = np.eye(D, dtype=complex)
        for fam, p, w in ops:
            wires = [wiremap[x] for x in w] if wiremap is not None else list(w)
            U = L.embed(op_matrix(fam, p), wires, [2] * nwires) @ U
        return U
    t = np.eye(D, dtype=complex).reshape([2] * nwires + [D])  # same contraction as embed(...) @ U, without the D^3 product
    for fam, p, w in ops:
        wires = [wiremap[x] for x in w] if wiremap is not None else list(w)
        t = L.apply_on_axes(t, op_matrix(fam, p), wires)
    return t.reshape(D, D)


def program_state(ops, nwires, wiremap=None):
    """Catalogue program applied to |0..0>."""
    psi = np.zeros(2 ** nwires, dtype=complex)
    psi[0] = 1
    for fam, p, w in ops:
        wires = [wiremap[x] for x in w] if wiremap is not None else list(w)
        psi = L.apply_to_state(psi, op_matrix(fam, p), wires, [2] * nwires)
    return psi


def make_ionq_op(rng, fam, p, qubits):
    import cirq

    if fam == "pauliexp":
        s, coef, e_neg, e_pos = p
        if rng.random() < 0.5 or set(s) == {"I"}:
            op = cirq.PauliStringPhasorGate(cirq.DensePauliString(s, coefficient=coef), exponent_neg=e_neg,
                                            exponent_pos=e_pos).on(*qubits)
        else:
            order = sorted(range(len(qubits)), key=lambda i: qubits[i])
            ps = cirq.PauliString({qubits[i]: {"X": cirq.X, "Y": cirq.Y, "Z": cirq.Z}[s[i]] for i in order
                                   if s[i] != "I"}, coefficient=coef)
            # the operation form lists its qubits sorted; the Pauli on each qubit is what matters
            op = cirq.PauliStringPhasor(ps, qubits=[qubits[i] for i in order], exponent_neg=e_neg, exponent_pos=e_pos)
    else:
        gate = _S["specs"][fam].make(p)
        if fam == "CXPow" and p == (1.0, 0.0) and rng.random() < 0.3:
            op = cirq.X(qubits[1]).controlled_by(qubits[0])
        elif fam in ("XPow", "YPow", "ZPow") and p[1] == 0.0 and rng.random() < 0.3:
            op = {"XPow": cirq.X, "YPow": cirq.Y, "ZPow": cirq.Z}[fam](qubits[0]) ** p[0]
        else:
            op = gate.on(*qubits)
    if rng.random() < 0.1:
        op = op.with_tags("vf-tag")
    return op


def build_ionq_circuit(rng, prog, qubit_of=None):
    import cirq

    qubit_of = qubit_of or (lambda i: cirq.LineQubit(i))
    qs = [qubit_of(i) for i in prog["idx"]]
    strat = cirq.InsertStrategy.EARLIEST if rng.random() < 0.7 else cirq.InsertStrategy.NEW
    c = cirq.Circuit()
    for fam, p, w in prog["ops"]:
        c.append(make_ionq_op(rng, fam, p, [qs[x] for x in w]), strategy=strat)
    mops = [cirq.measure(*[qs[x] for x in tg], key=k) for k, tg in prog["keys"]]
    if mops:
        if rng.random() < 0.5:
            c.append(mops, strategy=strat)
        else:
            c.append(cirq.Moment(mops))
    return c


def used_indices(prog):
    return sorted({prog["idx"][x] for _, _, w in prog["ops"] for x in w} | {prog["idx"][x] for _, tg in prog["keys"] for x in tg})


def prog_fingerprint(prog):
    return (tuple(prog["idx"]), tuple((f, tuple(round(x, 10) if isinstance(x, float) else x for x in p), w)
                                      for f, p, w in prog["ops"]), tuple(prog["keys"]))


def meta_length(prog):
    recs = ["%s%s%s" % (k, chr(31), ",".join(str(prog["idx"][x]) for x in tg)) for k, tg in prog["keys"]]
    return len(chr(30).join(recs))


def _is_identity_up_to_phase(U):
    return L.phase_equal(U, np.eye(U.shape[0]), 1e-6)


# ------------------------------------------------------------------ IonQ payload checks
def _blame_families(rng, prog, serializer):
    """Mechanism key for a unitary mismatch: which families mismatch when serialized alone."""
    import cirq

    bad = set()
    for fam, p, w in prog["ops"]:
        k = len(w)
        try:
            qs = cirq.LineQubit.range(k)
            c = cirq.Circuit(make_ionq_op(np.random.default_rng(0), fam, p, qs))
            sp = serializer.serialize_single_circuit(c)
            got = IR.program_unitaries(sp.input)[0] if sp.input["circuit"] else np.eye(2 ** sp.input["qubits"])
            if got.shape != (2 ** k, 2 ** k) or not L.phase_equal(got, op_matrix(fam, p), UTOL):
                bad.add(fam)
        except Exception:  # noqa
            bad.add(fam + "?")
    return "+".join(sorted(bad)) if bad else "composition"


def check_ionq_program(ctx, rng, prog, program_input, metadata_records, problems, circuit_pos, wit, nq_field, serializer):
    """Judge one serialized circuit (op list + decoded metadata) against its abstract program."""
    used = used_indices(prog)
    want_n = max(used) + 1
    gs = program_input.get("gateset")
    ops = IR.circuits_of(program_input)[circuit_pos]
    names = [o.get("gate") for o in ops]
    all_native = all(nm in IR.NATIVE_NAMES for nm in names)
    has_gate_ops = bool(names)
    if has_gate_ops:
        ok = (gs == "native") == (all_native and all("rotation" not in o for o in ops))
        ctx.check(ok, "ionq-gateset-flag", "C17:ionq-gateset-flag",
                  "gateset %r but gate names %r" % (gs, names), **wit)
    ctx.check(nq_field == want_n, "ionq-qubit-count", "C17:ionq-qubit-count",
              "payload says %r qubits, circuit's highest LineQubit index is %d" % (nq_field, want_n - 1), **wit)
    nwires = program_input["qubits"]
    if nwires < want_n:
        return
    want = program_unitary(prog["ops"], nwires, prog["idx"])
    try:
        got = IR.circuit_unitary(ops, nwires, gs)
    except IR.PayloadError as e:
        ctx.check(False, "ionq-payload-unitary", "C17:ionq-payload-malformed", "payload not interpretable: %s" % e,
                  payload=ops, **wit)
        return
    if not L.phase_equal(got, want, UTOL):
        mech = "C17:ionq-unitary:" + _blame_families(rng, prog, serializer)
        ctx.check(False, "ionq-payload-unitary", mech,
                  "payload unitary differs from the submitted program by %.3g (up to phase)" % L.phase_diff(got, want),
                  payload=ops, **wit)
    else:
        ctx.ok("ionq-payload-unitary")
    # measurement metadata
    want_keys = {k: [prog["idx"][x] for x in tg] for k, tg in prog["keys"]}
    got_keys = {}
    dup = False
    for k, tg in metadata_records:
        dup = dup or k in got_keys
        got_keys[k] = tg
    okm = (not problems) and (not dup) and got_keys == want_keys
    ctx.check(okm, "ionq-measurement-metadata", "C17:ionq-measurement-metadata",
              "metadata decodes to %r, submitted %r, problems %r" % (got_keys, want_keys, problems), **wit)


def _circuit_meaning(ctx, vendor, circuit, want, nwires, wit, resolver=None):
    """"the circuit they were built from": Cirq's own matrix of the submitted circuit (measurements left out) is the
    matrix the payload was judged against, so payload == catalogue == the circuit as Cirq itself understands it"""
    import cirq

    ops = [op for op in circuit.all_operations() if not cirq.is_measurement(op)]
    body = cirq.Circuit(ops)
    if resolver is not None:
        body = cirq.resolve_parameters(body, resolver)
    qs = cirq.LineQubit.range(nwires)
    if not set(body.all_qubits()) <= set(qs) or nwires > 7:
        ctx.event("circuit-meaning:skipped")
        return
    got = body.unitary(qubit_order=qs, qubits_that_should_be_present=qs)
    ctx.check(L.phase_equal(got, want, UTOL), "circuit-meaning==reference", "C17:%s-circuit-meaning" % vendor,
              lambda: "Cirq's own unitary of the submitted circuit differs from the reference the payload is compared with by %.3g (up to phase)"
              % L.phase_diff(got, want), **wit)


def sec_ionq_payload(ctx, rng, case):
    import cirq_ionq

    native = rng.random() < 0.25
    prog = gen_ionq_program(rng, native=native)
    circuit = build_ionq_circuit(rng, prog)
    ser = cirq_ionq.Serializer()
    wit = dict(program=prog, circuit=repr(circuit)[:1500])
    too_long = meta_length(prog) > 360
    try:
        sp = ser.serialize_single_circuit(circuit)
    except ValueError as e:
        if too_long and "too long" in str(e):
            ctx.reject("ionq:metadata-too-long")
            return
        ctx.check(False, "ionq-accepts-vocabulary", "C17:ionq-in-vocabulary-rejected",
                  "in-vocabulary circuit rejected: %s" % e, **wit)
        return
    ctx.ok("ionq-accepts-vocabulary")
    if too_long:
        ctx.check(False, "ionq-measurement-metadata", "C17:ionq-metadata-over-limit-accepted",
                  "key/target text of %d characters accepted (limit 9 x 40)" % meta_length(prog), **wit)
        return
    inp = _json_copy(sp.input)
    recs, problems = IR.decode_measurement_metadata(_json_copy(sp.metadata))
    extra = [k for k in sp.metadata if not k.startswith("measurement")]
    if extra:
        problems = problems + ["unexpected metadata keys %r" % extra]
    check_ionq_program(ctx, rng, prog, inp, recs, problems, 0, wit, inp.get("qubits"), ser)
    nwq = max(prog["idx"]) + 1
    _circuit_meaning(ctx, "ionq", circuit, program_unitary(prog["ops"], nwq, prog["idx"]), nwq, wit)
    U = program_unitary(prog["ops"], len(prog["idx"]))
    ctx.distinct(("ionq", prog_fingerprint(prog)), nontrivial=bool(prog["keys"]) or not _is_identity_up_to_phase(U))
    ctx.sample({"program": prog, "payload": inp, "metadata": sp.metadata})


def sec_ionq_batch(ctx, rng, case):
    import cirq_ionq
    from cirq_ionq.ionq_exceptions import IonQSerializerMixedGatesetsException

    native = rng.random() < 0.3
    k = int(rng.integers(1, 5))
    mixed = k >= 2 and rng.random() < 0.08
    progs = []
    for i in range(k):
        nat = (not native) if (mixed and i == k - 1) else native
        while True:
            pr = gen_ionq_program(rng, native=nat, max_ops=6)
            if pr["ops"] and meta_length(pr) <= 360:
                break
        progs.append(pr)
    circuits = [build_ionq_circuit(rng, pr) for pr in progs]
    ser = cirq_ionq.Serializer()
    wit = dict(programs=progs)
    try:
        sp = ser.serialize_many_circuits(circuits)
    except IonQSerializerMixedGatesetsException:
        if mixed:
            ctx.reject("ionq:mixed-gatesets-in-batch")
            return
        ctx.check(False, "ionq-accepts-vocabulary", "C17:ionq-batch-rejected", "uniform batch rejected as mixed", **wit)
        return
    except ValueError as e:
        ctx.check(False, "ionq-accepts-vocabulary", "C17:ionq-in-vocabulary-rejected", "batch rejected: %s" % e, **wit)
        return
    if mixed:
        ctx.check(False, "ionq-rejects-unsupported", "C17:ionq-mixed-batch-accepted", "qis and native circuits in one batch accepted", **wit)
        return
    ctx.ok("ionq-accepts-vocabulary")
    inp = _json_copy(sp.input)
    per, qn, problems = IR.decode_batch_metadata(_json_copy(sp.metadata))
    ok = len(per) == k and len(qn) == k and len(IR.circuits_of(inp)) == k
    ctx.check(ok, "ionq-batch-shape", "C17:ionq-batch-shape", "batch of %d circuits serialized to %d circuits / %d metadata / %d qubit numbers"
              % (k, len(IR.circuits_of(inp)), len(per), len(qn)), **wit)
    if not ok:
        return
    ctx.check(inp.get("qubits") == max(max(used_indices(pr)) + 1 for pr in progs), "ionq-qubit-count", "C17:ionq-batch-qubit-count",
              "batch qubits field %r" % (inp.get("qubits"),), **wit)
    for i, pr in enumerate(progs):
        check_ionq_program(ctx, rng, pr, inp, per[i], problems, i, dict(program=pr, position=i), qn[i], ser)
    ctx.distinct(("ionq-batch", tuple(prog_fingerprint(pr) for pr in progs)), nontrivial=True)
    ctx.sample({"programs": progs, "payload": inp, "metadata": sp.metadata})



# ------------------------------------------------------------------ IonQ: unsupported content is rejected, not altered
REJECT_KINDS = ["non-terminal-measurement", "unsupported-exponent", "parameterized", "bad-qubit", "negative-pauliexp-time",
                "unsupported-gate", "bad-key", "empty", "unsupported-exponent"]


def sec_ionq_reject(ctx, rng, case):
    import cirq
    import cirq_ionq
    import sympy
    from cirq_ionq.ionq_exceptions import NotSupportedPauliexpParameters

    kind = REJECT_KINDS[case % len(REJECT_KINDS)]
    ser = cirq_ionq.Serializer()
    while True:
        prog = gen_ionq_program(rng, native=False, max_ops=5)
        if meta_length(prog) <= 300:
            break
    n = len(prog["idx"])
    pattern = None
    unitary_decides = False
    if kind == "non-terminal-measurement":
        circuit = build_ionq_circuit(rng, dict(prog, keys=[]))
        x = int(rng.integers(n))
        q = cirq.LineQubit(prog["idx"][x])
        circuit.append(cirq.measure(q, key="early"))
        follow = [cirq.X(q), cirq.Z(q) ** 0.5, cirq.measure(q, key="again")]
        if n >= 2:
            q2 = cirq.LineQubit(prog["idx"][(x + 1) % n])
            follow += [cirq.CNOT(q, q2), cirq.XX(q2, q) ** 0.3]
        circuit.append(follow[rng.integers(len(follow))])
        pattern = "end of circuit"
    elif kind == "unsupported-exponent":
        fam = ONLY_SPECIAL[rng.integers(3)]
        if fam != "HPow" and n < 2:
            fam = "HPow"
        e = _ionq_exp(rng, fam, supported=False)
        w = tuple(int(v) for v in rng.choice(n, size=1 if fam == "HPow" else 2, replace=False))
        pos = int(rng.integers(len(prog["ops"]) + 1))
        prog = dict(prog, ops=prog["ops"][:pos] + [(fam, (e, GP.pick_shift(rng)), w)] + prog["ops"][pos:])
        circuit = build_ionq_circuit(rng, prog)
        pattern = "cannot be serialized"
        unitary_decides = True
    elif kind == "parameterized":
        circuit = build_ionq_circuit(rng, prog)
        t = sympy.Symbol("t")
        q = cirq.LineQubit(prog["idx"][0])
        cands = [cirq.X(q) ** t, cirq.ZPowGate(exponent=2 * t + 0.5).on(q), cirq.rx(t).on(q), cirq.Y(q) ** (t / 3)]
        if n >= 2:
            cands.append(cirq.XX(q, cirq.LineQubit(prog["idx"][1])) ** t)
        circuit.insert(int(rng.integers(len(circuit) + 1)), cands[rng.integers(len(cands))])
        if not circuit.are_all_measurements_terminal():
            pattern = "parameterized|end of circuit"
        else:
            pattern = "parameterized"
    elif kind == "bad-qubit":
        r = int(rng.integers(4))
        if r == 0:
            f = lambda i: cirq.NamedQubit("q%d" % i)  # noqa
        elif r == 1:
            f = lambda i: cirq.GridQubit(0, i)  # noqa
        elif r == 2:
            f = lambda i: cirq.LineQid(i, 2)  # noqa
        else:
            f = lambda i: cirq.LineQubit(-1 - i)  # noqa
        bad_at = int(rng.integers(n))
        circuit = build_ionq_circuit(rng, prog, qubit_of=lambda i: f(i) if (i == prog["idx"][bad_at] or r < 3 and rng.random() < 0.5) else cirq.LineQubit(i))
        if not any(not isinstance(q, cirq.LineQubit) or q.x < 0 for q in circuit.all_qubits()):
            ctx.reject("generator:bad-qubit-not-used")
            return
        pattern = "LineQubit"
    elif kind == "negative-pauliexp-time":
        k = int(rng.integers(1, min(n, 4) + 1))
        w = tuple(int(v) for v in rng.choice(n, size=k, replace=False))
        for _ in range(50):
            p = _pauli_op(rng, k)
            if _pauli_time(p[1], p[2], p[3]) < -1e-6 and set(p[0]) != {"I"}:
                break
        else:
            p = ("X" * k, 1, 0.0, 0.5)
        pos = int(rng.integers(len(prog["ops"]) + 1))
        prog = dict(prog, ops=prog["ops"][:pos] + [("pauliexp", p, w)] + prog["ops"][pos:])
        circuit = build_ionq_circuit(rng, prog)
        pattern = "negative evolution time"
    elif kind == "unsupported-gate":
        circuit = build_ionq_circuit(rng, prog)
        q = [cirq.LineQubit(i) for i in prog["idx"]]
        q = q + [cirq.LineQubit(prog["idx"][-1] + 1 + j) for j in range(3)]
        cands = [cirq.CZ(q[0], q[1]), cirq.CZ(q[0], q[1]) ** 0.5, cirq.ISWAP(q[0], q[1]), cirq.CCX(q[0], q[1], q[2]),
                 cirq.PhasedXPowGate(phase_exponent=0.25, exponent=0.5).on(q[0]), cirq.FSimGate(0.1, 0.2).on(q[0], q[1]),
                 cirq.MatrixGate(np.eye(2)).on(q[0]), cirq.I(q[0]), cirq.reset(q[0]),
                 cirq.CircuitOperation(cirq.FrozenCircuit(cirq.X(q[0]))), cirq.X(q[0]).controlled_by(q[1], control_values=[0]),
                 cirq.global_phase_operation(1j), cirq.S(q[0]).controlled_by(q[1]), cirq.CSWAP(q[0], q[1], q[2]),
                 cirq.PhasedXZGate(x_exponent=0.5, z_exponent=0.25, axis_phase_exponent=0.1).on(q[0]),
                 cirq.depolarize(0.1).on(q[0]), cirq.QuantumFourierTransformGate(2).on(q[0], q[1]), cirq.SQRT_ISWAP(q[0], q[1])]
        circuit.insert(0, cands[rng.integers(len(cands))])
        pattern = "cannot be serialized|does not have a gate"
    elif kind == "bad-key":
        if rng.random() < 0.5:
            sep = chr(30) if rng.random() < 0.5 else chr(31)
            key = "a" * int(rng.integers(0, 4)) + sep + "b" * int(rng.integers(0, 4))
            pattern = "separator"
        else:
            key = "k" * int(rng.integers(370, 500))
            pattern = "too long"
        prog = dict(prog, keys=[(key, (0,))] if rng.random() < 0.5 else [(k, tg) for k, tg in prog["keys"] if 0 not in tg] + [(key, (0,))])
        circuit = build_ionq_circuit(rng, prog)
    else:
        circuit = cirq.Circuit()
        pattern = "empty"
    wit = dict(kind=kind, program=prog, circuit=repr(circuit)[:1500])
    import re
    many = rng.random() < 0.25
    try:
        sp = ser.serialize_many_circuits([circuit]) if many else ser.serialize_single_circuit(circuit)
    except ValueError as e:
        ctx.check(re.search(pattern, str(e)) is not None, "ionq-rejects-unsupported", "C17:ionq-reject-message:" + kind,
                  "rejected with an unrelated message: %s" % e, **wit)
        ctx.reject("ionq:" + kind)
        ctx.distinct(("ionq-reject", kind, prog_fingerprint(prog)), nontrivial=True)
        return
    except NotSupportedPauliexpParameters as e:
        ctx.check(kind == "negative-pauliexp-time", "ionq-rejects-unsupported", "C17:ionq-reject-message:" + kind, str(e), **wit)
        ctx.reject("ionq:" + kind)
        ctx.distinct(("ionq-reject", kind, prog_fingerprint(prog)), nontrivial=True)
        return
    if unitary_decides:
        # accepted: fine only if the payload still means the submitted program
        inp = _json_copy(sp.input)
        nw = inp["qubits"]
        try:
            got = IR.program_unitaries(inp)[0]
            same = L.phase_equal(got, program_unitary(prog["ops"], nw, prog["idx"]), UTOL)
        except IR.PayloadError:
            same = False
        ctx.check(same, "ionq-rejects-unsupported", "C17:ionq-unsupported-exponent-altered",
                  "gate with an exponent outside the vocabulary was serialized as a different unitary", payload=inp, **wit)
        ctx.event("ionq:unsupported-exponent-accepted-with-equal-unitary")
        return
    ctx.check(False, "ionq-rejects-unsupported", "C17:ionq-accepted:" + kind,
              "content outside the documented vocabulary was accepted: payload %s metadata %s" % (json.dumps(sp.input)[:400], sp.metadata), **wit)


def _ionq_meas_modifiers(ctx, rng, case):
    """A measurement whose recorded bits are flipped (invert_mask - a logical part of the circuit, serialized by
    cirq_google, explicitly refused by cirq_pasqal) cannot be expressed in the IonQ payload or metadata; the property
    demands rejection rather than silent loss.  (confusion_map is left out: it models readout noise.)"""
    import cirq
    import cirq_ionq

    ser = cirq_ionq.Serializer()
    n = int(rng.integers(1, 4))
    qs = cirq.LineQubit.range(n)
    mask = tuple(bool(rng.integers(2)) for _ in range(n))
    if not any(mask):
        mask = (True,) + mask[1:]
    m = cirq.measure(*qs, key="m", invert_mask=mask)
    kind = "invert_mask"
    circuit = cirq.Circuit(cirq.X(qs[0]) ** 0.5, m)
    try:
        sp = ser.serialize_single_circuit(circuit)
    except ValueError:
        ctx.ok("ionq-measurement-modifier")
        ctx.reject("ionq:measurement-" + kind)
        return
    recs, _ = IR.decode_measurement_metadata(sp.metadata)
    ctx.check(False, "ionq-measurement-modifier", "C17:ionq-measurement-%s-dropped" % kind,
              "measurement with %s serialized as a plain measurement (metadata %r, no trace of the modifier); results "
              "returned for key 'm' will not be post-processed" % (kind, recs), circuit=repr(circuit), metadata=sp.metadata)



# ------------------------------------------------------------------ IonQ results
def be_int(bits):
    """Big-endian integer of a bit list: first listed qubit is the most significant bit (results.py docstrings)."""
    v = 0
    for b in bits:
        v = (v << 1) | int(b)
    return v


def gen_outcomes(rng, n, max_outcomes=8):
    """-> list of distinct outcomes, each a tuple of n bits (bit q = qubit q)."""
    m = int(rng.integers(1, min(2 ** n, max_outcomes) + 1))
    vals = rng.choice(2 ** n, size=m, replace=False)
    return [tuple((int(v) >> q) & 1 for q in range(n)) for v in vals]


def gen_layout(rng, n, allow_overlap=False):
    """measurement_dict over qubits 0..n-1: non-contiguous, permuted, several keys, unmeasured qubits."""
    nk = int(rng.choice([1, 1, 2, 2, 3, 4]))
    free = [int(x) for x in rng.permutation(n)]
    out, used = {}, set()
    for _ in range(nk):
        pool = [int(x) for x in rng.permutation(n)] if allow_overlap else free
        if not pool:
            break
        k = int(rng.integers(1, len(pool) + 1)) if rng.random() < 0.6 else 1
        tg = pool[:k]
        if not allow_overlap:
            free = free[k:]
        name = gen_key_name(rng, used)
        used.add(name)
        out[name] = tg
    return out


def _joint_rows(outcomes_with_mult, layout):
    """Expected multiset of per-shot rows: for every key (in layout order) the bits of its targets."""
    from collections import Counter
    c = Counter()
    for bits, mult in outcomes_with_mult:
        c[tuple(tuple(bits[t] for t in tg) for tg in layout.values())] += mult
    return c


def check_qpu_result(ctx, res, n, layout, outs, counts, wit, monitor="ionq-result-views"):
    from collections import Counter

    reps = sum(counts)
    pairs = list(zip(outs, counts))
    mech = "C17:ionq-qpu-result:"
    ctx.check(res.repetitions() == reps and res.num_qubits() == n, monitor, mech + "shape", "repetitions/num_qubits", **wit)
    ctx.check({k: list(v) for k, v in res.measurement_dict().items()} == layout, monitor, mech + "measurement_dict", "", **wit)
    want_all = Counter({be_int(b): c for b, c in pairs})
    ctx.check(dict(res.counts()) == dict(want_all), monitor, mech + "counts-all",
              "counts() %r, expected %r" % (dict(res.counts()), dict(want_all)), **wit)
    for key, tg in layout.items():
        want = Counter()
        for b, c in pairs:
            want[be_int([b[t] for t in tg])] += c
        got = res.counts(key)
        ctx.check(dict(got) == dict(want), monitor, mech + "counts-per-key",
                  "counts(%r) = %r, expected %r for targets %r" % (key, dict(got), dict(want), tg), **wit)
        ctx.check(Counter(res.ordered_results(key)) == want, monitor, mech + "ordered-results-per-key", "", **wit)
    # correlations between keys: the i-th entries of every ordered_results list belong to one shot
    cols = [res.ordered_results()] + [res.ordered_results(k) for k in layout]
    got_joint = Counter(zip(*cols))
    want_joint = Counter()
    for b, c in pairs:
        want_joint[tuple([be_int(b)] + [be_int([b[t] for t in tg]) for tg in layout.values()])] += c
    ctx.check(got_joint == want_joint, monitor, mech + "ordered-results-joint",
              "ordered_results lists are not aligned shot by shot", **wit)
    check_cirq_result(ctx, res.to_cirq_result(), layout, pairs, wit, monitor, mech)


def check_cirq_result(ctx, cres, layout, pairs, wit, monitor, mech):
    from collections import Counter

    reps = sum(c for _, c in pairs)
    ms = cres.measurements
    ok = set(ms.keys()) == set(layout.keys()) and all(np.asarray(ms[k]).shape == (reps, len(tg)) for k, tg in layout.items())
    ctx.check(ok, monitor, mech + "cirq-result-shape", "keys %r shapes %r" % (list(ms.keys()), [np.asarray(v).shape for v in ms.values()]), **wit)
    if not ok:
        return
    got = Counter()
    for r in range(reps):
        got[tuple(tuple(int(x) for x in ms[k][r]) for k in layout)] += 1
    want = _joint_rows(pairs, layout)
    ctx.check(got == want, monitor, mech + "cirq-result-bits",
              "to_cirq_result rows (joint over keys) %r, expected %r" % (dict(got), dict(want)), **wit)


class ScriptedChoice:
    """Seed object: records the distribution it is asked to sample and returns a dictated index sequence."""

    def __init__(self, rng):
        self.rng, self.calls = rng, []

    def choice(self, a, size=None, replace=True, p=None):
        n = len(a) if hasattr(a, "__len__") else int(a)
        k = int(size) if size is not None else 1
        idx = np.array([int(x) for x in self.rng.integers(n, size=k)])
        if p is not None:
            nz = [i for i in range(n) if p[i] > 0]
            idx = np.array([nz[int(x) % len(nz)] for x in idx])
        self.calls.append({"n": n, "p": None if p is None else [float(x) for x in p], "size": size, "idx": idx})
        return idx if size is not None else idx[0]


def check_sim_result(ctx, rng, res, n, layout, outs, probs, reps, wit, monitor="ionq-result-views", tol=1e-9):
    mech = "C17:ionq-sim-result:"
    ctx.check(res.repetitions() == reps and res.num_qubits() == n, monitor, mech + "shape", "", **wit)
    ctx.check({k: list(v) for k, v in res.measurement_dict().items()} == layout, monitor, mech + "measurement_dict", "", **wit)

    def close(got, want):
        return all(abs(got.get(k, 0.0) - want.get(k, 0.0)) <= tol for k in set(got) | set(want))
    want_all = {be_int(b): p for b, p in zip(outs, probs)}
    ctx.check(close(dict(res.probabilities()), want_all), monitor, mech + "probabilities-all", "", **wit)
    for key, tg in layout.items():
        want = {}
        for b, p in zip(outs, probs):
            v = be_int([b[t] for t in tg])
            want[v] = want.get(v, 0.0) + p
        got = dict(res.probabilities(key))
        ctx.check(close(got, want), monitor, mech + "probabilities-per-key",
                  "probabilities(%r) = %r, expected %r for targets %r" % (key, got, want, tg), **wit)
    # sampling with a scripted seed object: which distribution is sampled, and which bits each drawn outcome becomes
    gap = max(10 * tol, 1e-9)
    sp = sorted(probs)
    if abs(sum(probs) - 1) > 1e-6 or any(b - a < 4 * gap for a, b in zip(sp, sp[1:])):
        return
    seed = ScriptedChoice(rng)
    over = int(rng.integers(1, 12)) if rng.random() < 0.3 else None
    cres = res.to_cirq_result(seed=seed, override_repetitions=over)
    ok = len(seed.calls) == 1 and seed.calls[0]["p"] is not None and seed.calls[0]["n"] == len(probs)
    ctx.check(ok, monitor, mech + "sampling-call", "choice called %d times" % len(seed.calls), **wit)
    if not ok:
        return
    call = seed.calls[0]
    tot = sum(probs)
    drawn = []
    for i in call["idx"]:
        near = [b for b, p in zip(outs, probs) if abs(p / tot - call["p"][i]) <= gap]
        if len(near) != 1:
            ctx.check(False, monitor, mech + "sampling-distribution", "sampled weights %r are not the probabilities %r" % (call["p"], probs), **wit)
            return
        drawn.append(near[0])
    ctx.check(abs(sum(call["p"]) - 1) < 1e-9 and len(drawn) == (over or reps), monitor, mech + "sampling-distribution",
              "weights sum %r, %d draws for %r repetitions" % (sum(call["p"]), len(drawn), over or reps), **wit)
    ms = cres.measurements
    ok = set(ms.keys()) == set(layout.keys()) and all(
        [[int(x) for x in row] for row in ms[k]] == [[b[t] for t in tg] for b in drawn] for k, tg in layout.items())
    ctx.check(ok, monitor, mech + "cirq-result-bits", "rows of the sampled cirq.Result do not carry the drawn outcomes' bits", **wit)


def sec_ionq_results(ctx, rng, case):
    import cirq_ionq

    n = int(rng.integers(1, 7))
    outs = gen_outcomes(rng, n)
    layout = gen_layout(rng, n, allow_overlap=rng.random() < 0.15)
    wit = dict(n=n, layout=layout, outcomes=outs)
    ident = all(tg == list(range(n)) for tg in layout.values())
    if case % 2 == 0:
        counts = [int(x) for x in rng.integers(1, 40, size=len(outs))]
        wit["counts"] = counts
        res = cirq_ionq.QPUResult({be_int(b): c for b, c in zip(outs, counts)}, n, dict(layout))
        check_qpu_result(ctx, res, n, layout, outs, counts, wit)
        empty = cirq_ionq.QPUResult({be_int(b): c for b, c in zip(outs, counts)}, n, {})
    else:
        probs = [float(x) for x in rng.dirichlet(np.ones(len(outs)))]
        reps = int(rng.integers(1, 30))
        wit["probs"] = probs
        res = cirq_ionq.SimulatorResult({be_int(b): p for b, p in zip(outs, probs)}, n, dict(layout), reps)
        check_sim_result(ctx, rng, res, n, layout, outs, probs, reps, wit)
        empty = cirq_ionq.SimulatorResult({be_int(b): p for b, p in zip(outs, probs)}, n, {}, reps)
    if case % 10 < 2:
        try:
            empty.to_cirq_result()
            ctx.check(False, "ionq-result-views", "C17:ionq-result-no-keys-accepted", "to_cirq_result without keys returned", **wit)
        except ValueError:
            ctx.reject("ionq:result-without-measurement-keys")
        try:
            (res.counts if case % 2 == 0 else res.probabilities)("no such key \x00")
            ctx.check(False, "ionq-result-views", "C17:ionq-result-unknown-key-accepted", "", **wit)
        except ValueError:
            ctx.reject("ionq:result-unknown-key")
    ctx.distinct(("ionq-res", case % 2, n, tuple(outs), tuple((k, tuple(v)) for k, v in layout.items())),
                 nontrivial=len(outs) >= 2 or not ident)
    ctx.sample(wit)



# ------------------------------------------------------------------ IonQ: whole chain over the fake HTTP API
def _abstract_outcome_probs(prog, nwires):
    """{bits tuple over wires 0..nwires-1: probability} of the submitted program run on |0..0> (catalogue only)."""
    amp = program_state(prog["ops"], nwires, prog["idx"])
    out = {}
    for i in range(2 ** nwires):
        p = float(abs(amp[i]) ** 2)
        if p > 1e-13:
            out[tuple((i >> (nwires - 1 - q)) & 1 for q in range(nwires))] = p
    return out


def _gen_chain_program(rng, native):
    while True:
        prog = gen_ionq_program(rng, native=native, max_ops=6)
        if prog["keys"] and prog["ops"] and meta_length(prog) <= 360:
            return prog


def sec_ionq_job(ctx, rng, case):
    import cirq
    import sympy

    http, service = _S["ionq_http"], _S["service"]
    target = "qpu" if case % 2 == 0 else "simulator"
    mode = ["single", "batch", "sampler"][case % 3] if target == "qpu" else ["single", "batch", "single"][case % 3]
    native = rng.random() < 0.2 and mode != "sampler"
    nprog = int(rng.integers(1, 4)) if mode == "batch" else 1
    progs = [_gen_chain_program(rng, native) for _ in range(nprog)]
    shots = int(rng.choice([1, 7, 100, 1000, 1024]))
    served = {}

    def histogram_for(jid, body):
        """The IonQ side: interpret the *payload* and answer with little-endian result integers."""
        inp = body["input"]
        us = IR.program_unitaries(inp)
        hists = []
        for ci, u in enumerate(us):
            nq = inp["qubits"]
            if body["backend"] == "simulator":
                h = IR.outcome_probabilities(u, nq)
                hists.append({str(k): v for k, v in h.items()})
            else:
                # hardware is noisy: any histogram over the register is a legitimate answer
                # (qubits the circuit never touches stay 0, so only its own register carries information)
                own = min(nq, max(used_indices(progs[ci])) + 1) if mode == "batch" else nq
                outs = [b + (0,) * (nq - own) for b in gen_outcomes(rng, own)]
                cnts = [int(x) for x in rng.multinomial(shots - len(outs), np.ones(len(outs)) / len(outs))] if shots >= len(outs) else None
                if cnts is None:
                    outs, cnts = outs[:1], [shots]
                else:
                    cnts = [c + 1 for c in cnts]
                served.setdefault(jid, []).append((outs, cnts))
                hists.append({str(IR.little_endian_key(b)): (repr(c / shots) if rng.random() < 0.5 else c / shots)
                              for b, c in zip(outs, cnts)})
        if body["type"] == "ionq.multi-circuit.v1":
            # keyed by child-job ids (uuid-like, so in no particular alphabetical order), listed in submission order
            ids = []
            while len(ids) < len(hists):
                cid = "%08x-%04x" % (int(rng.integers(1 << 32)), int(rng.integers(1 << 16)))
                if cid not in ids:
                    ids.append(cid)
            return {cid: h for cid, h in zip(ids, hists)}
        return hists[0]

    http.reset(histogram_for)
    circuits = [build_ionq_circuit(rng, pr) for pr in progs]
    wit = dict(programs=progs, target=target, mode=mode, shots=shots)
    mech = "C17:ionq-chain:"
    sweep_vals = None
    if mode == "sampler":
        # one symbol, resolved per sweep point: each point becomes its own job
        pr = progs[0]
        sym = sympy.Symbol("s")
        q0 = cirq.LineQubit(pr["idx"][0])
        sweep_vals = [float(GP.pick_exp(rng)) for _ in range(int(rng.integers(1, 3)))]
        circuits[0].insert(0, cirq.X(q0) ** sym)
        results = service.sampler(target=target).run_sweep(circuits[0], cirq.Points("s", sweep_vals), repetitions=shots)
        variants = [dict(pr, ops=[("XPow", (v, 0.0), (0,))] + pr["ops"]) for v in sweep_vals]
        ctx.check(len(results) == len(sweep_vals) and len(http.order) == len(sweep_vals), "ionq-job-chain", mech + "sweep-jobs",
                  "%d sweep points, %d jobs, %d results" % (len(sweep_vals), len(http.order), len(results)), **wit)
        for j, (jid, cres, var) in enumerate(zip(http.order, results, variants)):
            body = http.jobs[jid]
            nq = body["input"]["qubits"]
            got_u = IR.program_unitaries(body["input"])[0]
            ctx.check(L.phase_equal(got_u, program_unitary(var["ops"], nq, var["idx"]), UTOL), "ionq-job-chain",
                      mech + "posted-payload-unitary", "sweep point %d: posted program differs from the resolved circuit" % j, **wit)
            layout = {k: [var["idx"][x] for x in tg] for k, tg in var["keys"]}
            outs, cnts = served[jid][0]
            check_cirq_result(ctx, cres, layout, list(zip(outs, cnts)), wit, "ionq-job-chain", mech)
            ctx.check(cres.params.param_dict == {"s": sweep_vals[j]} or dict(cres.params.param_dict) == {sym: sweep_vals[j]},
                      "ionq-job-chain", mech + "sweep-params", "result %d carries params %r" % (j, cres.params), **wit)
    else:
        # compiler settings travel with the job; they are instructions to IonQ's compiler, not a licence for the client to
        # submit another program
        kw = {}
        if rng.random() < 0.4:
            kw["compilation"] = {"opt": int(rng.integers(0, 4)), "precision": str(rng.choice(["1E-2", "1E-3", "1E-5"]))}
            ctx.event("ionq-chain:with-compilation-settings")
        wit["compilation"] = kw.get("compilation")
        if mode == "single":
            job = service.create_job(circuits[0], repetitions=shots, target=target, name="vf", **kw)
        else:
            job = service.create_batch_job(circuits, repetitions=shots, target=target, name="vf", **kw)
        res = job.results()
        res_list = res if isinstance(res, list) else [res]
        body = http.jobs[http.order[0]]
        posted_us = IR.program_unitaries(body["input"])
        nq_posted = body["input"]["qubits"]
        ctx.check(len(posted_us) == nprog, "ionq-job-chain", mech + "posted-program-count", "%d circuits, %d posted programs" % (nprog, len(posted_us)), **wit)
        for i, (pr, pu) in enumerate(zip(progs, posted_us)):
            if native:
                break
            ctx.check(L.phase_equal(pu, program_unitary(pr["ops"], nq_posted, pr["idx"]), UTOL), "ionq-job-chain",
                      mech + "posted-payload-unitary", "posted program %d differs from the circuit it was built from" % i, position=i, **wit)
        ctx.check(len(res_list) == nprog and len(http.order) == 1, "ionq-job-chain", mech + "result-count",
                  "%d circuits, %d results" % (nprog, len(res_list)), **wit)
        ctx.check(body.get("backend") == target and str(body.get("shots")) == str(shots), "ionq-job-chain", mech + "posted-settings",
                  "posted backend %r shots %r" % (body.get("backend"), body.get("shots")), **wit)
        for i, (pr, r) in enumerate(zip(progs, res_list)):
            layout = {k: [pr["idx"][x] for x in tg] for k, tg in pr["keys"]}
            n_i = max(used_indices(pr)) + 1
            if target == "qpu":
                outs, cnts = served[http.order[0]][i]
                # the histogram covers the job's register; the result object may describe the circuit's own register
                nres = r.num_qubits()
                ok = nres >= n_i and all(not any(b[nres:]) for b in outs)
                if not ok:
                    # outcomes with a 1 beyond the circuit's own qubits cannot be represented; only defined when unused qubits read 0
                    ctx.event("ionq-chain:histogram-beyond-circuit-register")
                    continue
                check_qpu_result(ctx, r, nres, layout, [b[:nres] for b in outs], cnts, dict(wit, position=i), "ionq-job-chain")
            else:
                nres = r.num_qubits()
                want = _abstract_outcome_probs(pr, max(nres, n_i))
                if nres < n_i:
                    ctx.check(False, "ionq-job-chain", mech + "register-too-small", "result has %d qubits, circuit uses %d" % (nres, n_i), **wit)
                    continue
                outs = list(want.keys())
                probs = [want[b] for b in outs]
                check_sim_result(ctx, rng, r, nres, layout, outs, probs, shots, dict(wit, position=i), "ionq-job-chain", tol=1e-6)
    ctx.distinct(("ionq-job", target, mode, shots, tuple(prog_fingerprint(pr) for pr in progs)), nontrivial=True)
    ctx.sample(dict(wit, posted=http.jobs[http.order[0]] if http.order else None))



# ------------------------------------------------------------------ AQT
AQT_FAMS_1Q = ["PhasedXPow", "PhasedXPow", "ZPow", "rz"]
AQT_FAMS_2Q = ["XXPow", "ms"]


def gen_aqt_program(rng, deterministic=False, contiguous=False):
    n = int(rng.integers(1, 6))
    idx = list(range(n)) if (contiguous or rng.random() < 0.6) else sorted(int(x) for x in rng.choice(7, size=n, replace=False))
    ops = []
    for _ in range(int(rng.integers(1, 9))):
        two = n >= 2 and rng.random() < 0.4
        if two:
            fam = AQT_FAMS_2Q[rng.integers(2)]
            if deterministic:
                fam, p = "XXPow", (float(rng.choice([1, -1, 2, 0, 3])), GP.pick_shift(rng))
            elif fam == "ms":
                p = (GP.pick_ang(rng),)
            else:
                p = (GP.pick_exp(rng), GP.pick_shift(rng))
            w = tuple(int(x) for x in rng.choice(n, size=2, replace=False))
        else:
            fam = AQT_FAMS_1Q[rng.integers(4)]
            if fam == "PhasedXPow":
                e = float(rng.choice([1, -1, 3, 2, 0])) if deterministic else GP.pick_exp(rng)
                p = (GP.pick_exp(rng), e, GP.pick_shift(rng))
            elif fam == "rz":
                p = (GP.pick_ang(rng),)
            else:
                p = (GP.pick_exp(rng), GP.pick_shift(rng))
            w = (int(rng.integers(n)),)
        ops.append((fam, tuple(p), w))
    if contiguous:  # every device qubit has to appear: the sampler sizes the register by the qubits it sees
        seen = {x for _, _, w in ops for x in w}
        for x in range(n):
            if x not in seen:
                ops.append(("ZPow", (GP.pick_exp(rng), 0.0), (x,)))
    return {"idx": idx, "ops": ops, "keys": []}


def build_aqt_circuit(rng, prog, symbols=None):
    """symbols: optional dict op position -> sympy symbol standing for that op's exponent."""
    import cirq

    qs = [cirq.LineQubit(i) for i in prog["idx"]]
    strat = cirq.InsertStrategy.EARLIEST if rng.random() < 0.7 else cirq.InsertStrategy.NEW
    c = cirq.Circuit()
    for pos, (fam, p, w) in enumerate(prog["ops"]):
        if symbols and pos in symbols:
            sym = symbols[pos]
            if fam == "PhasedXPow":
                g = cirq.PhasedXPowGate(phase_exponent=p[0], exponent=sym, global_shift=p[2])
            elif fam == "ZPow":
                g = cirq.ZPowGate(exponent=sym, global_shift=p[1])
            else:
                g = cirq.XXPowGate(exponent=sym, global_shift=p[1])
        else:
            g = _S["specs"][fam].make(p)
        c.append(g.on(*[qs[x] for x in w]), strategy=strat)
    return c


def _lower_cirq_circuit(circuit, nwires):
    """Front end (b) of DESIGN 3.1: a Cirq-produced circuit lowered op by op through cirq.unitary(op) (policed by C03/C04)."""
    import cirq

    t = np.eye(2 ** nwires, dtype=complex).reshape([2] * nwires + [2 ** nwires])
    meas = []
    for op in circuit.all_operations():
        if cirq.is_measurement(op):
            meas.append((cirq.measurement_key_name(op), [q.x for q in op.qubits]))
            continue
        t = L.apply_on_axes(t, cirq.unitary(op), [q.x for q in op.qubits])
    return t.reshape(2 ** nwires, 2 ** nwires), meas


def sec_aqt_payload(ctx, rng, case):
    import cirq
    import cirq_aqt
    import sympy
    from cirq_aqt.aqt_device import AQTSimulator

    sampler = cirq_aqt.AQTSampler(workspace="w", resource="r", access_token="t")
    kind = case % 8
    if kind == 7:  # outside the vocabulary
        q = cirq.LineQubit.range(3)
        cands = [cirq.X(q[0]), cirq.Y(q[0]) ** 0.5, cirq.H(q[0]), cirq.CZ(q[0], q[1]), cirq.CNOT(q[0], q[1]), cirq.YY(q[0], q[1]),
                 cirq.ZZ(q[0], q[1]) ** 0.5, cirq.ISWAP(q[0], q[1]), cirq.CCZ(*q), cirq.I(q[0]), cirq.rx(0.3).on(q[0])]
        bad = cands[rng.integers(len(cands))]
        try:
            txt = sampler._generate_json(cirq.Circuit(cirq.Z(q[0]) ** 0.5, bad), None)
        except ValueError as e:
            ctx.check("unknown gate" in str(e), "aqt-rejects-unsupported", "C17:aqt-reject-message", str(e), op=repr(bad))
            ctx.reject("aqt:unsupported-gate")
            return
        ctx.check(False, "aqt-rejects-unsupported", "C17:aqt-accepted-unsupported", "payload %s for %r" % (txt, bad), op=repr(bad))
        return
    prog = gen_aqt_program(rng)
    symbols, resolver = None, None
    if kind in (5, 6):
        cand = [i for i, (f, _, _) in enumerate(prog["ops"]) if f in ("PhasedXPow", "ZPow", "XXPow")]
        if cand:
            pos = cand[rng.integers(len(cand))]
            sym = sympy.Symbol("theta")
            symbols = {pos: sym}
            fam, p, w = prog["ops"][pos]
            val = p[1] if fam == "PhasedXPow" else p[0]
            resolver = cirq.ParamResolver({"theta": val}) if rng.random() < 0.5 else {sym: val}
    circuit = build_aqt_circuit(rng, prog, symbols)
    wit = dict(program=prog, circuit=repr(circuit)[:1500])
    txt = sampler._generate_json(circuit, resolver)
    payload = json.loads(txt)
    nw = max(prog["idx"]) + 1
    want = program_unitary(prog["ops"], nw, prog["idx"])
    _circuit_meaning(ctx, "aqt", circuit, want, nw, wit, resolver)
    try:
        steps, nmeas = AR.legacy_steps(payload)
        got = AR.unitary(steps, nw)
    except AR.PayloadError as e:
        ctx.check(False, "aqt-payload-unitary", "C17:aqt-payload-malformed", str(e), payload=payload, **wit)
        return
    ctx.check(L.phase_equal(got, want, UTOL), "aqt-payload-unitary", "C17:aqt-unitary",
              lambda: "AQT operation list differs from the circuit by %.3g (up to phase)" % L.phase_diff(got, want), payload=payload, **wit)
    ctx.check(len(steps) == len(prog["ops"]) and nmeas == 0, "aqt-payload-shape", "C17:aqt-op-count", "", payload=payload, **wit)
    # the Arnica form of the same list
    arn = sampler._parse_legacy_circuit_json(txt)
    try:
        asteps, ameas = AR.arnica_steps(_json_copy(arn))
        agot = AR.unitary(asteps, nw)
        ok = L.phase_equal(agot, want, UTOL)
    except (AR.PayloadError, KeyError, TypeError) as e:
        ok, ameas = False, []
    ctx.check(ok, "aqt-arnica-unitary", "C17:aqt-arnica-unitary", "converted (Arnica v1) operation list does not mean the circuit", arnica=arn, **wit)
    ctx.check(ameas == [len(arn) - 1], "aqt-arnica-measure", "C17:aqt-arnica-measure",
              "expected exactly one MEASURE, last; got positions %r" % (ameas,), arnica=arn, **wit)
    # the local simulator's reading of the list
    sim = AQTSimulator(num_qubits=nw, simulate_ideal=True)
    sim.generate_circuit_from_list(txt)
    low, meas = _lower_cirq_circuit(sim.circuit, nw)
    ctx.check(L.phase_equal(low, want, UTOL), "aqt-localsim-circuit", "C17:aqt-localsim-circuit",
              "AQTSimulator's circuit for the payload does not mean the submitted circuit", payload=payload, **wit)
    ctx.check(meas == [("m", list(range(nw)))], "aqt-localsim-circuit", "C17:aqt-localsim-measure", "measurement %r" % (meas,), **wit)
    ctx.distinct(("aqt", prog_fingerprint(prog), kind in (5, 6)), nontrivial=not _is_identity_up_to_phase(want))
    ctx.sample({"program": prog, "payload": payload})


def sec_aqt_localsim(ctx, rng, case):
    import cirq
    import cirq_aqt
    import sympy

    np.random.seed(int(rng.integers(2 ** 31)))  # the local simulator draws from numpy's global state
    prog = gen_aqt_program(rng, deterministic=True, contiguous=True)
    n = len(prog["idx"])
    sampler = cirq_aqt.AQTSamplerLocalSimulator(simulate_ideal=True)
    reps = int(rng.integers(1, 4))
    sweep = case % 3 == 0
    cand = [i for i, (f, _, _) in enumerate(prog["ops"]) if f in ("PhasedXPow", "XXPow")]
    if sweep and cand:
        pos = cand[rng.integers(len(cand))]
        fam, p, w = prog["ops"][pos]
        vals = [float(v) for v in rng.choice([0, 1, -1, 2, 3], size=2, replace=False)]
        circuit = build_aqt_circuit(rng, prog, {pos: sympy.Symbol("t")})
        variants = [dict(prog, ops=prog["ops"][:pos] + [(fam, ((p[0], v, p[2]) if fam == "PhasedXPow" else (v, p[1])), w)] + prog["ops"][pos + 1:])
                    for v in vals]
        results = sampler.run_sweep(circuit, cirq.Points("t", vals), repetitions=reps)
    else:
        circuit = build_aqt_circuit(rng, prog)
        variants = [prog]
        results = sampler.run_sweep(circuit, None, repetitions=reps) if rng.random() < 0.5 else [sampler.run(circuit, repetitions=reps)]
    wit = dict(program=prog, circuit=repr(circuit)[:1200], reps=reps)
    ctx.check(len(results) == len(variants), "aqt-localsim-result", "C17:aqt-localsim-result-count", "", **wit)
    for var, res in zip(variants, results):
        psi = program_state(var["ops"], n)
        probs = np.abs(psi) ** 2
        top = int(np.argmax(probs))
        if probs[top] < 1 - 1e-9:
            raise AssertionError("generator produced a non-deterministic AQT circuit")
        bits = [(top >> (n - 1 - q)) & 1 for q in range(n)]
        m = res.measurements.get("m")
        ok = m is not None and np.asarray(m).shape == (reps, n) and all([int(x) for x in row] == bits for row in m)
        ctx.check(ok, "aqt-localsim-result", "C17:aqt-localsim-result",
                  "deterministic circuit should give qubit-ordered bits %r in every repetition, got %r" % (bits, None if m is None else np.asarray(m).astype(int).tolist()),
                  variant=var, **wit)
        ctx.distinct(("aqt-sim", prog_fingerprint(var)), nontrivial=any(bits))
    ctx.sample({"program": prog, "reps": reps})


def _aqt_measure(ctx, rng, case):
    """docs/hardware/aqt/getting_started.ipynb: explicit measurements are not required, and anything but *exactly one
    at the end* fails - so exactly one terminal measurement is inside the documented domain."""
    import cirq
    import cirq_aqt

    n = int(rng.integers(1, 4))
    qs = cirq.LineQubit.range(n)
    flips = [bool(rng.integers(2)) for _ in range(n)]
    ops = [cirq.PhasedXPowGate(phase_exponent=float(rng.uniform(0, 2)), exponent=1.0 if f else 0.0).on(q) for q, f in zip(qs, flips)]
    circuit = cirq.Circuit(ops, cirq.measure(*qs, key="m"))
    sampler = cirq_aqt.AQTSamplerLocalSimulator(simulate_ideal=True)
    try:
        res = sampler.run(circuit, repetitions=2)
    except AttributeError as e:
        ctx.check(False, "aqt-terminal-measurement", "C17:aqt-terminal-measurement-crashes",
                  "circuit with exactly one terminal measurement raised AttributeError: %s" % e, circuit=repr(circuit))
        return
    m = np.asarray(res.measurements["m"]).astype(int).tolist()
    ctx.check(m == [[int(f) for f in flips]] * 2, "aqt-terminal-measurement", "C17:aqt-terminal-measurement-result", "got %r" % (m,), circuit=repr(circuit))



# ------------------------------------------------------------------ Pasqal
PASQAL_1Q = ["XPow", "YPow", "ZPow", "PhasedXPow", "H", "rx", "rz", "I"]
PASQAL_NQ = ["CZPow", "CXPow", "CCXPow", "CCZPow"]


def gen_pasqal_program(rng):
    n = int(rng.integers(1, 6))
    ops = []
    for _ in range(int(rng.integers(1, 8))):
        if n >= 2 and rng.random() < 0.4:
            fam = PASQAL_NQ[rng.integers(2 if n == 2 else 4)]
            k = 2 if fam in ("CZPow", "CXPow") else 3
            p = (float(rng.choice([1, -1, 2, 3, 0])), 0.0)
            w = tuple(int(x) for x in rng.choice(n, size=k, replace=False))
        else:
            fam = PASQAL_1Q[rng.integers(len(PASQAL_1Q))]
            w = (int(rng.integers(n)),)
            if fam == "PhasedXPow":
                p = (GP.pick_exp(rng), GP.pick_exp(rng), GP.pick_shift(rng))
            elif fam in ("rx", "rz"):
                p = (GP.pick_ang(rng),)
            elif fam == "H":
                fam, p = "HPow", (1.0, 0.0)
            elif fam == "I":
                fam, p = "Identity2", ()
            else:
                p = (GP.pick_exp(rng), GP.pick_shift(rng))
        ops.append((fam, tuple(p), w))
    keys = gen_keys(rng, n)
    return {"idx": list(range(n)), "ops": ops, "keys": keys}


def sec_pasqal(ctx, rng, case):
    import cirq
    import cirq_pasqal
    import sympy

    http = _S["pasqal_http"]
    prog = gen_pasqal_program(rng)
    n = len(prog["idx"])
    names = ["q%d" % i for i in range(n)]
    perm = [int(x) for x in rng.permutation(n)]
    qs = [cirq.NamedQubit(names[perm[i]]) for i in range(n)]   # wire i is the qubit called names[perm[i]]
    device = cirq_pasqal.PasqalDevice(qubits=qs)
    sampler = cirq_pasqal.PasqalSampler(remote_host="http://pasqal.invalid", access_token="tok", device=device)
    c = cirq.Circuit()
    sym_pos, sym = None, sympy.Symbol("par")
    cand = [i for i, (f, _, _) in enumerate(prog["ops"]) if f in ("XPow", "YPow", "ZPow")]
    if cand and case % 3 == 0:
        sym_pos = cand[rng.integers(len(cand))]
    for pos, (fam, p, w) in enumerate(prog["ops"]):
        if pos == sym_pos:
            g = {"XPow": cirq.XPowGate, "YPow": cirq.YPowGate, "ZPow": cirq.ZPowGate}[fam](exponent=sym, global_shift=p[1])
        else:
            g = _S["specs"][fam].make(p)
        c.append(g.on(*[qs[x] for x in w]), strategy=cirq.InsertStrategy.NEW)
    if prog["keys"]:
        c.append(cirq.Moment([cirq.measure(*[qs[x] for x in tg], key=k) for k, tg in prog["keys"]]))
    if sym_pos is not None:
        vals = [float(GP.pick_exp(rng)) for _ in range(2)]
        params = cirq.Points("par", vals)
        fam, p, w = prog["ops"][sym_pos]
        variants = [dict(prog, ops=prog["ops"][:sym_pos] + [(fam, (v, p[1]), w)] + prog["ops"][sym_pos + 1:]) for v in vals]
    else:
        params, variants = None, [prog]
    reps = int(rng.integers(1, 9))
    http.posts = []
    sent = {}

    def reply_for(i, post):
        """The Pasqal side: read the body as plain JSON and answer with bits chosen per key, in the payload's qubit order."""
        doc = PR.read(post["data"])
        r = int(post["headers"]["Repetitions"])
        recs, bits = {}, {}
        for key, qids, mask in doc["measurements"]:
            rows = [[int(x) for x in rng.integers(2, size=len(qids))] for _ in range(r)]
            bits[key] = (qids, rows)
            recs[key] = {"packed_digits": PR.pack_bits_hex(rows), "binary": True, "dtype": "bool", "shape": [r, 1, len(qids)]}
        sent[i] = (doc, bits)
        return json.dumps({"cirq_type": "ResultDict", "params": {"cirq_type": "ParamResolver", "param_dict": []}, "records": recs})

    http.reply_for = reply_for
    wit = dict(program=prog, perm=perm, circuit=repr(c)[:1200])
    try:
        results = sampler.run_sweep(c, params, repetitions=reps)
    except ValueError as e:
        ctx.check(False, "pasqal-accepts-vocabulary", "C17:pasqal-in-vocabulary-rejected", str(e), **wit)
        return
    ctx.check(len(results) == len(variants) == len(http.posts), "pasqal-request", "C17:pasqal-request-count",
              "%d resolvers, %d requests, %d results" % (len(variants), len(http.posts), len(results)), **wit)
    order = [("N", names[perm[i]]) for i in range(n)]
    for i, (var, res) in enumerate(zip(variants, results)):
        doc, bits = sent[i]
        ctx.check(http.posts[i]["headers"].get("Repetitions") == str(reps), "pasqal-request", "C17:pasqal-repetitions-header", "", **wit)
        got = PR.unitary(doc["steps"], order)
        want = program_unitary(var["ops"], n)
        ctx.check(L.phase_equal(got, want, UTOL) and doc["ops_after_measure"] == 0, "pasqal-body-unitary", "C17:pasqal-body-unitary",
                  "request body (Cirq JSON read as plain JSON) does not mean the resolved circuit", body=http.posts[i]["data"][:1500], **wit)
        want_keys = {k: [("N", names[perm[x]]) for x in tg] for k, tg in var["keys"]}
        got_keys = {k: q for k, q, _ in doc["measurements"]}
        ctx.check(got_keys == want_keys and all(not any(m) for _, _, m in doc["measurements"]), "pasqal-body-measurements",
                  "C17:pasqal-body-measurements", "keys in body %r, submitted %r" % (got_keys, want_keys), **wit)
        okr = set(res.measurements.keys()) == set(bits.keys()) and all(
            np.asarray(res.measurements[k]).astype(int).tolist() == rows for k, (_, rows) in bits.items())
        ctx.check(okr, "pasqal-result-decoding", "C17:pasqal-result-decoding", "decoded result differs from the bits the endpoint sent", **wit)
        ctx.distinct(("pasqal", prog_fingerprint(var), tuple(perm)), nontrivial=bool(var["keys"]) or not _is_identity_up_to_phase(want))
    ctx.sample({"program": prog, "body": http.posts[0]["data"][:600] if http.posts else None})



def sec_measurement_limits(ctx, rng, case):
    """Measurements the vendor formats cannot carry (IonQ) / the one measurement AQT documents as allowed."""
    if case % 2:
        _aqt_measure(ctx, rng, case)
    else:
        _ionq_meas_modifiers(ctx, rng, case)


SECTIONS = [
    ("ionq_payload", sec_ionq_payload, 5000, 150000, 3.0),
    ("ionq_batch", sec_ionq_batch, 600, 18000, 1.5),
    ("ionq_reject", sec_ionq_reject, 900, 27000, 1.0),
    ("ionq_results", sec_ionq_results, 2000, 60000, 2.0),
    ("ionq_job", sec_ionq_job, 900, 27000, 2.0),
    ("aqt_payload", sec_aqt_payload, 1200, 36000, 1.5),
    ("aqt_localsim", sec_aqt_localsim, 300, 9000, 2.0),
    ("pasqal", sec_pasqal, 500, 15000, 1.0),
    ("vendor_measurement_limits", sec_measurement_limits, 28, 280, 0.3),
]
