"""C02 - measurement outcomes follow the Born rule exactly, incl. feed-forward.

The scripted seed object dictates every random draw of the real simulators; the
explorer re-runs the real `run` / `simulate` once per branch and extracts the
exact map records -> probability, which is compared with the reference
interpreter's map for the same abstract program.  No statistics."""
from __future__ import annotations

import numpy as np

from vf.monitors import scripted_rng as SR
from vf.refmodel import interp as I
from vf.refmodel import linalg as L
from vf.workloads import programs as P

LEVEL = "exploration"
RULE = ("abstract programs with mid-circuit and terminal measurements (multi-qubit, invert masks, confusion maps, repeated "
        "keys, qutrits), resets and classically controlled operations (key / bitmask / sympy conditions); every decision path "
        "of the real simulator is enumerated with the scripted seed object; non-trivial = reference distribution has >=2 "
        "outcomes with probability >1e-6; distinct by program text + simulator configuration")
ASSUMPTIONS = ["catalogue matrices are ground truth", "confusion map before invert mask, as the MeasurementGate docstring says",
               "branches below 1e-6 probability are not forced (complex64 noise floor)"]
MIN_EVAL = {"clifford-run-distribution==born": 80, "run-distribution==born": 150, "simulate-branch-states==collapse": 40, "free-measure-functions": 100,
            "repetitions-independent": 30}
MUST_REACH = [
    "cirq/sim/simulator_base.py:SimulatorBase._run",
    "cirq/sim/simulation_state.py:SimulationState.measure",
    "cirq/sim/simulation_state.py:SimulationState._confuse_result",
    "cirq/sim/simulator.py:StepResult.sample_measurement_ops",
    "cirq/sim/simulator.py:StepResult._confuse_results",
    "cirq/sim/state_vector.py:measure_state_vector",
    "cirq/sim/state_vector.py:sample_state_vector",
    "cirq/sim/density_matrix_utils.py:measure_density_matrix",
    "cirq/sim/density_matrix_utils.py:sample_density_matrix",
    "cirq/sim/simulation_product_state.py:SimulationProductState.sample",
    "cirq/qis/clifford_tableau.py:CliffordTableau._measure",
    "cirq/sim/clifford/stabilizer_state_ch_form.py:StabilizerStateChForm.measure",
    "cirq/ops/classically_controlled_operation.py:ClassicallyControlledOperation._act_on_",
    "cirq/value/condition.py:KeyCondition.resolve",
    "cirq/value/condition.py:SympyCondition.resolve",
    "cirq/value/condition.py:BitMaskKeyCondition.resolve",
    "cirq/value/classical_data.py:ClassicalDataDictionaryStore.record_measurement",
]

KNOWN_MASK_CONF = "C02:fastpath-invert-before-confusion"
K_SAMPLE_CLIFFORD = "C02:cirq.sample-clifford-dispatch-accepts-ops-the-clifford-simulator-cannot-apply"
K_QUDIT_MASK_UNITARY = "C02:has_unitary(circuit)-raises-for-inverted-qudit-measurement"


def _sample_failure_mechanism(cirq, circuit, exc):
    """explained-by tests for the two recorded ways cirq.sample fails before it simulates anything"""
    msg = str(exc)
    if isinstance(exc, TypeError) and "CliffordSimulator doesn't support" in msg:
        # the dispatch asks CliffordSimulator.is_supported_operation (= has_stabilizer_effect) op by op, which also
        # accepts multi-qubit Clifford unitaries the simulator has no rule for
        if all(cirq.CliffordSimulator.is_supported_operation(op) for op in circuit.all_operations()):
            try:
                cirq.Simulator(seed=0).run(circuit)
                return K_SAMPLE_CLIFFORD
            except Exception:
                return None
    if isinstance(exc, ValueError) and "Wrong shape of qids for <cirq.X>" in msg:
        # Circuit._has_unitary_ rewrites inverted measurements into X gates, which do not exist on a qudit
        inverted_qudit = any(cirq.is_measurement(op) and isinstance(op.gate, cirq.MeasurementGate)
                             and any(b and q.dimension != 2 for q, b in zip(op.qubits, op.gate.invert_mask))
                             for op in circuit.all_operations())
        if inverted_qudit:
            try:
                cirq.has_unitary(circuit)
            except ValueError as e2:
                if "Wrong shape of qids for <cirq.X>" in str(e2):
                    return K_QUDIT_MASK_UNITARY
    return None


def _records_key(result):
    out = []
    for k in sorted(result.records):
        arr = result.records[k]
        out.append((k, tuple(tuple(int(x) for x in inst) for inst in arr[0])))
    return tuple(out)


def _make_sim(kind, rng_obj):
    import cirq

    if kind == "sv64":
        return cirq.Simulator(seed=rng_obj)
    if kind == "sv128":
        return cirq.Simulator(dtype=np.complex128, seed=rng_obj)
    if kind == "sv64-nosplit":
        return cirq.Simulator(split_untangled_states=False, seed=rng_obj)
    if kind == "sv128-nosplit":
        return cirq.Simulator(dtype=np.complex128, split_untangled_states=False, seed=rng_obj)
    if kind == "dm":
        return cirq.DensityMatrixSimulator(seed=rng_obj)
    if kind == "dm128-nosplit":
        return cirq.DensityMatrixSimulator(dtype=np.complex128, split_untangled_states=False, seed=rng_obj)
    raise ValueError(kind)


SIMS = ["sv64", "sv128", "sv64-nosplit", "sv128-nosplit", "dm", "dm128-nosplit"]


def _tv_tol(kind):
    return 1e-5 if "128" in kind else 3e-4


def _is_terminal_only(steps):
    """all measurements at the end on distinct qubits/keys and no control -> the sampling fast path"""
    seen_m = False
    for s in steps:
        if s["t"] == "C":
            return False
        if s["t"] == "M":
            seen_m = True
        elif seen_m:
            return False
    return True


def _run_distribution(ctx, steps, dims, qubits, circuit, kind, wit, reps=1):
    import cirq

    def run(rng_obj):
        if kind == "mux-sample128":
            # cirq.sample picks the simulator itself (Clifford / state vector / density matrix) from what the circuit holds
            return _records_key(cirq.sample(circuit, seed=rng_obj, dtype=np.complex128))
        sim = _make_sim(kind, rng_obj)
        res = sim.run(circuit, repetitions=1)
        return _records_key(res)

    ex = SR.explore(run, max_paths=3000, min_branch=1e-6)
    return ex


def _rekey_op(op, mp):
    """the protocol answers NotImplemented for operations that have no keys at all (documented)"""
    import cirq

    r = cirq.with_measurement_key_mapping(op, mp)
    return op if r is NotImplemented else r


def sec_run(ctx, rng, case):
    import cirq

    dims = P.pick_dims(rng, nmax=4, qudit_p=0.2, dmax_total=36)
    terminal = rng.random() < 0.3
    if terminal:
        u = P.gen_unitary_program(rng, dims, int(rng.integers(1, 8)))
        ms = P.gen_meas_program(rng, dims, nsteps=int(rng.integers(1, 4)), allow_ctrl=False, allow_reset=False)
        ms = [s for s in ms if s["t"] == "M"]
        # terminal fast path needs distinct qubits per measurement and distinct keys
        usedq, usedk, keep = set(), set(), []
        for s in ms:
            if set(s["w"]) & usedq or s["key"] in usedk:
                continue
            usedq |= set(s["w"])
            usedk.add(s["key"])
            keep.append(s)
        steps = u + keep
    else:
        steps = P.gen_meas_program(rng, dims, max_digits=7, allow_pauli=True, allow_multi_cond=True)
    qubits = P.make_qubits(rng, dims)
    layout = ["greedy", "serial"][int(rng.integers(2))]
    circuit = P.to_circuit(steps, qubits, rng, layout)
    ref = I.distribution(I.run(P.to_ref(steps), dims))
    rekey = None
    mkeys = sorted({s["key"] for s in steps if s["t"] in ("M", "PM") and "key" in s})
    if mkeys and rng.random() < 0.3:
        # the same program after its keys were renamed / prefixed (a measurement keeps its mask and confusion map,
        # controls follow their key): same distribution under the new names
        mode = int(rng.integers(3))
        if mode == 1:
            f = {k: "p:" + k for k in mkeys}
            circuit = cirq.with_key_path_prefix(circuit, ("p",))
            rekey = "with_key_path_prefix"
        else:
            sub = [k for k in mkeys if rng.random() < 0.7] or mkeys[:1]
            f = {k: (k + "_r" if k in sub else k) for k in mkeys}
            mp = {k: f[k] for k in sub}
            if mode == 0:
                circuit = cirq.with_measurement_key_mapping(circuit, mp)
                rekey = "with_measurement_key_mapping(circuit)"
            else:
                circuit = cirq.Circuit(cirq.Moment(_rekey_op(op, mp) for op in m) for m in circuit)
                rekey = "with_measurement_key_mapping(op)"
        ref = {tuple(sorted((f[k], inst) for k, inst in rec)): p for rec, p in ref.items()}
        ctx.event("rekeyed:" + rekey)
    kinds = [SIMS[int(i)] for i in rng.choice(len(SIMS), size=2, replace=False)]
    if rng.random() < 0.3:
        kinds[1] = "mux-sample128"
    nontriv = sum(1 for p in ref.values() if p > 1e-6) >= 2
    both = any(s["t"] == "M" and s.get("mask") and s.get("conf") for s in steps)
    for kind in kinds:
        wit = dict(dims=dims, program=P.describe(steps), layout=layout, simulator=kind, terminal=_is_terminal_only(steps), rekey=rekey)
        try:
            ex = _run_distribution(ctx, steps, dims, qubits, circuit, kind, wit)
        except (TypeError, ValueError) as e:
            km = _sample_failure_mechanism(cirq, circuit, e) if kind == "mux-sample128" else None
            if km is None:
                raise
            ctx.check(False, "run-distribution==born", km, "cirq.sample raised %s: %s" % (type(e).__name__, str(e)[:200]), **wit)
            continue
        if ex.over_budget:
            ctx.event("explorer-over-budget")
            continue
        ctx.event("paths", len(ex.paths))
        ctx.event("draws", ex.draws)
        got = ex.distribution()
        tv = L.tv_distance(got, ref)
        ok = tv <= _tv_tol(kind) and abs(ex.total() - 1) < 1e-4
        mech = "C02:run-distribution:" + ("terminal" if _is_terminal_only(steps) else "general")
        if not ok and both and _is_terminal_only(steps):
            # explained-by test for the known order defect: invert mask applied before the confusion map on the fast path
            alt = I.distribution(I.run(_ref_swapped(steps), dims))
            if L.tv_distance(got, alt) <= _tv_tol(kind):
                mech = KNOWN_MASK_CONF
        ctx.check(ok, "run-distribution==born", mech,
                  lambda: "total variation %.3g between the simulator's exact outcome distribution and the Born rule (sum p=%.6f)" % (tv, ex.total()),
                  got={str(k): v for k, v in list(got.items())[:12]}, want={str(k): v for k, v in list(ref.items())[:12]}, **wit)
        big_bad = [b for b in ex.bad]
        ctx.check(not big_bad, "requested-p-is-distribution", "C02:malformed-probability-vector", "simulator requested choice() with %r" % (big_bad[:2],), **wit)
        ctx.distinct((tuple(P.describe(steps)), dims, kind), nontrivial=nontriv)
    ctx.sample({"dims": dims, "program": P.describe(steps), "simulators": kinds, "ref_outcomes": len(ref)})


def _ref_swapped(steps):
    """reference steps where measurements with both mask and confusion invert FIRST (the known-wrong order)."""
    out = []
    for s in steps:
        if s["t"] == "M" and s.get("mask") and s.get("conf"):
            out.append(I.M(s["key"], s["w"], s.get("mask", ()), s.get("conf"), invert_first=True))
        else:
            out.append(P.step_to_ref(s))
    return out


def sec_simulate(ctx, rng, case):
    """simulate(): per record history, sum over paths of p*|psi><psi| equals the reference unnormalised branch state."""
    import cirq

    dims = P.pick_dims(rng, nmax=3, qudit_p=0.2, dmax_total=18)
    steps = P.gen_meas_program(rng, dims, max_digits=5, keys=("a", "b", "c", "d"), allow_pauli=True)
    # simulate() reports one value per key: keep keys unique
    seen, uniq = set(), []
    for s in steps:
        if s["t"] in ("M", "PM"):
            if s["key"] in seen:
                continue
            seen.add(s["key"])
        uniq.append(s)
    steps = [s for s in uniq if not (s["t"] == "C" and P.step_qubits_keys(s)[1] - seen)]
    # controls must come after their measurement: drop any control whose key is measured later
    ok_steps, have = [], set()
    for s in steps:
        if s["t"] in ("M", "PM"):
            have.add(s["key"])
        if s["t"] == "C" and not (P.step_qubits_keys(s)[1] <= have):
            continue
        ok_steps.append(s)
    steps = ok_steps
    qubits = P.make_qubits(rng, dims)
    circuit = P.to_circuit(steps, qubits, rng, "greedy")
    kind = ["sv128", "sv128-nosplit", "dm128-nosplit", "sv64"][int(rng.integers(4))]
    D = L.dim_of(dims)
    branches = I.run(P.to_ref(steps), dims)
    ref = {}
    for rec, rho in branches.items():
        k = I.by_key(rec)
        ref[k] = ref.get(k, 0) + rho
    wit = dict(dims=dims, program=P.describe(steps), simulator=kind)

    def run(rng_obj):
        sim = _make_sim(kind, rng_obj)
        res = sim.simulate(circuit, qubit_order=qubits)
        meas = tuple(sorted((k, (tuple(int(x) for x in v),)) for k, v in res.measurements.items()))
        if kind.startswith("dm"):
            st = np.array(res.final_density_matrix, dtype=complex)
        else:
            v = np.array(res.final_state_vector, dtype=complex)
            st = np.outer(v, v.conj())
        return (meas, st.tobytes())

    ex = SR.explore(run, max_paths=600, min_branch=1e-6)
    if ex.over_budget:
        ctx.event("explorer-over-budget")
        return
    acc = {}
    for p, (meas, sb), _ in ex.paths:
        st = np.frombuffer(sb, dtype=complex).reshape(D, D)
        acc[meas] = acc.get(meas, 0) + p * st
    tol = 1e-5 if "128" in kind else 3e-4
    worst = 0.0
    for k in set(acc) | set(ref):
        a = acc.get(k, np.zeros((D, D)))
        b = ref.get(k, np.zeros((D, D)))
        worst = max(worst, L.maxdiff(a, b))
    ctx.check(worst <= tol, "simulate-branch-states==collapse", "C02:simulate-post-measurement-state",
              lambda: "post-measurement states (weighted by path probability, grouped by measurement record) deviate by %.3g" % worst, **wit)
    ctx.distinct((tuple(P.describe(steps)), dims, kind), nontrivial=len(ref) >= 2)
    ctx.sample({"dims": dims, "program": P.describe(steps), "simulator": kind, "paths": len(ex.paths)})


def sec_reps(ctx, rng, case):
    """repetitions: general path rows are independent runs; fast path rows decode the scripted index; shapes for R=0."""
    import cirq

    dims = (2,) * int(rng.integers(1, 4))
    general = rng.random() < 0.5
    if general:
        steps = P.gen_meas_program(rng, dims, nsteps=int(rng.integers(2, 6)), max_digits=3, allow_conf=False)
        if _is_terminal_only(steps):
            steps = steps + [P.gen_unitary_step(rng, dims)]
            steps.append({"t": "M", "key": "z", "w": (0,)})
    else:
        steps = P.gen_unitary_program(rng, dims, int(rng.integers(1, 6)))
        steps.append({"t": "M", "key": "a", "w": tuple(int(x) for x in rng.permutation(len(dims)))[: int(rng.integers(1, len(dims) + 1))],
                      "mask": tuple(bool(b) for b in rng.integers(0, 2, size=int(rng.integers(0, 2))))})
    qubits = P.make_qubits(rng, dims)
    circuit = P.to_circuit(steps, qubits, rng, "greedy")
    kind = SIMS[int(rng.integers(len(SIMS)))]
    ref = I.distribution(I.run(P.to_ref(steps), dims))
    wit = dict(dims=dims, program=P.describe(steps), simulator=kind, general=general)
    # R = 0: no rows, same key set (the per-key instance/width shape of an empty result is not documented)
    res0 = _make_sim(kind, SR.ScriptedRandom(bulk_rng=rng)).run(circuit, repetitions=0)
    keys = {s["key"] for s in steps if s["t"] == "M"}
    ok = set(res0.records) == keys and all(v.shape[0] == 0 for v in res0.records.values()) and res0.repetitions == 0
    ctx.check(ok, "repetitions-zero-shapes", "C02:repetitions-zero", "records for repetitions=0: %r" % {k: v.shape for k, v in res0.records.items()}, **wit)
    if general:
        R = 2

        def run(rng_obj):
            res = _make_sim(kind, rng_obj).run(circuit, repetitions=R)
            rows = []
            for r in range(R):
                rows.append(tuple((k, tuple(tuple(int(x) for x in i_) for i_ in res.records[k][r])) for k in sorted(res.records)))
            return tuple(rows)

        ex = SR.explore(run, max_paths=2500, min_branch=1e-6)
        if ex.over_budget:
            ctx.event("explorer-over-budget")
            return
        got = ex.distribution()
        want = {}
        for k1, p1 in ref.items():
            for k2, p2 in ref.items():
                want[(k1, k2)] = p1 * p2
        tv = L.tv_distance(got, want)
        ctx.check(tv <= 2 * _tv_tol(kind), "repetitions-independent", "C02:repetitions-not-independent",
                  lambda: "joint distribution of 2 repetitions differs from the product distribution by TV %.3g" % tv, **wit)
    else:
        # fast path: every row must decode the scripted index exactly like the single-shot run with that decision
        R = int(rng.choice([2, 3, 7, 8, 9]))
        rs = SR.ScriptedRandom(bulk_rng=rng)
        res = _make_sim(kind, rs).run(circuit, repetitions=R)
        nb = [i for i, e in enumerate(rs.log) if e[0] == "bulk"]
        if len(nb) != 1:
            ctx.event("fastpath-bulk-draws-%d" % len(nb))
            return
        w, arr = rs.bulk[0]
        head = rs.decisions()[: nb[0]]
        okrows = res.records["a"].shape[0] == R
        for r in range(R):
            single = _make_sim(kind, SR.ScriptedRandom(prefix=head + [int(arr[r])])).run(circuit, repetitions=1)
            okrows = okrows and np.array_equal(single.records["a"][0], res.records["a"][r])
        ctx.check(okrows, "repetitions-independent", "C02:fastpath-row-decoding", "row r of a batched sample is not the single-shot record of the r-th drawn index", R=R, **wit)
        # and the p vector handed to choice() is the Born marginal (checked through the single-shot explorer in sec_run)
    ctx.distinct((tuple(P.describe(steps)), kind, general), nontrivial=len(ref) >= 2)
    ctx.sample({"program": P.describe(steps), "simulator": kind, "general_path": general})


def sec_free(ctx, rng, case):
    """measure_state_vector / sample_state_vector / measure_density_matrix / sample_density_matrix on caller-owned arrays."""
    import cirq

    dims = P.pick_dims(rng, nmax=4, qudit_p=0.35, dmax_total=36)
    n = len(dims)
    D = L.dim_of(dims)
    k = int(rng.integers(0, n + 1))
    idx = [int(x) for x in rng.choice(n, size=k, replace=False)]
    which = int(rng.integers(4))
    mdims = [dims[i] for i in idx]
    wit = dict(dims=dims, indices=idx, function=["measure_state_vector", "sample_state_vector", "measure_density_matrix", "sample_density_matrix"][which])
    dtype = [np.complex64, np.complex128][int(rng.integers(2))]
    tol = 1e-5 if dtype == np.complex128 else 2e-4
    psi = L.random_state(rng, D)
    if rng.random() < 0.3:  # sparse support so some outcomes have probability exactly 0
        psi = psi * (rng.random(D) < 0.5)
        if np.linalg.norm(psi) < 1e-9:
            psi[0] = 1
        psi = psi / np.linalg.norm(psi)
    rho = L.random_rho(rng, D, rank=int(rng.integers(1, 3)))
    # reference marginal and post states
    if which in (0, 1):
        state_ref = np.outer(psi, psi.conj())
    else:
        state_ref = rho
    branches = I.run([I.M("m", idx)], dims, state_ref) if k else {(("m", ()),): state_ref}
    marg = {tuple(rec[0][1]): float(np.trace(r).real) for rec, r in branches.items()}
    if which == 0:
        arr = psi.astype(dtype)
        mode = int(rng.integers(3))  # out=None / out=arr / out=other

        def run(rng_obj):
            a = arr.copy()
            other = np.empty_like(a)
            out = None if mode == 0 else (a if mode == 1 else other)
            bits, post = cirq.measure_state_vector(a, idx, qid_shape=dims, out=out, seed=rng_obj)
            untouched = True if mode == 1 else np.array_equal(a, arr)
            place = (post is a) if mode == 1 else ((post is other) if mode == 2 else (post is not a))
            return (tuple(int(b) for b in bits), np.array(post, dtype=complex).reshape(-1).tobytes(), untouched, place)

        ex = SR.explore(run, max_paths=200, min_branch=1e-6)
        got = ex.distribution(key=lambda o: o[0])
        ok = L.tv_distance(got, marg) <= tol * 10
        for p, (bits, pb, untouched, place), _ in ex.paths:
            if p < 1e-4:
                continue
            post = np.frombuffer(pb, dtype=complex)
            want = branches[(("m", bits),)]
            want = want / np.trace(want).real
            ok = ok and L.allclose(np.outer(post, post.conj()), want, tol * 50) and untouched and place
        ctx.check(ok, "free-measure-functions", "C02:measure_state_vector", "outcome distribution / collapsed state / aliasing wrong (out mode %d)" % mode, mode=mode, **wit)
    elif which == 1:
        arr = psi.astype(dtype)

        def run(rng_obj):
            a = arr.copy()
            bits = cirq.sample_state_vector(a, idx, qid_shape=dims, repetitions=1, seed=rng_obj)
            return (tuple(int(b) for b in bits[0]), np.array_equal(a, arr), bits.shape)

        ex = SR.explore(run, max_paths=200, min_branch=1e-6)
        got = ex.distribution(key=lambda o: o[0])
        ok = L.tv_distance(got, marg) <= tol * 10 and all(o[1] and o[2] == (1, k) for _, o, _ in ex.paths)
        ctx.check(ok, "free-measure-functions", "C02:sample_state_vector", "sample distribution wrong or state modified", **wit)
        R = int(rng.integers(0, 5))
        b = cirq.sample_state_vector(arr.copy(), idx, qid_shape=dims, repetitions=R, seed=SR.ScriptedRandom(bulk_rng=rng))
        ctx.check(b.shape == (R, k), "free-measure-functions", "C02:sample_state_vector-shape", "shape %r" % (b.shape,), R=R, **wit)
    elif which == 2:
        arr = rho.astype(dtype).reshape(dims + dims)
        mode = int(rng.integers(3))

        def run(rng_obj):
            a = arr.copy()
            other = np.empty_like(a)
            out = None if mode == 0 else (a if mode == 1 else other)
            bits, post = cirq.measure_density_matrix(a, idx, qid_shape=dims, out=out, seed=rng_obj)
            untouched = True if mode == 1 else np.array_equal(a, arr)
            place = (post is a) if mode == 1 else ((post is other) if mode == 2 else (post is not a))
            return (tuple(int(b) for b in bits), np.array(post, dtype=complex).reshape(-1).tobytes(), untouched, place)

        ex = SR.explore(run, max_paths=200, min_branch=1e-6)
        got = ex.distribution(key=lambda o: o[0])
        ok = L.tv_distance(got, marg) <= tol * 10
        for p, (bits, pb, untouched, place), _ in ex.paths:
            if p < 1e-4:
                continue
            post = np.frombuffer(pb, dtype=complex).reshape(D, D)
            want = branches[(("m", bits),)]
            want = want / np.trace(want).real
            ok = ok and L.allclose(post, want, tol * 50) and untouched and place
        ctx.check(ok, "free-measure-functions", "C02:measure_density_matrix", "outcome distribution / collapsed state / aliasing wrong (out mode %d)" % mode, mode=mode, **wit)
    else:
        arr = rho.astype(dtype).reshape(dims + dims)

        def run(rng_obj):
            a = arr.copy()
            bits = cirq.sample_density_matrix(a, idx, qid_shape=dims, repetitions=1, seed=rng_obj)
            return (tuple(int(b) for b in bits[0]), np.array_equal(a, arr), bits.shape)

        ex = SR.explore(run, max_paths=200, min_branch=1e-6)
        got = ex.distribution(key=lambda o: o[0])
        ok = L.tv_distance(got, marg) <= tol * 10 and all(o[1] and o[2] == (1, k) for _, o, _ in ex.paths)
        ctx.check(ok, "free-measure-functions", "C02:sample_density_matrix", "sample distribution wrong or state modified", **wit)
    ctx.distinct((dims, tuple(idx), which, round(float(abs(psi[0])), 6)), nontrivial=len([p for p in marg.values() if p > 1e-6]) >= 2)
    ctx.sample(wit)


def sec_step_sample(ctx, rng, case):
    """StepResult.sample / sample_measurement_ops during moment stepping never change the state."""
    import cirq

    dims = (2,) * int(rng.integers(1, 5))
    n = len(dims)
    steps = P.gen_unitary_program(rng, dims, int(rng.integers(2, 10)))
    qubits = P.make_qubits(rng, dims)
    circuit = P.to_circuit(steps, qubits, rng, "greedy")
    kind = ["sv64", "sv64-nosplit", "dm", "sv128"][int(rng.integers(4))]
    sim = _make_sim(kind, SR.ScriptedRandom(bulk_rng=rng))
    ref_steps = iter(P.to_ref(steps))
    psi = np.zeros(2 ** n, dtype=complex)
    psi[0] = 1
    tol = 1e-5 if "128" in kind else 2e-4
    wit = dict(program=P.describe(steps), simulator=kind)
    for mi, step in enumerate(sim.simulate_moment_steps(circuit, qubit_order=qubits)):
        for _ in circuit[mi].operations:
            st = next(ref_steps)
            psi = L.apply_to_state(psi, st.matrix, st.wires, dims)
        sel = [int(x) for x in rng.choice(n, size=int(rng.integers(1, n + 1)), replace=False)]
        marg = {}
        probs = np.abs(psi.reshape(dims)) ** 2
        for ix in np.ndindex(*dims):
            key = tuple(ix[s] for s in sel)
            marg[key] = marg.get(key, 0) + float(probs[ix])
        if rng.random() < 0.5:
            def run(rng_obj, step=step, sel=sel):
                out = step.sample([qubits[s] for s in sel], repetitions=1, seed=rng_obj)
                return tuple(int(b) for b in out[0])

            ex = SR.explore(run, max_paths=300, min_branch=1e-6)
            tvd = L.tv_distance(ex.distribution(), marg)
            ctx.check(tvd <= tol * 10, "step-sample-distribution", "C02:step-sample-marginal",
                      lambda: "StepResult.sample outcome distribution differs from the Born marginal by TV %.3g" % tvd, moment=mi, sel=sel, **wit)
            out = step.sample([qubits[s] for s in sel], repetitions=int(rng.integers(2, 5)), seed=SR.ScriptedRandom(bulk_rng=rng))
            ctx.check(out.shape[1] == len(sel), "step-sample-distribution", "C02:step-sample-shape", "", **wit)
        else:
            mop = cirq.measure(*[qubits[s] for s in sel], key="k")
            draw = SR.ScriptedRandom(bulk_rng=rng)
            step.sample_measurement_ops([mop], repetitions=int(rng.integers(2, 4)), seed=draw)
        if kind.startswith("dm"):
            got = step.density_matrix(copy=True)
            want = np.outer(psi, psi.conj())
        else:
            got = step.state_vector(copy=True)
            want = psi
        if not ctx.check(L.allclose(got, want, tol), "sampling-does-not-change-state", "C02:sample-changed-state",
                         lambda: "state after sampling at moment %d deviates by %.3g" % (mi, L.maxdiff(got, want)), moment=mi, **wit):
            break
    ctx.distinct((tuple(P.describe(steps)), kind), nontrivial=len(steps) >= 2)


def sec_clifford(ctx, rng, case):
    """the Clifford simulators (CH form and tableau) on stabilizer programs with mid-circuit measurements, invert masks,
    repeated keys and feed-forward: exact outcome distribution == Born rule, and == the state-vector simulator's"""
    import cirq
    from vf.props import c13 as C13

    n = int(rng.integers(1, 5))
    dims = (2,) * n
    qubits = P.make_qubits(rng, dims)
    steps, digits, keys, used = [], 0, ["a", "b", "c", "d"], []
    terminal_only = rng.random() < 0.25
    nsteps = int(rng.integers(2, 14))
    for i in range(nsteps):
        r = rng.random()
        if (not terminal_only) and r < 0.25 and digits < 6:
            w = tuple(int(x) for x in rng.choice(n, size=int(rng.integers(1, min(n, 2) + 1)), replace=False))
            key = keys[int(rng.integers(len(keys)))] if (used and rng.random() < 0.3) else keys[min(len(set(used)), len(keys) - 1)]
            if key in used and any(len(s_["w"]) != len(w) for s_ in steps if s_["t"] == "M" and s_["key"] == key):
                continue  # a repeated key keeps its width
            st = {"t": "M", "key": key, "w": w}
            if rng.random() < 0.3:
                st["mask"] = tuple(bool(b) for b in rng.integers(0, 2, size=len(w)))
            used.append(key)
            digits += len(w)
            steps.append(st)
        elif (not terminal_only) and r < 0.37 and used:
            steps.append({"t": "C", "cond": {"t": "key", "key": used[int(rng.integers(len(used)))], "index": -1}, "inner": C13._clifford_step(rng, n, cirq)})
        else:
            steps.append(C13._clifford_step(rng, n, cirq))
    if terminal_only or not used:
        free = list(range(n))
        rng.shuffle(free)
        for j, key in enumerate(keys[: int(rng.integers(1, 3))]):
            if not free:
                break
            k = int(rng.integers(1, min(2, len(free)) + 1))
            w, free = tuple(free[:k]), free[k:]
            st = {"t": "M", "key": key + "t", "w": w}
            if rng.random() < 0.3:
                st["mask"] = tuple(bool(b) for b in rng.integers(0, 2, size=len(w)))
            steps.append(st)
    circuit = P.to_circuit(steps, qubits, rng, ["greedy", "serial"][int(rng.integers(2))])
    ref = I.distribution(I.run(P.to_ref(steps), dims))
    which = ["CliffordSimulator", "CliffordSimulator-nosplit", "StabilizerSampler"][int(rng.integers(3))]
    wit = dict(n=n, program=P.describe(steps), simulator=which, terminal=_is_terminal_only(steps))

    def run(rng_obj):
        if which == "CliffordSimulator":
            res = cirq.CliffordSimulator(seed=rng_obj).run(circuit, repetitions=1)
        elif which == "CliffordSimulator-nosplit":
            res = cirq.CliffordSimulator(seed=rng_obj, split_untangled_states=False).run(circuit, repetitions=1)
        else:
            res = cirq.StabilizerSampler(seed=rng_obj).run(circuit, repetitions=1)
        return _records_key(res)

    ex = SR.explore(run, max_paths=800, min_branch=1e-9)
    if ex.over_budget:
        ctx.event("explorer-over-budget")
        return
    got = ex.distribution()
    tv = L.tv_distance(got, ref)
    ctx.check(tv <= 1e-9 and abs(ex.total() - 1) < 1e-9, "clifford-run-distribution==born", "C02:clifford-run-distribution:" + which,
              lambda: "total variation %.3g between %s's exact outcome distribution and the Born rule" % (tv, which),
              got={str(k): v for k, v in list(got.items())[:8]}, want={str(k): v for k, v in list(ref.items())[:8]}, **wit)
    # several repetitions in one run are independent runs (each starts from the circuit's initial state, not from
    # whatever an earlier repetition left behind)
    if not _is_terminal_only(steps) and len(ref) <= 6 and len(ex.paths) <= 12:
        R = 2 if len(ref) > 3 else 3

        def run_many(rng_obj):
            if which == "CliffordSimulator":
                res = cirq.CliffordSimulator(seed=rng_obj).run(circuit, repetitions=R)
            elif which == "CliffordSimulator-nosplit":
                res = cirq.CliffordSimulator(seed=rng_obj, split_untangled_states=False).run(circuit, repetitions=R)
            else:
                res = cirq.StabilizerSampler(seed=rng_obj).run(circuit, repetitions=R)
            return tuple(tuple((k, tuple(tuple(int(x) for x in i_) for i_ in res.records[k][r])) for k in sorted(res.records)) for r in range(R))

        exm = SR.explore(run_many, max_paths=2500, min_branch=1e-9)
        if exm.over_budget:
            ctx.event("explorer-over-budget")
        else:
            want = {(): 1.0}
            for _ in range(R):
                want = {ks + (k1,): p0 * p1 for ks, p0 in want.items() for k1, p1 in ref.items()}
            tvm = L.tv_distance(exm.distribution(), want)
            ctx.check(tvm <= 1e-9, "repetitions-independent", "C02:repetitions-not-independent:" + which,
                      lambda: "joint distribution of %d repetitions differs from the product distribution by TV %.3g" % (R, tvm), R=R, **wit)
    ctx.distinct((n, tuple(P.describe(steps)), which), nontrivial=sum(1 for p_ in ref.values() if p_ > 1e-9) >= 2)
    ctx.sample({"n": n, "program": P.describe(steps), "simulator": which, "paths": len(ex.paths)})


def sec_subcircuits(ctx, rng, case):
    """measurements and feed-forward inside nested, repeated sub-circuits that re-use key names: the record distribution
    of every simulator equals that of the flat program with the keys scoped by the documented rules"""
    import cirq
    from vf.props import c12 as C12
    from vf.workloads import blocks as B

    n = int(rng.integers(2, 4))
    dims = (2,) * n
    items = C12._gen_shadow(rng, n, int(rng.integers(2, 4)), False)
    flat = B.flatten(items)
    if (not any(it["t"] == "B" for it in items) or B.flat_unbound_controls(flat) or B.count_digits(items) > 8
            or not any(s_["t"] == "M" for s_ in flat) or B.flat_index_errors(flat)):
        ctx.reject("generator: no block / unbound control / record index not there yet / too many digits")
        return
    qubits = P.make_qubits(rng, dims)
    circuit = cirq.Circuit(B.items_to_moments(items, qubits))
    ref = I.distribution(I.run(B.flat_to_ref(flat), dims))
    kind = (SIMS + ["clifford"])[int(rng.integers(len(SIMS) + 1))]
    wit = dict(n=n, tree=B.describe(items), simulator=kind)

    def run(rng_obj):
        sim = cirq.CliffordSimulator(seed=rng_obj) if kind == "clifford" else _make_sim(kind, rng_obj)
        return _records_key(sim.run(circuit, repetitions=1))

    try:
        ex = SR.explore(run, max_paths=600, min_branch=1e-7)
    except ValueError as e:
        if "missing when testing classical control" not in str(e):
            raise
        ctx.check(False, "run-distribution==born", "C02:subcircuit-control-key-unresolved", str(e)[:200], **wit)
        return
    if ex.over_budget:
        ctx.event("explorer-over-budget")
        return
    tv = L.tv_distance(ex.distribution(), ref)
    ctx.check(tv <= (_tv_tol(kind) if kind != "clifford" else 1e-9), "run-distribution==born", "C02:run-distribution:subcircuits",
              lambda: "record distribution of the circuit with nested sub-circuits differs from the flat program's by TV %.3g" % tv, **wit)
    ctx.distinct((tuple(B.describe(items)), kind), nontrivial=len(ref) >= 2)


SECTIONS = [
    ("run", sec_run, 1500, 30000, 5.0),
    ("simulate", sec_simulate, 600, 12000, 2.0),
    ("reps", sec_reps, 600, 12000, 2.0),
    ("free", sec_free, 2000, 40000, 1.0),
    ("step_sample", sec_step_sample, 600, 12000, 1.0),
    ("clifford", sec_clifford, 500, 10000, 1.5),
    ("subcircuits", sec_subcircuits, 500, 10000, 1.5),
]
