"""C20 - asynchronous job orchestration resolves every job exactly once.

Two drivers, one discipline: the fake on the far side of the interface IS the scheduler; histories are recorded at the
client boundary from one logical clock; verdicts are taken at logical quiescence; a wall-clock watchdog firing is
INCONCLUSIVE, never a violation.

(a) duet layer  - cirq.Collector.collect / collect_async, cirq.PauliSumCollector, cirq.Sampler.run_batch(_async),
                  cirq_google.ProcessorSampler over a controllable fake sampler (vf.monitors.duet_controller);
                  offline checkers in vf.refmodel.collector_model.
(b) stream layer - cirq_google StreamManager (directly and through EngineClient.run_job_over_stream) over a model
                  Quantum Engine (vf.monitors.engine_fake) whose decisions come from vf.refmodel.engine_model.
"""
from __future__ import annotations

import concurrent.futures
import itertools
import threading
import time

import numpy as np

from vf.monitors import duet_controller as DC
from vf.monitors import engine_fake as EF
from vf.refmodel import collector_model as CM
from vf.refmodel import engine_model as EM

PACKAGES = ["cirq_google"]
LEVEL = "fault_enumeration"
RULE = ("duet layer: a case is a (collector workload, completion schedule) pair - schedules are enumerated exhaustively "
        "(every completion order x every batching of completions before the collector wakes x every failure position) "
        "for <= 5 jobs at concurrency 1-3 and drawn from a seed for <= 40 jobs with job trees, intermittent empty "
        "next_job, zero-repetition jobs, budgets that run out mid-flight and two collectors sharing one scheduler; "
        "stream layer: a case is a (submits, fault sequence, cancellation/stop points) script - fault sequences of "
        "length <= 3 over {break-before, break-after, already-exists(program), already-exists(job), does-not-exist, "
        "out-of-order} are enumerated exhaustively for 1-2 concurrent jobs, larger scripts (<= 8 jobs, <= 5 faults "
        "incl. terminal codes, fatal breaks, failed jobs, idle breaks, cancel, stop+resubmit) are seeded; distinct = "
        "distinct event-kind sequence of the recorded history (interleaving fingerprint); non-trivial = at least two "
        "jobs in flight at once, or at least one fault / failure / cancellation / empty hand-out in the history")
ASSUMPTIONS = [
    "the model server drains the request iterator of a broken stream until its None sentinel (what StreamManager is "
    "written against and what the repository's own FakeQuantumRunStream does); a request read by the old reader is "
    "processed and its reply is lost",
    "Quantum Engine keys programs and jobs by name: creating an existing one answers *_ALREADY_EXISTS and runs nothing",
    "real gRPC cancellation semantics of a dead call are modelled, not run",
    "duet (third party) is trusted; the root coroutine of every duet.run of the harness is wrapped so that it never "
    "raises (duet.run's clean-up loop can wait forever for tasks skipped by an aborted tick)",
    "a cancelled subscriber future that stays in ResponseDemux until the next publish/break is not counted as a "
    "violation (no documented promise); only pending subscribers left behind are",
]
MIN_EVAL = {"collector:history": 4000, "collector:exactly-once-delivery": 20000, "stream:retry-protocol": 12000,
            "stream:future-outcome": 6000, "stream:bounded-progress": 12000, "stream:cancel-rpc": 500,
            "pauli-sum:estimate": 400, "batch:history": 700, "retry-table": 30}
MUST_REACH = [
    "cirq/work/collector.py:Collector.collect",
    "cirq/work/collector.py:Collector.collect_async",
    "cirq/work/collector.py:_flatten_jobs",
    "cirq/work/pauli_sum_collector.py:PauliSumCollector.next_job",
    "cirq/work/pauli_sum_collector.py:PauliSumCollector.on_job_result",
    "cirq/work/sampler.py:Sampler.run_batch_async",
    "cirq/work/sampler.py:Sampler.run_async",
    "cirq_google/engine/stream_manager.py:StreamManager._manage_stream",
    "cirq_google/engine/stream_manager.py:StreamManager._manage_execution",
    "cirq_google/engine/stream_manager.py:StreamManager._cancel",
    "cirq_google/engine/stream_manager.py:StreamManager.stop",
    "cirq_google/engine/stream_manager.py:_get_retry_request_or_raise",
    "cirq_google/engine/stream_manager.py:_is_retryable_error",
    "cirq_google/engine/stream_manager.py:_request_iterator",
    "cirq_google/engine/stream_manager.py:ResponseDemux.publish",
    "cirq_google/engine/stream_manager.py:ResponseDemux.publish_exception",
    "cirq_google/engine/asyncio_executor.py:AsyncioExecutor.submit",
    "cirq_google/engine/engine_client.py:EngineClient.run_job_over_stream",
    "cirq_google/engine/processor_sampler.py:ProcessorSampler._run_sweep_async",
]

WALL_CASE = 120.0     # wall-clock watchdog per case (INCONCLUSIVE when it fires)
WALL_PAUSE = 30.0     # wall-clock watchdog on one driver<->server hand-over
_S = {}


# ======================================================================================================= plumbing
def _guard(ctx, fn, what, wall=WALL_CASE):
    """Run one case body in a helper thread so that nothing can hang a shard; a firing watchdog is INCONCLUSIVE."""
    box = {}

    def target():
        try:
            box["r"] = fn()
        except BaseException as e:  # noqa: re-raised in the worker thread with its traceback
            box["e"] = e

    t = threading.Thread(target=target, daemon=True, name="c20-case")
    t.start()
    t.join(wall)
    if t.is_alive():
        ctx.inconclusive("wall-clock-watchdog:" + what)
        return None
    if "e" in box:
        raise box["e"]
    return box.get("r")


def _report(ctx, bad, monitors, witness):
    """monitors: {monitor name: (number of oracle evaluations, mechanism prefix it owns)}"""
    for mon, n in monitors.items():
        if n:
            ctx.ok(mon, n)
    seen = set()
    for mech, msg in bad:
        if mech in seen:
            continue
        seen.add(mech)
        ctx.fail(mech, msg, **witness)


def setup(ctx):
    if ctx.tier != "quick":
        import sys
        # thread-interleaving stress for the caller-thread entry points (submit / stop / future.cancel): the caller
        # thread and the event-loop thread are switched ~500x more often than by default
        sys.setswitchinterval(1e-5)
    S, C = DC.make_fakes()
    _S["Sampler"], _S["Collector"] = S, C
    _S["exh_done"] = {"collector": True, "stream": True}
    _S["demux"] = {"publish": 0, "subscribe": 0, "publish_exception": 0, "bad": []}
    _wrap_demux()
    cfgs = []
    ns, cs = (range(1, 6), range(1, 4)) if ctx.tier == "quick" else (range(1, 7), range(1, 4))
    for n in ns:
        for c in cs:
            for fail_at in [None] + list(range(n)):
                for variant in range(4):
                    cfgs.append((n, c, fail_at, variant))
    if ctx.tier != "quick":
        for n in range(1, 6):
            for fail_at in [None] + list(range(n)):
                cfgs.append((n, 4, fail_at, 0))
    _S["coll_cfgs"] = cfgs
    seqs = [()]
    for k in (1, 2, 3):
        seqs.extend(itertools.product(EF.SMALL_ALPHABET, repeat=k))
    _S["stream_cfgs"] = [(jc, fs) for jc in ("one", "two-shared", "two-separate") for fs in seqs]


def teardown(ctx):
    for sec, key in (("collector_exhaustive", "exhaustive_small_collector_schedules"),
                     ("stream_exhaustive", "exhaustive_small_stream_fault_sequences")):
        st = ctx.sections.get(sec)
        if st is None:
            continue
        which = "collector" if sec.startswith("collector") else "stream"
        ctx.extra[key] = bool(_S["exh_done"][which] and not st["truncated"] and st["cases"] == st["planned"])
    d = _S["demux"]
    for k in ("publish", "subscribe", "publish_exception"):
        if d[k]:
            ctx.event("demux." + k, d[k])


def _wrap_demux():
    """Boundary observer on ResponseDemux (runs on the event loop that owns it): a publish may complete at most the
    subscriber of its own message id."""
    from cirq_google.engine import stream_manager as SM

    d = _S["demux"]
    orig_publish, orig_subscribe, orig_pe = SM.ResponseDemux.publish, SM.ResponseDemux.subscribe, SM.ResponseDemux.publish_exception

    def publish(self, response):
        before = {mid: f for mid, f in self._subscribers.items() if not f.done()}
        orig_publish(self, response)
        d["publish"] += 1
        others = [mid for mid, f in before.items() if f.done() and mid != response.message_id]
        if others:
            d["bad"].append(("C20:stream:publish-reaches-other-subscriber",
                             "publish(message_id=%r) completed the subscribers of %r" % (response.message_id, others)))

    def subscribe(self, message_id):
        d["subscribe"] += 1
        return orig_subscribe(self, message_id)

    def publish_exception(self, exception):
        d["publish_exception"] += 1
        return orig_pe(self, exception)

    SM.ResponseDemux.publish = publish
    SM.ResponseDemux.subscribe = subscribe
    SM.ResponseDemux.publish_exception = publish_exception


# ======================================================================================================= (a) duet layer
def _run_collectors(specs, chooser, mode):
    """specs: list of (handouts, concurrency, budget).  Returns (hist, controller, collectors)."""
    import duet

    hist = []
    ctl = DC.Controller(hist, chooser)
    sampler = _S["Sampler"](hist, ctl)
    colls = [_S["Collector"](hist, cid, h) for cid, (h, _, _) in enumerate(specs)]
    if len(colls) == 1 and mode == "sync":
        colls[0].collect(sampler, concurrency=specs[0][1], max_total_samples=specs[0][2])
    elif len(colls) == 1:
        duet.run(colls[0].collect_async, sampler, concurrency=specs[0][1], max_total_samples=specs[0][2])
    else:
        async def main():
            async with duet.new_scope() as scope:
                for coll, (_, c, b) in zip(colls, specs):
                    scope.spawn(coll.collect_async, sampler, concurrency=c, max_total_samples=b)

        duet.run(lambda: DC.guarded(main()))
    return hist, ctl, colls


def _leaves(tree, out):
    if tree is None:
        return out
    if isinstance(tree, tuple):
        out.append(tree)
        return out
    for t in tree:
        _leaves(t, out)
    return out


def _judge_collectors(ctx, hist, ctl, specs, witness):
    if ctl.harness_error:
        ctx.inconclusive("harness-error:duet-controller")
        import sys
        sys.stderr.write("HARNESS ERROR in duet controller\n%s\n" % ctl.harness_error)
        return False
    ok = True
    for cid, (handouts, c, b) in enumerate(specs):
        reps = {(cid, k): r for h in handouts for (k, r) in _leaves(h, [])}
        h = DC.project(hist, cid)
        bad = CM.check_collector_history(h, c, b, reps)
        n_start = sum(1 for e in h if e[0] == "start")
        n_del = sum(1 for e in h if e[0] == "deliver")
        n_blk = sum(1 for e in h if e[0] == "block")
        _report(ctx, bad, {"collector:history": 1, "collector:concurrency+budget@start": n_start,
                           "collector:exactly-once-delivery": n_del, "collector:progress@block": n_blk,
                           "collector:exit-condition": 1},
                dict(witness, collector=cid, concurrency=c, max_total_samples=b, history=CM.summarize(h)))
        ok = ok and not bad
    return ok


def _nontrivial(hist):
    inflight, peak, spice = 0, 0, False
    for e in hist:
        if e[0] == "start":
            inflight += 1
            peak = max(peak, inflight)
        elif e[0] in ("complete", "fail", "cancelled"):
            inflight -= 1
            spice = spice or e[0] != "complete"
        elif e[0] == "next_job.ret" and not e[1]:
            spice = True
    return peak >= 2 or spice


def sec_collector_exhaustive(ctx, rng, case):
    cfgs = _S["coll_cfgs"]
    if case >= len(cfgs):
        return
    n, c, fail_at, variant = cfgs[case]
    tree, budgeted, mode = [(False, False, "sync"), (True, False, "async"), (False, True, "async"), (True, True, "sync")][variant]
    r = 2 if budgeted else 1
    jobs = [(i, r) for i in range(n)]
    handouts = [list(jobs[:2]) + [list(jobs[2:])]] if tree else list(jobs)
    budget = n if budgeted else None
    spec = [(handouts, c, budget)]
    stats = {"runs": 0}

    def body():
        def once(prefix):
            ch = DC.ScriptedChooser(prefix, fail_at)
            hist, ctl, _ = _run_collectors(spec, ch, mode)
            stats["runs"] += 1
            _judge_collectors(ctx, hist, ctl, spec, dict(n=n, fail_at=fail_at, tree=tree, mode=mode, decisions=[t[0] for t in ch.trace]))
            ctx.distinct(("coll", mode, CM.summarize(hist)), nontrivial=_nontrivial(hist))
            if stats["runs"] == 1:
                ctx.sample({"layer": "collector", "jobs": n, "concurrency": c, "fail_at": fail_at, "tree": tree,
                            "max_total_samples": budget, "mode": mode, "history": CM.summarize(DC.project(hist, 0))}, per_section=3)
            return ch.trace

        return DC.explore(once, out_of_time=lambda: ctx.deadline is not None and time.time() > ctx.deadline + 20)

    res = _guard(ctx, body, "collector-exhaustive")
    complete = bool(res and res[1])
    ctx.event("collector.schedules", stats["runs"])
    if not complete:
        _S["exh_done"]["collector"] = False
        ctx.event("collector.exhaustive-config-incomplete")


def _nest(rng, chunk, depth=0):
    if len(chunk) <= 1 or depth >= 3 or rng.random() < 0.3:
        out = list(chunk)
    else:
        cut = int(rng.integers(1, len(chunk)))
        out = [_nest(rng, chunk[:cut], depth + 1), _nest(rng, chunk[cut:], depth + 1)]
        if rng.random() < 0.5:
            out = out[0] + [out[1]] if isinstance(out[0], list) else out
    if rng.random() < 0.25:
        out.insert(int(rng.integers(len(out) + 1)), [] if rng.random() < 0.5 else None)
    return out


def _workload(rng, njobs):
    reps_pool = [0, 1, 1, 2, 3, 5, 10]
    jobs = [(k, int(reps_pool[int(rng.integers(len(reps_pool)))])) for k in range(njobs)]
    p_empty = float(rng.choice([0.0, 0.1, 0.3]))
    handouts, i = [], 0
    while i < len(jobs):
        u = rng.random()
        if u < p_empty:
            handouts.append(None if rng.random() < 0.5 else [[], None])
        elif u < p_empty + 0.45:
            handouts.append(jobs[i])
            i += 1
        else:
            m = int(rng.integers(1, 7))
            handouts.append(_nest(rng, jobs[i:i + m]))
            i += m
    total = sum(r for _, r in jobs)
    b = rng.random()
    budget = None if b < 0.45 else (0 if b < 0.5 else int(rng.integers(1, max(2, total + 3))))
    return handouts, int(rng.integers(1, 7)), budget


def sec_collector_random(ctx, rng, case):
    ncoll = 1 if rng.random() < 0.7 else 2
    specs = [_workload(rng, int(rng.integers(1, 41 if ncoll == 1 else 21))) for _ in range(ncoll)]
    mode = "sync" if rng.random() < 0.5 else "async"
    p_fail = float(rng.choice([0.0, 0.0, 0.03, 0.15]))
    chooser = DC.RandomChooser(rng, p_fail=p_fail, max_fail=int(rng.integers(1, 4)), p_batch=float(rng.choice([0.0, 0.35, 0.7])))

    def body():
        hist, ctl, _ = _run_collectors(specs, chooser, mode)
        _judge_collectors(ctx, hist, ctl, specs, dict(handouts=[s[0] for s in specs], mode=mode))
        ctx.distinct(("collr", CM.summarize(hist)), nontrivial=_nontrivial(hist))
        ctx.event("collector.schedules")
        ctx.sample({"layer": "collector-random", "collectors": ncoll, "concurrency": [s[1] for s in specs],
                    "max_total_samples": [s[2] for s in specs], "p_fail": p_fail, "events": len(hist),
                    "history": CM.summarize(hist)[:600]})

    _guard(ctx, body, "collector-random")


# ---------------------------------------------------------------------------------------------- PauliSumCollector
def _pauli_classes():
    if "Pauli" in _S:
        return _S["Pauli"]
    import cirq

    class RecordingPauli(cirq.PauliSumCollector):
        def __init__(self, hist, *a, **kw):
            super().__init__(*a, **kw)
            self.hist, self.jobs, self.by_circuit, self.n = hist, {}, {}, 0

        def next_job(self):
            self.hist.append(("next_job.call", 0))
            job = super().next_job()
            ids = []
            if job is not None:
                jid = (0, self.n)
                self.n += 1
                self.jobs[jid] = job
                self.by_circuit[id(job.circuit)] = jid
                ids.append(jid)
            self.hist.append(("next_job.ret", tuple(ids), 0))
            return job

        def on_job_result(self, job, result):
            jid = next((j for j, jb in self.jobs.items() if jb is job), ("?", "?"))
            self.hist.append(("deliver", jid, "r%d" % result.params.param_dict["rid"], jid in self.jobs))
            super().on_job_result(job, result)

        async def collect_async(self, sampler, **kw):
            kind, val = await DC.guarded(super().collect_async(sampler, **kw))
            self.outcome = (kind, val)
            self.hist.append(("return", 0) if kind == "return" else ("raise", DC.exc_id(val), 0))

    class PauliSampler(_S["Sampler"]):
        def __init__(self, hist, ctl, coll, ones_of):
            super().__init__(hist, ctl)
            self.coll, self.ones_of, self.produced = coll, ones_of, {}

        def identify(self, program):
            return self.coll.by_circuit.get(id(program), ("?", id(program))), "out"

        def bits(self, jid, key, repetitions):
            job = self.coll.jobs[jid]
            k = len(job.tag)
            ones = self.ones_of(jid, repetitions)
            a = np.zeros((repetitions, k), dtype=np.uint8)
            a[:ones, int(jid[1]) % k] = 1
            self.produced[jid] = (repetitions - ones, ones)
            return a

    _S["Pauli"] = (RecordingPauli, PauliSampler)
    return _S["Pauli"]


def sec_pauli_sum(ctx, rng, case):
    import cirq

    RecordingPauli, PauliSampler = _pauli_classes()
    nq = int(rng.integers(1, 4))
    qs = cirq.LineQubit.range(nq)
    paulis = {"X": cirq.X, "Y": cirq.Y, "Z": cirq.Z}
    nterms = int(rng.integers(1, 5))
    terms, seen = [], set()
    for _ in range(nterms * 3):
        if len(terms) >= nterms:
            break
        k = int(rng.integers(1, nq + 1))
        sup = sorted(int(x) for x in rng.choice(nq, size=k, replace=False))
        letters = tuple("XYZ"[int(rng.integers(3))] for _ in sup)
        key = tuple(zip(sup, letters))
        if key in seen:
            continue
        seen.add(key)
        coef = complex(round(float(rng.uniform(-2, 2)), 3) or 0.5, round(float(rng.uniform(-1, 1)), 3) if rng.random() < 0.3 else 0.0)
        terms.append((key, coef))
    offset = round(float(rng.uniform(-1, 1)), 3) if rng.random() < 0.5 else 0.0
    obs = cirq.PauliSum()
    for key, coef in terms:
        obs += cirq.PauliString({qs[i]: paulis[l] for i, l in key}, coefficient=coef)
    if offset:
        obs += cirq.PauliString(coefficient=offset)
    spt = int(rng.integers(1, 31))
    mspj = int(rng.integers(1, 11))
    conc = int(rng.integers(1, 5))
    total = spt * len(terms)
    budget = None if rng.random() < 0.6 else int(rng.integers(1, total + 2))
    p_fail = float(rng.choice([0.0, 0.0, 0.0, 0.1]))
    circuit = cirq.Circuit(cirq.H.on_each(*qs))
    mode = "sync" if rng.random() < 0.5 else "async"

    def body():
        import duet

        hist = []
        chooser = DC.RandomChooser(rng, p_fail=p_fail, max_fail=1, p_batch=0.4)
        ctl = DC.Controller(hist, chooser)
        coll = RecordingPauli(hist, circuit, obs, samples_per_term=spt, max_samples_per_job=mspj)
        sampler = PauliSampler(hist, ctl, coll, lambda jid, r: (3 * jid[1] + 2 * r + 1) % (r + 1))
        if mode == "sync":
            coll.collect(sampler, concurrency=conc, max_total_samples=budget)
        else:
            duet.run(coll.collect_async, sampler, concurrency=conc, max_total_samples=budget)
        if ctl.harness_error:
            ctx.inconclusive("harness-error:duet-controller")
            return
        h = DC.project(hist, 0)
        reps = {jid: job.repetitions for jid, job in coll.jobs.items()}
        bad = CM.check_collector_history(h, conc, budget, reps)
        wit = dict(terms=[(k, [c.real, c.imag]) for k, c in terms], samples_per_term=spt, max_samples_per_job=mspj,
                   concurrency=conc, max_total_samples=budget, history=CM.summarize(h)[:800])
        _report(ctx, bad, {"collector:history": 1, "pauli-sum:history": 1}, wit)
        # which term does each job belong to (by the job's own tag, compared with the generator's specification)
        def term_of(job):
            key = tuple(sorted((q.x, str(g)) for q, g in job.tag.items()))
            return key

        per_term_requested = {}
        chunks_ok = True
        for jid, job in coll.jobs.items():
            t = term_of(job)
            per_term_requested[t] = per_term_requested.get(t, 0) + job.repetitions
            chunks_ok = chunks_ok and 1 <= job.repetitions <= mspj
        known = {k for k, _ in terms}
        ctx.check(set(per_term_requested) <= known and chunks_ok, "pauli-sum:job-shape", "C20:pauli-sum:job-shape",
                  "jobs ask for unknown terms or chunks outside [1, max_samples_per_job]", **wit)
        clean = coll.outcome[0] == "return"
        if clean and budget is None:
            ctx.check(all(per_term_requested.get(k, 0) == spt for k in known), "pauli-sum:samples-per-term",
                      "C20:pauli-sum:samples-per-term", "requested samples per term %r, expected %d each" % (per_term_requested, spt), **wit)
        if clean:
            tallies = {}
            for jid, (z, o) in sampler.produced.items():
                if any(e[0] == "complete" and e[1] == jid for e in hist):
                    t = term_of(coll.jobs[jid])
                    a, b = tallies.get(t, (0, 0))
                    tallies[t] = (a + z, b + o)
            want = CM.pauli_sum_estimate(terms, offset, tallies)
            got = complex(coll.estimated_energy())
            ctx.check(abs(got - want) <= 1e-9 * max(1.0, abs(want)), "pauli-sum:estimate", "C20:pauli-sum:estimate",
                      "estimated_energy %r, expected from the results handed out %r" % (got, want), tallies=tallies, **wit)
        ctx.distinct(("pauli", CM.summarize(h)), nontrivial=_nontrivial(h))
        ctx.sample({"layer": "pauli-sum", "terms": len(terms), "samples_per_term": spt, "max_samples_per_job": mspj,
                    "concurrency": conc, "max_total_samples": budget, "jobs": len(coll.jobs), "outcome": coll.outcome[0]})

    _guard(ctx, body, "pauli-sum")


# ---------------------------------------------------------------------------------------------- batch / sweep layer
def _batch_classes():
    if "Batch" in _S:
        return _S["Batch"]
    import cirq
    import cirq_google as cg

    class BatchSampler(_S["Sampler"]):
        single = False

        async def run_batch_async(self, programs, params_list=None, repetitions=1):
            kind, val = await DC.guarded(super().run_batch_async(programs, params_list, repetitions))
            self.outcome = (kind, val)
            return val if kind == "return" else None

        run_batch = cirq.Sampler.run_batch

    class FakeJob:
        def __init__(self, owner, jid, key, resolvers, repetitions):
            self.owner, self.jid, self.key, self.resolvers, self.repetitions = owner, jid, key, resolvers, repetitions

        async def results_async(self):
            o = self.owner

            def mk():
                out, rids = [], []
                for r in self.resolvers:
                    o.nres += 1
                    d = dict(r.param_dict)
                    d["rid"] = o.nres
                    out.append(cirq.ResultDict(params=cirq.ParamResolver(d),
                                               measurements={self.key: np.zeros((self.repetitions, 1), dtype=np.uint8)}))
                    rids.append("r%d" % o.nres)
                return out, tuple(rids)

            return await o.ctl.park(self.jid, mk)

    class FakeProcessor:
        def __init__(self, hist, ctl):
            self.hist, self.ctl, self.nres = hist, ctl, 0

        async def run_sweep_async(self, program, params, repetitions=1, run_name="", snapshot_id="", device_config_name="", **kw):
            k = sorted(program.all_measurement_key_names())[0]
            a, b = k[1:].split("_")
            jid = (int(a), int(b))
            resolvers = list(cirq.to_resolvers(params))
            self.hist.append(("start", jid, repetitions, len(resolvers)))
            return FakeJob(self, jid, k, resolvers, repetitions)

    class GuardedProcessorSampler(cg.ProcessorSampler):
        async def run_batch_async(self, programs, params_list=None, repetitions=1):
            kind, val = await DC.guarded(super().run_batch_async(programs, params_list, repetitions))
            self.outcome = (kind, val)
            return val if kind == "return" else None

        run_batch = cg.ProcessorSampler.run_batch

    _S["Batch"] = (BatchSampler, FakeProcessor, GuardedProcessorSampler)
    return _S["Batch"]


def sec_batch(ctx, rng, case):
    import cirq
    import duet
    import sympy

    BatchSampler, FakeProcessor, GuardedProcessorSampler = _batch_classes()
    nprog = int(rng.integers(1, 9))
    q = cirq.LineQubit(0)
    a = sympy.Symbol("a")
    programs, params_list, meta = [], [], []
    for i in range(nprog):
        programs.append(cirq.Circuit(cirq.X(q) ** a, cirq.measure(q, key="j0_%d" % i)))
        u = rng.random()
        if u < 0.3:
            params_list.append(None)
            nres = 1
        elif u < 0.65:
            nres = int(rng.integers(1, 5))
            params_list.append(cirq.Linspace("a", 0, 1, nres))
        else:
            nres = int(rng.integers(1, 4))
            params_list.append([{"a": 0.1 * j} for j in range(nres)])
        meta.append(nres)
    if all(p is None for p in params_list) and rng.random() < 0.5:
        pl_arg = None
    else:
        pl_arg = params_list
    if rng.random() < 0.5:
        reps_arg = int(rng.integers(0, 6))
        reps = [reps_arg] * nprog
    else:
        reps = [int(rng.integers(0, 6)) for _ in range(nprog)]
        reps_arg = list(reps)
    bad_args = rng.random() < 0.06 and nprog > 1
    if bad_args:
        if isinstance(reps_arg, list) and rng.random() < 0.5:
            reps_arg = reps_arg[:-1]
        else:
            pl_arg = list(params_list[:-1])
    kind = ["sampler-async", "sampler-sync", "processor"][int(rng.integers(3))]
    limit = int(rng.integers(1, 5)) if kind == "processor" else None
    p_fail = float(rng.choice([0.0, 0.0, 0.1, 0.3]))

    def body():
        hist = []
        chooser = DC.RandomChooser(rng, p_fail=p_fail, max_fail=2, p_batch=0.4)
        ctl = DC.Controller(hist, chooser)
        if kind == "processor":
            s = GuardedProcessorSampler(processor=FakeProcessor(hist, ctl), max_concurrent_jobs=limit)
        else:
            s = BatchSampler(hist, ctl)
        if kind == "sampler-sync":
            s.run_batch(programs, pl_arg, reps_arg)
        else:
            duet.run(s.run_batch_async, programs, pl_arg, reps_arg)
        if ctl.harness_error:
            ctx.inconclusive("harness-error:duet-controller")
            return
        okind, val = s.outcome
        if bad_args:
            if okind == "raise" and isinstance(val, ValueError) and "must match" in str(val):
                ctx.reject("run_batch:length-mismatch")
            else:
                ctx.check(False, "batch:history", "C20:batch:bad-arguments-accepted", "mismatched batch arguments were not rejected: %r" % (val,))
            return
        if okind == "return":
            got = [[("r%d" % r.params.param_dict["rid"]) for r in rs] for rs in val]
            hist.append(("return", got))
            # every result also carries the resolver it was asked for, in sweep order
            for i, rs in enumerate(val):
                exp = [dict(r.param_dict) for r in cirq.to_resolvers(params_list[i])]
                have = [{k: v for k, v in r.params.param_dict.items() if k != "rid"} for r in rs]
                ctx.check(have == exp, "batch:sweep-order", "C20:batch:sweep-order", "program %d: resolvers of the results %r, sweep %r" % (i, have, exp))
        else:
            hist.append(("raise", DC.exc_id(val)))
        progs = [((0, i), meta[i], reps[i]) for i in range(nprog)]
        bad = CM.check_batch_history(hist, progs, limit)
        _report(ctx, bad, {"batch:history": 1, "batch:result-order": 1 if okind == "return" else 0},
                dict(kind=kind, programs=nprog, resolvers=meta, repetitions=reps, limit=limit, history=[list(map(str, e)) for e in hist][:80]))
        ctx.distinct(("batch", kind, tuple(e[0] + str(e[1:2]) for e in hist if e[0] in ("start", "complete", "fail", "cancelled", "block"))),
                     nontrivial=nprog >= 2)
        ctx.sample({"layer": "batch", "kind": kind, "programs": nprog, "resolvers": meta, "limit": limit, "outcome": okind})

    _guard(ctx, body, "batch")


# ======================================================================================================= (b) stream layer
def _future_outcome(fut, quantum, wall):
    try:
        r = fut.result(timeout=wall)
    except concurrent.futures.CancelledError:
        return "cancelled", None
    except (concurrent.futures.TimeoutError, TimeoutError):
        return "timeout", None
    except BaseException as e:  # noqa: the documented way errors surface
        import asyncio
        if isinstance(e, asyncio.CancelledError):
            return "cancelled", None
        return "exception", (type(e).__name__, str(e))
    if isinstance(r, quantum.QuantumResult):
        return "result", r.parent
    if isinstance(r, quantum.QuantumJob):
        return "job", r.name
    return "exception", ("unexpected-value", repr(r)[:100])


def _engine_job_outcome(jname, fut, exists):
    """EngineJob._await_result_async over an already settled stream future, next to a recording fake of the unary
    (polling) client: -> (outcome kind, detail, unary calls made, times the job was re-created)"""
    import duet
    from cirq_google.cloud import quantum
    from cirq_google.engine import engine_client, engine_job
    from http import HTTPStatus
    import types

    _, project_id, _, program_id, _, job_id = jname.split("/")
    calls, recreated, state = [], [0], {"exists": exists}

    class Client:
        async def get_job_async(self, project, program, job, return_run_context=False):
            calls.append("get_job")
            if not state["exists"]:
                raise engine_client.EngineException("job not found", HTTPStatus.NOT_FOUND)
            qj = quantum.QuantumJob(name=jname)
            qj.execution_status.state = quantum.ExecutionStatus.State.SUCCESS
            return qj

        async def get_job_results_async(self, project, program, job):
            calls.append("get_job_results")
            return quantum.QuantumResult(parent=jname + "#polled")

    context = types.SimpleNamespace(client=Client(), timeout=5, proto_version=None)

    async def recreate():
        recreated[0] += 1
        state["exists"] = True
        return engine_job.EngineJob(project_id, program_id, job_id, context)

    job = engine_job.EngineJob(project_id, program_id, job_id, context, job_result_future=fut, recreate_job=recreate)
    try:
        r = duet.run(job._await_result_async)
        return "result", r.parent, tuple(calls), recreated[0]
    except BaseException as e:  # noqa: the outcome under observation
        return "exception", (type(e).__name__, str(e)), tuple(calls), recreated[0]


def _judge_engine_jobs(hist):
    """non-retryable errors surface to the caller; a result is handed over as it is; only a StreamError (the stream gave
    up on this job but the job may exist) falls back to the unary calls"""
    bad, n = [], 0
    for e in hist:
        if e[0] != "engine-job":
            continue
        n += 1
        _, j, skind, sdetail, kind, detail, calls, recreated = e
        if skind == "result":
            if (kind, detail) != ("result", sdetail) or calls or recreated:
                bad.append(("C20:engine-job:stream-result-not-returned-as-is",
                            "%s: stream delivered result of %r, EngineJob gave %r after unary calls %r, %d re-creations" % (j, sdetail, (kind, detail), calls, recreated)))
        elif sdetail[0] == "StreamError":
            if kind != "result" or detail != j + "#polled" or "get_job" not in calls:
                bad.append(("C20:engine-job:stream-error-fallback",
                            "%s: after StreamError the job's result was not fetched by polling: %r, calls %r" % (j, (kind, detail), calls)))
        else:
            if (kind, detail) != ("exception", sdetail) or calls or recreated:
                bad.append(("C20:engine-job:non-retryable-error-not-surfaced",
                            "%s: the stream failed with %r; EngineJob gave %r after unary calls %r and %d re-creations of the job"
                            % (j, sdetail, (kind, detail), calls, recreated)))
    return bad, n


def _run_stream(ctx, script, jobs, entry, rng, tag):
    """jobs: list of (program_id, job_id) for the initial submits; script['actions'] may add ('submit', [(prog, job)..]).
    Returns (server, submits {job name: program name}) or None when the watchdog fired."""
    from cirq_google.cloud import quantum
    from cirq_google.engine.asyncio_executor import AsyncioExecutor
    from cirq_google.engine.stream_manager import StreamManager
    from google.protobuf import any_pb2

    ex = AsyncioExecutor.instance()
    server = EF.ModelServer(ex.loop, script, rng)
    project_id = "p%s" % tag
    if entry == "client":
        from cirq_google.engine.engine_client import EngineClient

        client = EngineClient()
        client.__dict__["grpc_client"] = server
        mgr = client._stream_manager
    else:
        client = None
        mgr = StreamManager(server)
    brain = server.start(ex)
    submits, counters = {}, {}

    def submit(prog_id, job_id):
        pname = "projects/%s/programs/%s" % (project_id, prog_id)
        jname = "%s/jobs/%s" % (pname, job_id)
        submits[jname] = pname
        counters[jname] = 0
        server.log("submit", jname)
        if client is not None:
            fut = client.run_job_over_stream(project_id=project_id, program_id=prog_id, code=any_pb2.Any(),
                                             run_context=any_pb2.Any(), job_id=job_id, processor_id="proc")
        else:
            fut = mgr.submit("projects/%s" % project_id, quantum.QuantumProgram(name=pname), quantum.QuantumJob(name=jname))

        def cb(f, j=jname):
            counters[j] += 1

        fut.add_done_callback(cb)
        server.futures[jname] = fut
        server.submitted.append(jname)
        return jname

    names = [submit(p, j) for p, j in jobs]
    ex.loop.call_soon_threadsafe(server.go.set)
    watchdog = False
    while True:
        if not server.pause_reached.wait(WALL_PAUSE):
            watchdog = True
            break
        act = server.pause_action
        server.pause_reached.clear()
        if act[0] == "done":
            break
        if act[0] == "cancel":
            live = [j for j in submits if not server.futures[j].done()]
            if live:
                j = live[act[1] % len(live)]
                accepted = server.futures[j].cancel()
                server.log("cancel", j, bool(accepted))
                if accepted:
                    server.void(j, "cancel")
        elif act[0] == "stop":
            inflight = [j for j in submits if not server.futures[j].done()]
            server.log("stop")
            for j in inflight:
                server.void(j, "stop")
            mgr.stop()
        elif act[0] == "submit":
            for p, j in act[1]:
                submit(p, j)
        ex.loop.call_soon_threadsafe(server.resume.set)
    if watchdog:
        ctx.inconclusive("wall-clock-watchdog:stream-handover")
        try:
            mgr.stop()
        except Exception:  # noqa
            pass
        return None
    if server.error:
        ctx.inconclusive("harness-error:model-server")
        import sys
        sys.stderr.write("HARNESS ERROR in model server\n%s\n" % server.error)
        try:
            mgr.stop()
        except Exception:  # noqa
            pass
        return None
    for idx, j in enumerate(sorted(submits)):
        kind, detail = _future_outcome(server.futures[j], quantum, 5.0)
        server.log("future", j, kind, detail, counters[j])
        if kind in ("result", "exception"):
            # one layer up: the EngineJob that owns this stream future (what run_sweep hands to the user)
            server.log("engine-job", j, kind, detail, *_engine_job_outcome(j, server.futures[j], exists=(idx % 2 == 0)))
    subs = dict(mgr._response_demux._subscribers)
    server.log("demux-left", sum(1 for f in subs.values() if not f.done()), sum(1 for f in subs.values() if f.done()))
    mgr.stop()
    # clean stop: every request iterator handed to the server has ended (bounded in loop turns)
    try:
        ex.submit(server.settle).result(timeout=WALL_PAUSE)
        ex.submit(server.settle).result(timeout=WALL_PAUSE)
    except (concurrent.futures.TimeoutError, TimeoutError):
        ctx.inconclusive("wall-clock-watchdog:stream-final-settle")
        return None
    return server, submits


def _judge_stream(ctx, server, submits, witness, nontrivial_hint):
    hist = list(server.hist)
    bad = EM.check_stream_history(hist, submits, dict(server.ledger.run_count))
    ebad, n_ejobs = _judge_engine_jobs(hist)
    bad.extend(ebad)
    d = _S["demux"]
    if d["bad"]:
        bad.extend(d["bad"])
        d["bad"] = []
    open_readers = [s.no for s in server.streams if not s.reader_done]
    if open_readers:
        bad.append(("C20:stream:request-iterator-not-stopped",
                    "request iterators of streams %r were still being read after stop()" % (open_readers,)))
    timeouts = [e[1] for e in hist if e[0] == "future" and e[2] == "timeout"]
    logical = any(e[0] in ("lost-response", "missing-request") for e in hist)
    if (timeouts and not logical) or any(e[0] in ("step-limit",) for e in hist):
        ctx.inconclusive("stream-future-timeout-without-logical-verdict" if timeouts else "stream-step-limit")
    nreq = sum(1 for e in hist if e[0] == "request")
    nfault = sum(1 for e in hist if e[0] in ("break", "cancel", "stop")) + sum(
        1 for e in hist if e[0] == "outcome" and e[3][0] == "error")
    fp = EM.fingerprint(hist)
    _report(ctx, bad, {"stream:retry-protocol": nreq, "stream:message-id-unique": nreq,
                       "stream:future-outcome": len(submits), "stream:own-result+run-count": sum(
                           1 for e in hist if e[0] == "future" and e[2] == "result"),
                       "stream:bounded-progress": sum(1 for e in hist if e[0] == "outcome"),
                       "stream:cancel-rpc": sum(1 for e in hist if e[0] in ("cancel", "stop")),
                       "stream:demux-empty+iterators-stopped": 1, "engine-job:outcome-of-stream-future": n_ejobs},
            dict(witness, history=fp, log=[list(map(str, e)) for e in hist][:120]))
    ctx.distinct(("stream", fp), nontrivial=len(submits) >= 2 or nfault > 0 or nontrivial_hint)
    ctx.event("stream.histories")
    ctx.event("stream.requests", nreq)
    leaked = [e for e in hist if e[0] == "demux-left" and e[2]]
    if leaked:
        ctx.event("stream.cancelled-subscriber-left-in-demux", sum(e[2] for e in leaked))
    return fp


def sec_stream_exhaustive(ctx, rng, case):
    cfgs = _S["stream_cfgs"]
    if case >= len(cfgs):
        return
    jc, faults = cfgs[case]
    jobs = {"one": [("prog0", "job0")], "two-shared": [("prog0", "job0"), ("prog0", "job1")],
            "two-separate": [("prog0", "job0"), ("prog1", "job1")]}[jc]
    script = {"faults": list(faults), "order": "fifo", "variants": [case + i for i in range(len(faults))]}
    entry = "client" if case % 5 == 0 else "manager"

    def body():
        out = _run_stream(ctx, script, jobs, entry, None, "x%d" % case)
        if out is None:
            return False
        server, submits = out
        fp = _judge_stream(ctx, server, submits, dict(jobs=jc, faults=list(faults), entry=entry), False)
        ctx.sample({"layer": "stream", "jobs": jc, "faults": list(faults), "entry": entry, "history": fp}, per_section=3)
        return True

    ok = _guard(ctx, body, "stream-exhaustive")
    if not ok:
        _S["exh_done"]["stream"] = False


def sec_stream_random(ctx, rng, case):
    big = ctx.tier != "quick"
    nj = int(rng.integers(1, 13 if big else 9))
    nprog = int(rng.integers(1, nj + 1))
    jobs = [("prog%d" % int(rng.integers(nprog)), "job%d" % i) for i in range(nj)]
    alphabet = [EF.NORMAL, EF.BREAK_BEFORE, EF.BREAK_AFTER, EF.ALREADY_EXISTS, EF.ALREADY_EXISTS_JOB, EF.DOES_NOT_EXIST,
                EF.OUT_OF_ORDER, EF.OUT_OF_ORDER, EF.BAD_CODE, EF.FATAL_BREAK, EF.JOB_FAILED]
    nf = int(rng.integers(0, 7 if big else 6))
    horizon = nj + 6
    faults = [EF.NORMAL] * horizon
    for pos in rng.choice(horizon, size=min(nf, horizon), replace=False):
        faults[int(pos)] = alphabet[int(rng.integers(1, len(alphabet)))]
    actions = {}
    u = rng.random()
    if u < 0.35:
        for _ in range(int(rng.integers(1, 3))):
            actions.setdefault(int(rng.integers(0, horizon)), []).append(("cancel", int(rng.integers(0, 100))))
    elif u < 0.5:
        actions.setdefault(int(rng.integers(0, horizon)), []).append(("idle-break", int(rng.integers(0, 3))))
    if rng.random() < 0.25:
        at = int(rng.integers(0, horizon + 3))
        more = [("prog%d" % int(rng.integers(nprog + 1)), "late%d" % i) for i in range(int(rng.integers(1, 4)))]
        acts = actions.setdefault(at, [])
        if rng.random() < 0.7:
            acts.append(("stop",))
        if rng.random() < 0.3:
            acts.append(("idle-break", 1))
        acts.append(("submit", more))
    script = {"faults": faults, "order": "random" if rng.random() < 0.6 else "fifo", "actions": actions,
              "variants": [int(x) for x in rng.integers(0, 30, size=horizon)]}
    entry = "client" if rng.random() < 0.3 else "manager"

    def body():
        out = _run_stream(ctx, script, jobs, entry, rng, "r%d" % case)
        if out is None:
            return
        server, submits = out
        fp = _judge_stream(ctx, server, submits,
                           dict(jobs=jobs, faults=[f for f in faults if f != EF.NORMAL], fault_positions=[i for i, f in enumerate(faults) if f != EF.NORMAL],
                                actions={str(k): v for k, v in actions.items()}, order=script["order"], entry=entry), False)
        ctx.sample({"layer": "stream-random", "jobs": nj, "programs": nprog, "faults": [f for f in faults if f != EF.NORMAL],
                    "actions": {str(k): v for k, v in actions.items()}, "history": fp[:500]})

    _guard(ctx, body, "stream-random")


def sec_retry_table(ctx, rng, case):
    """Every (error code x request type) cell of _get_retry_request_or_raise against the documented table."""
    from cirq_google.cloud import quantum
    from cirq_google.engine import stream_manager as SM

    cells = [(c, k) for c in EM.CODES for k in EM.KINDS]
    if case >= len(cells):
        return
    code, kind = cells[case]
    reqs = {EM.CPJ: quantum.QuantumRunStreamRequest(create_quantum_program_and_job=quantum.CreateQuantumProgramAndJobRequest()),
            EM.CJ: quantum.QuantumRunStreamRequest(create_quantum_job=quantum.CreateQuantumJobRequest()),
            EM.GR: quantum.QuantumRunStreamRequest(get_quantum_result=quantum.GetQuantumResultRequest())}
    err = quantum.StreamError(code=getattr(quantum.StreamError.Code, code), message="cell %s/%s" % (code, kind))
    want = EM.next_request(kind, ("error", code))
    try:
        got = SM._get_retry_request_or_raise(err, reqs[kind], reqs[EM.CPJ], reqs[EM.CJ], reqs[EM.GR])
        got = ("send", next(k for k in EM.KINDS if got is reqs[k]))
    except SM.StreamError as e:
        got = ("raise", "StreamError")
        ctx.check(str(e) == err.message, "retry-table", "C20:stream:wrong-error-message", "StreamError message %r" % (str(e),))
    ctx.check(got == want, "retry-table", "C20:stream:retry-table-cell", "code %s answering %s: client does %r, documented %r" % (code, kind, got, want),
              code=code, kind=kind)
    ctx.distinct(("cell", code, kind), nontrivial=True)
    # the retryable / non-retryable split of stream exceptions
    import google.api_core.exceptions as gexc
    for name in EM.RETRYABLE_EXCEPTIONS + EM.FATAL_EXCEPTIONS:
        ctx.check(SM._is_retryable_error(getattr(gexc, name)("x")) == (name in EM.RETRYABLE_EXCEPTIONS), "retryable-split",
                  "C20:stream:retryable-split", "%s classified wrongly" % name)


SECTIONS = [
    ("collector_exhaustive", sec_collector_exhaustive, 240, 344, 1.2),
    ("collector_random", sec_collector_random, 10000, 300000, 1.8),
    ("pauli_sum", sec_pauli_sum, 2800, 60000, 0.5),
    ("batch", sec_batch, 4200, 80000, 0.5),
    ("retry_table", sec_retry_table, 30, 30, 0.05),
    ("stream_exhaustive", sec_stream_exhaustive, 777, 777, 2.0),
    ("stream_random", sec_stream_random, 7000, 150000, 2.0),
]
