"""C09 - noisy and mixed-state simulation implements the channel semantics.

Reference: the dense interpreter with catalogue Kraus operators.  Observed:
DensityMatrixSimulator (final state, every moment step), channel description
conversions, state-vector trajectories through the scripted seed object
(exact unravelling), and noise models."""
from __future__ import annotations

import math

import numpy as np

from vf.monitors import scripted_rng as SR
from vf.refmodel import gates as G
from vf.refmodel import interp as I
from vf.refmodel import linalg as L
from vf.workloads import gatepool as GP
from vf.workloads import programs as P

LEVEL = "exploration"
RULE = ("programs mixing catalogue unitaries with every library channel (parameters incl. 0, 1, tiny), resets and measurements "
        "on <=4 wires (qubits and qutrits); channel-description conversion cases; trajectory programs with <=4 stochastic "
        "operations explored exhaustively through the scripted seed object; noise-model cases; non-trivial = the reference "
        "final state is mixed (purity < 1-1e-6) or the channel differs from identity; distinct by program text + configuration")
ASSUMPTIONS = ["catalogue Kraus sets are ground truth", "Kraus branches lighter than 1e-7 are never forced",
               "tolerance 2e-5 (complex64 density matrices) / 1e-7 (complex128)"]
MIN_EVAL = {"dm-final==kraus-sum": 300, "dm-valid-state": 300, "conversion": 500, "unravelling==rho": 100, "noise-model": 150, "apply_mixture==sum": 800}
MUST_REACH = [
    "cirq/protocols/apply_mixture_protocol.py:_apply_mixture_from_mixture_strat",
    "cirq/protocols/apply_channel_protocol.py:_apply_kraus",
    "cirq/protocols/apply_channel_protocol.py:_apply_unitary",
    "cirq/sim/density_matrix_simulation_state.py:DensityMatrixSimulationState._act_on_fallback_",
    "cirq/sim/density_matrix_simulation_state.py:_BufferedDensityMatrix.apply_channel",
    "cirq/sim/density_matrix_simulation_state.py:_BufferedDensityMatrix.measure",
    "cirq/sim/state_vector_simulation_state.py:_BufferedStateVector.apply_mixture",
    "cirq/sim/state_vector_simulation_state.py:_BufferedStateVector.apply_channel",
    "cirq/qis/channels.py:kraus_to_choi", "cirq/qis/channels.py:choi_to_kraus", "cirq/qis/channels.py:kraus_to_superoperator",
    "cirq/qis/channels.py:superoperator_to_kraus", "cirq/qis/channels.py:choi_to_superoperator", "cirq/qis/channels.py:superoperator_to_choi",
    "cirq/circuits/moment.py:Moment._kraus_",
    "cirq/devices/noise_model.py:ConstantQubitNoiseModel.noisy_moment",
]


KNOWN_NOISE_SPLIT = "C09:dm-noise-applied-after-prefix-split"


def _gen_noisy(rng, dims, nsteps, measure=False):
    steps = []
    n = len(dims)
    for _ in range(nsteps):
        r = rng.random()
        if r < 0.45:
            steps.append(P.gen_unitary_step(rng, dims, arity_w=(0.03, 0.5, 0.4, 0.07)))
        elif r < 0.9 or not measure:
            for _ in range(20):
                k = 1 if rng.random() < 0.85 else 2
                if k > n:
                    continue
                wires = tuple(int(w) for w in rng.choice(n, size=k, replace=False))
                cands = P.specs_for_shape([dims[w] for w in wires], "c")
                if cands:
                    s = cands[int(rng.integers(len(cands)))]
                    steps.append({"t": "K", "spec": s.name, "p": s.sample(rng), "w": wires})
                    break
        elif rng.random() < 0.3 and all(d == 2 for d in dims):
            # a joint Pauli measurement: projects onto an eigenspace of the product and generally leaves the qubits entangled
            k = int(rng.integers(1, min(n, 3) + 1))
            wires = tuple(int(w) for w in rng.choice(n, size=k, replace=False))
            steps.append({"t": "PM", "key": "k%d" % len(steps), "w": wires, "paulis": "".join(rng.choice(list("XYZ"), size=k)),
                          "coef": int(rng.choice([1, -1]))})
        else:
            wires = tuple(int(w) for w in rng.choice(n, size=int(rng.integers(1, min(n, 2) + 1)), replace=False))
            steps.append({"t": "M", "key": "k%d" % len(steps), "w": wires})
    return steps


def _valid_rho(r, tol):
    r = np.asarray(r)
    if not L.allclose(r, r.conj().T, tol):
        return False, "not Hermitian"
    if abs(np.trace(r).real - 1) > tol * 10:
        return False, "trace %.6f" % np.trace(r).real
    w = np.linalg.eigvalsh((r + r.conj().T) / 2)
    if w.min() < -tol * 10:
        return False, "negative eigenvalue %.3g" % w.min()
    return True, ""


def sec_dm(ctx, rng, case):
    import cirq

    dims = P.pick_dims(rng, nmax=3 if ctx.tier == "quick" else 4, qudit_p=0.25, dmax_total=27)
    steps = _gen_noisy(rng, dims, int(rng.integers(2, 14)))
    qubits = P.make_qubits(rng, dims)
    layout = ["greedy", "serial"][int(rng.integers(2))]
    moments = P.to_moments(steps, qubits, rng, layout)
    circuit = cirq.Circuit(moments)
    D = L.dim_of(dims)
    dtype = [np.complex64, np.complex128][int(rng.integers(2))]
    split = bool(rng.integers(2))
    tol = 3e-5 if dtype == np.complex64 else 1e-7
    # initial state: basis / pure vector / mixed matrix
    r = rng.random()
    if r < 0.35:
        k0 = int(rng.integers(D))
        init = k0
        rho0 = np.zeros((D, D), dtype=complex)
        rho0[k0, k0] = 1
    elif r < 0.65:
        v = L.random_state(rng, D)
        init = v.astype(dtype)
        rho0 = np.outer(init.astype(complex), init.astype(complex).conj())
    else:
        rho0 = L.random_rho(rng, D, rank=int(rng.integers(1, D + 1)))
        init = rho0.astype(dtype)
        rho0 = init.astype(complex)
    wit = dict(dims=dims, program=P.describe(steps), layout=layout, dtype=dtype.__name__, split=split)
    sim = cirq.DensityMatrixSimulator(dtype=dtype, split_untangled_states=split)
    ref_steps = P.to_ref(steps)
    want = I.average_state(I.run(ref_steps, dims, rho0))
    res = sim.simulate(circuit, initial_state=init, qubit_order=qubits)
    got = res.final_density_matrix
    ctx.check(L.allclose(got, want, tol), "dm-final==kraus-sum", "C09:dm-final-state:split=%s" % split,
              lambda: "final_density_matrix deviates from the Kraus-sum evolution by %.3g" % L.maxdiff(got, want), **wit)
    ok, why = _valid_rho(got, tol)
    ctx.check(ok, "dm-valid-state", "C09:dm-invalid-state", why, **wit)
    # every moment step
    it = iter(ref_steps)
    rho = rho0
    for mi, step in enumerate(sim.simulate_moment_steps(circuit, qubit_order=qubits, initial_state=init)):
        if mi >= len(circuit):
            break
        for _ in circuit[mi].operations:
            st = next(it)
            rho = I.average_state(I.run([st], dims, rho))
        g = step.density_matrix(copy=True)
        if not ctx.check(L.allclose(g, rho, tol), "dm-final==kraus-sum", "C09:dm-moment-step:split=%s" % split,
                         lambda: "density matrix after moment %d deviates by %.3g" % (mi, L.maxdiff(g, rho)), moment=mi, **wit):
            break
        ok, why = _valid_rho(g, tol)
        ctx.check(ok, "dm-valid-state", "C09:dm-invalid-state", why, moment=mi, **wit)
    purity = float(np.trace(want @ want).real)
    ctx.distinct((tuple(P.describe(steps)), dims, split, dtype.__name__), nontrivial=purity < 1 - 1e-6)
    ctx.sample({"dims": dims, "program": P.describe(steps)[:8], "purity": purity})


def sec_dm_measure(ctx, rng, case):
    """density-matrix simulator with measurements: paths weighted by probability reproduce the reference branch states"""
    import cirq

    dims = P.pick_dims(rng, nmax=3, qudit_p=0.2, dmax_total=12)
    steps = _gen_noisy(rng, dims, int(rng.integers(2, 8)), measure=True)
    if not any(s["t"] in ("M", "PM") for s in steps):
        steps.append({"t": "M", "key": "z", "w": (0,)})
    nm = sum(len(s["w"]) if s["t"] == "M" else 1 for s in steps if s["t"] in ("M", "PM"))
    if nm > 5:
        return
    qubits = P.make_qubits(rng, dims)
    circuit = P.to_circuit(steps, qubits, rng, "greedy")
    D = L.dim_of(dims)
    split = bool(rng.integers(2))
    branches = I.run(P.to_ref(steps), dims)
    ref = {}
    for rec, rho in branches.items():
        ref[I.by_key(rec)] = ref.get(I.by_key(rec), 0) + rho
    wit = dict(dims=dims, program=P.describe(steps), split=split)

    def run(rng_obj):
        sim = cirq.DensityMatrixSimulator(dtype=np.complex128, split_untangled_states=split, seed=rng_obj)
        res = sim.simulate(circuit, qubit_order=qubits)
        meas = tuple(sorted((k, (tuple(int(x) for x in v),)) for k, v in res.measurements.items()))
        return (meas, np.array(res.final_density_matrix, dtype=complex).tobytes())

    ex = SR.explore(run, max_paths=400, min_branch=1e-7)
    if ex.over_budget:
        ctx.event("explorer-over-budget")
        return
    acc = {}
    for p, (meas, sb), _ in ex.paths:
        acc[meas] = acc.get(meas, 0) + p * np.frombuffer(sb, dtype=complex).reshape(D, D)
    worst = max(L.maxdiff(acc.get(k, np.zeros((D, D))), ref.get(k, np.zeros((D, D)))) for k in set(acc) | set(ref))
    ctx.check(worst <= 1e-6, "dm-final==kraus-sum", "C09:dm-measurement-branches",
              lambda: "probability-weighted post-measurement density matrices deviate by %.3g" % worst, **wit)
    ctx.distinct((tuple(P.describe(steps)), dims, split), nontrivial=len(ref) >= 2)
    ctx.sample({"dims": dims, "program": P.describe(steps), "paths": len(ex.paths)})


def _rand_channel(rng, d):
    k = int(rng.integers(1, 4))
    big = L.haar_unitary(rng, d * k)
    ks = [big[i * d:(i + 1) * d, :d] for i in range(k)]
    if rng.random() < 0.3:  # add an exactly-zero and a tiny operator: conversions must not lose or invent mass
        ks.append(np.zeros((d, d), dtype=complex))
    return ks


def sec_conversions(ctx, rng, case):
    import cirq

    kind = case % 4
    if kind == 0:
        cs = P.pools()["c"]
        spec = cs[int(rng.integers(len(cs)))]
        p = spec.sample(rng)
        try:
            gate = spec.make(p)
        except ValueError:
            ctx.reject("constructor")
            return
        ks = [np.asarray(k) for k in cirq.kraus(gate)]
        ref = [np.asarray(k) for k in spec.ref(p)]
        label = spec.name
    else:
        d = int(rng.choice([2, 2, 3, 4]))
        ks = _rand_channel(rng, d)
        ref = ks
        label = "random%d" % d
    J = L.choi(ref)
    S = L.superop(ref)
    wit = dict(channel=label)
    cj = cirq.kraus_to_choi(ks)
    ctx.check(L.allclose(cj, J, 1e-8), "conversion", "C09:kraus_to_choi", "", **wit)
    cs_ = cirq.kraus_to_superoperator(ks)
    ctx.check(L.allclose(cs_, S, 1e-8), "conversion", "C09:kraus_to_superoperator", "", **wit)
    k2 = cirq.choi_to_kraus(J)
    ctx.check(L.allclose(L.choi(k2), J, 1e-7) and L.is_trace_preserving(k2, 1e-7), "conversion", "C09:choi_to_kraus",
              "choi_to_kraus does not reproduce the map (%.3g)" % L.maxdiff(L.choi(k2) if len(k2) else 0 * J, J), **wit)
    k3 = cirq.superoperator_to_kraus(S)
    ctx.check(len(k3) > 0 and L.allclose(L.choi(k3), J, 1e-7), "conversion", "C09:superoperator_to_kraus", "", **wit)
    ctx.check(L.allclose(cirq.choi_to_superoperator(J), S, 1e-8), "conversion", "C09:choi_to_superoperator", "", **wit)
    ctx.check(L.allclose(cirq.superoperator_to_choi(S), J, 1e-8), "conversion", "C09:superoperator_to_choi", "", **wit)
    # the map itself: S vec(rho) == sum K rho K^dagger
    d = ref[0].shape[0]
    rho = L.random_rho(rng, d)
    want = sum(k @ rho @ k.conj().T for k in ref)
    ctx.check(L.allclose((cs_ @ rho.reshape(-1)).reshape(d, d), want, 1e-8), "conversion", "C09:superoperator-acts-as-channel", "", **wit)
    ctx.distinct((label, round(float(np.abs(J).sum()), 8)), nontrivial=not L.allclose(J, L.choi([np.eye(d)]), 1e-6))
    if kind == 0:
        op = gate.on(*[cirq.LineQid(i, dimension=x) for i, x in enumerate(spec.shape)])
        ctx.check(L.allclose(cirq.operation_to_choi(op), J, 1e-8), "conversion", "C09:operation_to_choi", "", **wit)
        ctx.check(L.allclose(cirq.operation_to_superoperator(op), S, 1e-8), "conversion", "C09:operation_to_superoperator", "", **wit)


def sec_moment_channel(ctx, rng, case):
    """Moment / Circuit channel descriptions equal the ordered composition of their operations' channels"""
    import cirq

    dims = (2,) * int(rng.integers(1, 4))
    n = len(dims)
    steps = _gen_noisy(rng, dims, int(rng.integers(1, 6)))
    qubits = P.make_qubits(rng, dims)
    moments = P.to_moments(steps, qubits, rng, "greedy")
    D = 2 ** n
    # reference superoperator of the whole program on the sorted qubit order
    ref_steps = P.to_ref(steps)
    S = I.superop_of(ref_steps, dims)
    circuit = cirq.Circuit(moments)
    present = sorted(circuit.all_qubits())
    wit = dict(program=P.describe(steps))
    if len(present) == n:
        got = circuit._superoperator_()
        ctx.check(L.allclose(got, S, 1e-7), "conversion", "C09:circuit-superoperator",
                  lambda: "Circuit._superoperator_ deviates by %.3g" % L.maxdiff(got, S), **wit)
    # one moment: kraus of the moment vs composition of its own ops (sorted qubits of that moment)
    m = moments[int(rng.integers(len(moments)))]
    mq = sorted(m.qubits)
    if mq and len(mq) <= 3:
        ks = cirq.kraus(m, None)
        idx = {q: i for i, q in enumerate(mq)}
        sub = []
        pos_in_prog = {q: i for i, q in enumerate(qubits)}
        ops_steps = []
        for st in steps:
            pass
        # rebuild the moment's reference from cirq-independent data: find the abstract steps placed in this moment
        k = 0
        chosen = []
        for mm in moments:
            cnt = len(mm.operations)
            if mm is m:
                chosen = steps[k:k + cnt]
            k += cnt
        mdims = (2,) * len(mq)
        wmap = {pos_in_prog[q]: idx[q] for q in mq}
        rsteps = []
        for st in chosen:
            r = P.step_to_ref(st)
            if isinstance(r, I.U):
                rsteps.append(I.U(r.matrix, [wmap[w] for w in r.wires]))
            else:
                rsteps.append(I.K(r.kraus, [wmap[w] for w in r.wires]))
        Sm = I.superop_of(rsteps, mdims)
        ctx.check(ks is not None and L.allclose(L.superop(ks), Sm, 1e-7), "conversion", "C09:moment-kraus", "", moment=repr(m)[:200], **wit)
        ctx.check(L.allclose(m._superoperator_(), Sm, 1e-7), "conversion", "C09:moment-superoperator", "", **wit)
    ctx.distinct(tuple(P.describe(steps)), nontrivial=any(s["t"] == "K" for s in steps))


def sec_unravel(ctx, rng, case):
    """state-vector trajectories are an exact unravelling: sum_paths p |psi><psi| == reference rho"""
    import cirq

    dims = P.pick_dims(rng, nmax=3, qudit_p=0.15, dmax_total=12)
    steps = []
    nstoch = 0
    for _ in range(int(rng.integers(2, 9))):
        if rng.random() < 0.45 and nstoch < 3:
            st = None
            for _ in range(10):
                cand = _gen_noisy(rng, dims, 1)
                if cand and cand[0]["t"] == "K":
                    st = cand[0]
                    break
            if st is not None:
                steps.append(st)
                nstoch += 1
                continue
        steps.append(P.gen_unitary_step(rng, dims, arity_w=(0.0, 0.55, 0.45, 0.0)))
    if nstoch == 0:
        return
    qubits = P.make_qubits(rng, dims)
    circuit = P.to_circuit(steps, qubits, rng, "greedy")
    D = L.dim_of(dims)
    want = I.average_state(I.run(P.to_ref(steps), dims))
    kind = ["sv128", "sv128-nosplit", "sv64"][int(rng.integers(3))]
    wit = dict(dims=dims, program=P.describe(steps), simulator=kind)

    def run(rng_obj):
        sim = cirq.Simulator(dtype=np.complex64 if kind == "sv64" else np.complex128, split_untangled_states=(kind != "sv128-nosplit"), seed=rng_obj)
        v = np.array(sim.simulate(circuit, qubit_order=qubits).final_state_vector, dtype=complex)
        return v.tobytes()

    ex = SR.explore(run, max_paths=1500, min_branch=1e-7)
    if ex.over_budget:
        ctx.event("explorer-over-budget")
        return
    acc = np.zeros((D, D), dtype=complex)
    for p, vb, _ in ex.paths:
        v = np.frombuffer(vb, dtype=complex)
        acc += p * np.outer(v, v.conj())
    tol = 2e-4 if kind == "sv64" else 5e-6
    ctx.event("paths", len(ex.paths))
    ctx.check(L.allclose(acc, want, tol) and abs(ex.total() - 1) < tol * 10, "unravelling==rho", "C09:trajectory-unravelling",
              lambda: "sum over %d trajectories of p|psi><psi| deviates from the channel evolution by %.3g (sum p = %.6f)" % (len(ex.paths), L.maxdiff(acc, want), ex.total()), **wit)
    ctx.check(not ex.bad, "requested-p-is-distribution", "C09:malformed-mixture-probabilities", "%r" % (ex.bad[:2],), **wit)
    ctx.distinct((tuple(P.describe(steps)), dims, kind), nontrivial=len(ex.paths) >= 2)
    ctx.sample({"dims": dims, "program": P.describe(steps), "paths": len(ex.paths)})


def sec_noise(ctx, rng, case):
    """Simulating with a noise model == simulating circuit.with_noise(model) == the documented insertion rule"""
    import cirq

    dims = (2,) * int(rng.integers(1, 4))
    n = len(dims)
    steps = P.gen_unitary_program(rng, dims, int(rng.integers(1, 7)), pred=lambda s: len(s.shape) >= 1)
    qubits = P.make_qubits(rng, dims)
    moments = P.to_moments(steps, qubits, rng, "greedy")
    if rng.random() < 0.3:
        moments.insert(int(rng.integers(len(moments) + 1)), cirq.Moment())
    circuit = cirq.Circuit(moments)
    present = sorted(circuit.all_qubits())
    cs = [s for s in P.pools()["c"] if s.shape == (2,)]
    if rng.random() < 0.25:
        # coherent noise: a unitary single-qubit gate used as the noise channel (over-rotation models)
        cs = [s for s in P.pools()["u"] if s.shape == (2,) and "custom" not in s.tags and "matrix" not in s.tags]
    spec = cs[int(rng.integers(len(cs)))]
    p = spec.sample(rng)
    try:
        ngate = spec.make(p)
    except ValueError:
        ctx.reject("constructor")
        return
    nk = spec.ref(p)
    if not isinstance(nk, (list, tuple)):
        nk = [np.asarray(nk, dtype=complex)]  # a unitary gate as a one-operator channel
    prepend = bool(rng.integers(2))
    form = int(rng.integers(3))
    if form == 0 and not prepend:
        noise = ngate  # NOISE_MODEL_LIKE: a single-qubit gate
    else:
        noise = cirq.ConstantQubitNoiseModel(ngate, prepend=prepend)
    wit = dict(program=P.describe(steps), noise=spec.name, noise_params=p, prepend=prepend, form=form)
    # reference: per moment, the moment's ops then the channel on every qubit present in the circuit (or before, if prepend)
    pos = {q: i for i, q in enumerate(qubits)}
    ref = []
    it = iter(P.to_ref(steps))
    for m in moments:
        mops = [next(it) for _ in m.operations]
        nz = [I.K(nk, [pos[q]]) for q in present]
        ref += (nz + mops) if prepend else (mops + nz)
    want = I.average_state(I.run(ref, dims))
    sim = cirq.DensityMatrixSimulator(dtype=np.complex128, noise=noise)
    got = sim.simulate(circuit, qubit_order=qubits).final_density_matrix
    mech = "C09:simulator-noise"
    if not L.allclose(got, want, 1e-7) and any(len(m) == 0 for m in moments):
        # explained-by test for the known finding: the simulator splits the circuit into a prefix/suffix *before*
        # asking the noise model, and that split drops empty moments, so they receive no noise layer
        ref_alt = []
        it2 = iter(P.to_ref(steps))
        for m in moments:
            mops = [next(it2) for _ in m.operations]
            if len(m) == 0:
                continue
            nz = [I.K(nk, [pos[q]]) for q in present]
            ref_alt += (nz + mops) if prepend else (mops + nz)
        if L.allclose(got, I.average_state(I.run(ref_alt, dims)), 1e-7):
            mech = KNOWN_NOISE_SPLIT
    ctx.check(L.allclose(got, want, 1e-7), "noise-model", mech,
              lambda: "DensityMatrixSimulator(noise=...) deviates from the documented insertion rule by %.3g" % L.maxdiff(got, want), **wit)
    # the convenience entry point takes the same noise argument
    # (called with the default qubit order, i.e. only when every qubit occurs in the circuit: its handling of an explicit
    # qubit_order next to its internal defer_measurements step is outside this property)
    if present == list(qubits):
        got_mux = cirq.final_density_matrix(circuit, noise=noise, dtype=np.complex128)
        ctx.check(L.allclose(got_mux, want, 1e-7), "noise-model", mech if mech == KNOWN_NOISE_SPLIT else "C09:final_density_matrix-noise",
                  lambda: "cirq.final_density_matrix(noise=...) deviates from the documented insertion rule by %.3g" % L.maxdiff(got_mux, want), **wit)
    else:
        ctx.event("final_density_matrix:skipped-idle-qubits")
    noisy = circuit.with_noise(noise)
    got2 = cirq.DensityMatrixSimulator(dtype=np.complex128).simulate(noisy, qubit_order=qubits).final_density_matrix
    ctx.check(L.allclose(got2, want, 1e-7), "noise-model", "C09:with-noise", lambda: "circuit.with_noise deviates by %.3g" % L.maxdiff(got2, want), **wit)
    # applying noise to an already noisy circuit must not add noise to the virtual (noise) moments
    again = noisy.with_noise(noise)
    ref2 = []
    it = iter(P.to_ref(steps))
    for m in moments:
        mops = [next(it) for _ in m.operations]
        nz = [I.K(nk, [pos[q]]) for q in present]
        blk = (nz + mops) if prepend else (mops + nz)
        # the original moment gets one more layer, the virtual noise moment none
        ref2 += (nz + blk) if prepend else (mops + nz + nz)
    want2 = I.average_state(I.run(ref2, dims))
    got3 = cirq.DensityMatrixSimulator(dtype=np.complex128).simulate(again, qubit_order=qubits).final_density_matrix
    ctx.check(L.allclose(got3, want2, 1e-7), "noise-model", "C09:noise-on-virtual-moments",
              lambda: "re-applying a noise model touched virtual moments (deviation %.3g)" % L.maxdiff(got3, want2), **wit)
    ctx.distinct((tuple(P.describe(steps)), spec.name, repr(p), prepend, form), nontrivial=not L.allclose(L.choi(nk), L.choi([np.eye(2)]), 1e-6))
    ctx.sample({"program": P.describe(steps)[:6], "noise": spec.name, "prepend": prepend})


def _purity(r):
    return float(np.real(np.trace(r @ r)))


def _group_moments(rng, steps):
    """harness-side greedy packing: list of moments, each a list of steps (order inside = program order)"""
    out, cur, used = [], [], set()
    for st in steps:
        w = set(st["w"])
        if cur and ((w & used) or rng.random() < 0.15):
            out.append(cur)
            cur, used = [], set()
        cur.append(st)
        used |= w
    if cur:
        out.append(cur)
    return out


def _split_like_simulator(msteps):
    """The known prefix/suffix split (see KNOWN_NOISE_SPLIT) re-done in the harness, only to *explain* deviations: measurement
    steps and everything later on their wires go to the suffix; each moment is split in two; empty parts vanish."""
    blocked = set()
    pre, suf = [], []
    for m in msteps:
        a, b = [], []
        for st in m:
            if st["t"] != "M" and not (set(st["w"]) & blocked):
                a.append(st)
            else:
                blocked |= set(st["w"])
                b.append(st)
        if a:
            pre.append(a)
        if b:
            suf.append(b)
    return pre, suf


def sec_noise_models(ctx, rng, case):
    """ThermalNoiseModel / InsertionNoiseModel: with_noise and the simulator follow the documented insertion rule, with the
    thermal channel computed from the documented Lindblad operators"""
    import cirq
    from cirq.devices.noise_utils import PHYSICAL_GATE_TAG, OpIdentifier
    from vf.refmodel import noise_model_ref as NR

    n = int(rng.integers(1, 4))
    dims = (2,) * n
    qubits = [cirq.LineQubit(i) for i in range(n)]  # sorted order == wire order (system_qubits are passed sorted)
    steps = P.gen_unitary_program(rng, dims, int(rng.integers(1, 7)), pred=lambda sp: len(sp.shape) >= 1)
    measured = []
    if rng.random() < 0.4:
        k = int(rng.integers(1, n + 1))
        measured = sorted(int(w) for w in rng.choice(n, size=k, replace=False))
        pos = int(rng.integers(max(0, len(steps) - 1), len(steps) + 1))
        # terminal for its wires: drop later steps on the measured wires
        steps = steps[:pos] + [{"t": "M", "key": "m", "w": tuple(measured)}] + [st for st in steps[pos:] if not (set(st["w"]) & set(measured))]
    # device-derived form: the model is handed over through NoiseProperties / NoiseModelFromNoiseProperties, which tags every
    # operation as physical itself and splits multi-qubit measurements into single-qubit ones while the noise is applied
    device = bool(rng.random() < 0.25)
    if device and measured and rng.random() < 0.5:
        # (a repeated key keeps its shape: Cirq refuses records of different widths under one key)
        w0 = tuple(int(w_) for w_ in rng.choice(n, size=len(measured), replace=False))
        steps.insert(int(rng.integers(0, max(1, steps.index(next(st for st in steps if st["t"] == "M")) + 1))), {"t": "M", "key": "m", "w": w0})
    msteps = _group_moments(rng, steps)
    model_kind = "thermal" if rng.random() < 0.6 else "insertion"
    require_tag = True if device else bool(rng.random() < 0.4)
    prepend = bool(rng.random() < 0.35)
    physical = [bool(rng.random() < 0.7) for _ in msteps] if (require_tag and not device) else [True] * len(msteps)
    moments = []
    for mi, m in enumerate(msteps):
        ops_ = [P.step_to_op(st, qubits) for st in m]
        if require_tag and physical[mi] and not device:
            ops_ = [o.with_tags(PHYSICAL_GATE_TAG) for o in ops_]
        moments.append(cirq.Moment(ops_))
    circuit = cirq.Circuit(moments)
    present = sorted(set(w for st in steps for w in st["w"]))
    gtypes = [[type(P.step_to_op(st, qubits).gate) for st in m] for m in msteps]
    all_types = sorted({t for ts in gtypes for t in ts}, key=lambda t: t.__name__)
    wit = dict(program=[[P.describe([st])[0] for st in m] for m in msteps], model=model_kind, require_tag=require_tag, prepend=prepend,
               physical=physical, device_derived=device)

    if model_kind == "thermal":
        # exact types only, none a subclass of another key (sub-class matching order is not documented)
        keys = [t for t in all_types if rng.random() < 0.75]
        keys = [t for t in keys if not any(o is not t and issubclass(t, o) for o in keys)]
        durs = {t: [0.0, 12.0, 25.0, float(rng.uniform(1, 60))][int(rng.integers(4))] for t in keys}

        def rate():
            r = rng.random()
            if r < 0.2:
                return None
            if r < 0.6:
                return float(rng.uniform(0, 0.02))
            return {q: float(rng.uniform(0, 0.03)) for q in qubits if rng.random() < 0.7}
        heat, cool, deph = rate(), rate(), rate()
        skip_meas = bool(rng.random() < 0.6)
        model = cirq.devices.ThermalNoiseModel(set(qubits), durs, heat_rate_GHz=heat, cool_rate_GHz=cool, dephase_rate_GHz=deph,
                                               require_physical_tag=require_tag, skip_measurements=skip_meas, prepend=prepend)
        wit.update(durations={t.__name__: d for t, d in durs.items()}, heat=repr(heat), cool=repr(cool), dephase=repr(deph), skip_measurements=skip_meas)

        def rate_of(spec, w):
            if spec is None:
                return 0.0
            if isinstance(spec, dict):
                return spec.get(qubits[w], 0.0)
            return spec

        def noise_layer(m, ts, system):
            t_ns = 0.0
            for st, ty in zip(m, ts):
                for k_, d in durs.items():
                    if issubclass(ty, k_):
                        t_ns = max(t_ns, d)
                        break
            if t_ns == 0:
                return []
            meas_w = set(w for st in m if st["t"] == "M" for w in st["w"])
            out = []
            for w in system:
                if skip_meas and w in meas_w:
                    continue
                S = NR.thermal_superop(2, rate_of(heat, w), rate_of(cool, w), rate_of(deph, w), t_ns)
                out.append(I.K(NR.kraus_from_superop(S, 2), [w]))
            return out
    else:
        # insertion: OpIdentifier(gate type[, qubits]) -> op added (a channel on one of the op's qubits / a fixed qubit)
        cs = [sp for sp in P.pools()["c"] if sp.shape == (2,)]
        ids = []  # (type, wires or None, noise spec, params, noise wire)
        for t in all_types + [cirq.EigenGate, cirq.Gate]:
            if rng.random() < (0.7 if t in all_types else 0.3):
                sp = cs[int(rng.integers(len(cs)))]
                ids.append((t, None, sp, sp.sample(rng), int(rng.integers(n))))
        # a qubit-specific identifier that must win over the generic one of the same type
        cand = [(st, ty) for m, ts in zip(msteps, gtypes) for st, ty in zip(m, ts) if st["t"] != "M"]
        if cand and rng.random() < 0.6:
            st, ty = cand[int(rng.integers(len(cand)))]
            sp = cs[int(rng.integers(len(cs)))]
            ids.append((ty, tuple(st["w"]), sp, sp.sample(rng), int(st["w"][0])))
        if rng.random() < 0.5:
            ids = [ids[i] for i in rng.permutation(len(ids))]
        uniq = {}
        for x in ids:  # a dict keyed by identifier: a repeated identifier keeps its first position and takes the last value
            uniq[(x[0], x[1])] = x
        ids = list(uniq.values())
        try:
            added = {}
            for ty, ws, sp, pp, nw in ids:
                oid = OpIdentifier(ty, *[qubits[w] for w in ws]) if ws else OpIdentifier(ty)
                added[oid] = sp.make(pp).on(qubits[nw])
        except ValueError:
            ctx.reject("constructor")
            return
        model = cirq.devices.InsertionNoiseModel(ops_added=added, prepend=prepend, require_physical_tag=require_tag)
        wit.update(ids=[(ty.__name__, ws, sp.name, pp, nw) for ty, ws, sp, pp, nw in ids])

        def contained(a, b):
            """identifier a accepts a subset of what b accepts (documented: gate sub-type and/or qubit-specific)"""
            return issubclass(a[0], b[0]) and (b[1] is None or (a[1] is not None and tuple(a[1]) == tuple(b[1])))

        def noise_layer(m, ts, system):
            out = []
            for st, ty in zip(m, ts):
                # (device-derived models see a multi-qubit measurement as one single-qubit measurement per qubit)
                units = [(w_,) for w_ in st["w"]] if (device and st["t"] == "M") else [tuple(st["w"])]
                for uw in units:
                    hit = None
                    for x in ids:  # dict order; the most specific wins, ties go to the first
                        if not (issubclass(ty, x[0]) and (x[1] is None or tuple(x[1]) == uw)):
                            continue
                        if hit is None or (contained(x, hit) and not contained(hit, x)):
                            hit = x
                    if hit is not None:
                        out.append(I.K(hit[2].ref(hit[3]), [hit[4]]))
            return out

    def build_ref(ms, tss, phys, system):
        ref = []
        for m, ts, ph in zip(ms, tss, phys):
            body = P.to_ref(m)
            nz = noise_layer(m, ts, system) if (ph or not require_tag) else []
            ref += (nz + body) if prepend else (body + nz)
        return ref

    want = I.average_state(I.run(build_ref(msteps, gtypes, physical, present), dims))
    if device:
        from cirq.devices.noise_properties import NoiseModelFromNoiseProperties, NoiseProperties
        inner_model = model

        class _Props(NoiseProperties):
            def build_noise_models(self):
                return [inner_model]
        model = NoiseModelFromNoiseProperties(_Props())
    # with_noise: system qubits = sorted(circuit.all_qubits())
    try:
        noisy = circuit.with_noise(model)
    except ValueError as e:
        ctx.reject("with_noise:" + str(e)[:40])
        return
    D = L.dim_of(dims)

    def averaged(circ, **kw):
        """probability-weighted average of the final density matrix over every measurement outcome path"""
        if not measured:
            return np.array(cirq.DensityMatrixSimulator(dtype=np.complex128, **kw).simulate(circ, qubit_order=qubits).final_density_matrix)

        def run(rng_obj):
            sim = cirq.DensityMatrixSimulator(dtype=np.complex128, seed=rng_obj, **kw)
            return np.array(sim.simulate(circ, qubit_order=qubits).final_density_matrix, dtype=complex).tobytes()
        ex = SR.explore(run, max_paths=64, min_branch=1e-9)
        if ex.over_budget or ex.bad:
            return None
        return sum(p_ * np.frombuffer(b, dtype=complex).reshape(D, D) for p_, b, _ in ex.paths)

    got = averaged(noisy)
    if got is None:
        ctx.event("explorer-over-budget")
        return
    ctx.check(L.allclose(got, want, 1e-7), "noise-model", "C09:with-noise:" + model_kind,
              lambda: "circuit.with_noise(%s model) deviates from the documented rule by %.3g" % (model_kind, L.maxdiff(got, want)), **wit)
    got2 = averaged(circuit, noise=model)
    if got2 is None:
        ctx.event("explorer-over-budget")
        return
    mech = "C09:simulator-noise:" + model_kind
    if not L.allclose(got2, want, 1e-7):
        # explained-by: split first (per-qubit), then noise on each part with that part's own qubits
        idx = {id(st): (mi, si) for mi, m in enumerate(msteps) for si, st in enumerate(m)}
        pre, suf = _split_like_simulator(msteps)

        def side(ms):
            tss = [[gtypes[idx[id(st)][0]][idx[id(st)][1]] for st in m] for m in ms]
            phys = [physical[idx[id(m[0])][0]] for m in ms]
            system = sorted(set(w for m in ms for st in m for w in st["w"]))
            return build_ref(ms, tss, phys, system)
        alt = I.average_state(I.run(side(pre) + side(suf), dims))
        if L.allclose(got2, alt, 1e-7):
            mech = KNOWN_NOISE_SPLIT
    ctx.check(L.allclose(got2, want, 1e-7), "noise-model", mech,
              lambda: "DensityMatrixSimulator(noise=%s model) deviates from the documented rule by %.3g" % (model_kind, L.maxdiff(got2, want)), **wit)
    ctx.distinct((repr(wit["program"]), model_kind, require_tag, prepend, repr(wit.get("durations")), repr(wit.get("ids"))),
                 nontrivial=_purity(want) < 1 - 1e-6)
    ctx.sample({"program": wit["program"][:4], "model": model_kind, "purity": round(_purity(want), 6)})


def _psd_sqrt(m):
    w, v = np.linalg.eigh((m + m.conj().T) / 2)
    return (v * np.sqrt(np.clip(w, 0, None))) @ v.conj().T


def sec_measures(ctx, rng, case):
    """cirq.qis measures against their documented definitions: fidelity (Uhlmann), von Neumann entropy in bits,
    entanglement fidelity <phi|(E x I)(|phi><phi|)|phi>"""
    import cirq

    kind = case % 3
    if kind == 0:
        dims = P.pick_dims(rng, nmax=3, qudit_p=0.3, dmax_total=12)
        D = L.dim_of(dims)
        forms = []
        for _ in range(2):
            if rng.random() < 0.5:
                v = L.random_state(rng, D)
                forms.append(("vector", v, np.outer(v, v.conj())))
            else:
                r = L.random_rho(rng, D, rank=int(rng.integers(1, D + 1)))
                forms.append(("matrix", r, r))
        (ka, a, ra), (kb, b, rb) = forms
        if rng.random() < 0.15:
            kb, b, rb = ka, a, ra
        sq = _psd_sqrt(ra)
        want = float(np.real(np.trace(_psd_sqrt(sq @ rb @ sq))) ** 2)
        got = cirq.fidelity(a, b, qid_shape=tuple(dims))
        ctx.check(abs(got - want) <= 1e-6, "measures==definition", "C09:fidelity:%s-%s" % tuple(sorted((ka, kb))),
                  "cirq.fidelity = %.9f, Uhlmann fidelity %.9f" % (got, want), dims=dims, forms=[ka, kb])
        ctx.check(abs(cirq.fidelity(b, a, qid_shape=tuple(dims)) - got) <= 1e-6, "measures==definition", "C09:fidelity-not-symmetric", "", dims=dims, forms=[ka, kb])
        ctx.distinct(("fidelity", ka, kb, dims, round(want, 6)), nontrivial=1e-6 < want < 1 - 1e-6)
    elif kind == 1:
        dims = P.pick_dims(rng, nmax=3, qudit_p=0.3, dmax_total=12)
        D = L.dim_of(dims)
        if rng.random() < 0.2:
            st = L.random_state(rng, D)
            want = 0.0
        else:
            st = L.random_rho(rng, D, rank=int(rng.integers(1, D + 1)))
            w = np.clip(np.linalg.eigvalsh(st), 0, None)
            w = w[w > 1e-15]
            want = float(-(w * np.log2(w)).sum())
        got = cirq.von_neumann_entropy(st, qid_shape=tuple(dims))
        ctx.check(abs(got - want) <= 1e-6, "measures==definition", "C09:von_neumann_entropy", "entropy %.9f, -tr(rho log2 rho) = %.9f" % (got, want), dims=dims)
        ctx.distinct(("entropy", dims, round(want, 6)), nontrivial=want > 1e-6)
    else:
        specs = [sp for sp in P.pools()["c"]]
        sp = specs[int(rng.integers(len(specs)))]
        p = sp.sample(rng)
        try:
            g = sp.make(p)
        except ValueError:
            ctx.reject("constructor")
            return
        ks = sp.ref(p)
        d = L.dim_of(sp.shape)
        want = float(sum(abs(np.trace(k)) ** 2 for k in ks) / d ** 2)  # = <phi|(E x I)(phi)|phi> for |phi> = sum_i |ii>/sqrt(d)
        got = cirq.entanglement_fidelity(g)
        ctx.check(abs(got - want) <= 1e-7, "measures==definition", "C09:entanglement_fidelity:" + ("qudit" if any(x != 2 for x in sp.shape) else "qubit"),
                  "entanglement_fidelity(%s) = %.9f, definition gives %.9f" % (sp.name, got, want), channel=sp.name, params=p, shape=sp.shape)
        ctx.distinct(("efid", sp.name, repr(p)), nontrivial=want < 1 - 1e-6)


class _MixtureOnly:
    """a value that offers nothing but _mixture_ (probability, component) pairs: components may be matrices or anything
    with a unitary effect (the documented second form), e.g. gates that apply themselves in place"""

    def __init__(self, pairs, n):
        self._pairs, self._n = tuple(pairs), n

    def _mixture_(self):
        return self._pairs

    def _num_qubits_(self):
        return self._n

    def _qid_shape_(self):
        return (2,) * self._n


def sec_apply_mixture(ctx, rng, case):
    """cirq.apply_mixture on caller-owned tensors, state-vector form (sum_k p_k U_k psi) and density-matrix form
    (sum_k p_k U_k rho U_k^dagger), on arbitrary axes of a larger register"""
    import cirq

    k = 1 if rng.random() < 0.6 else 2
    n = int(rng.integers(k, 4))
    kind = int(rng.integers(4))
    g1 = [("Z", cirq.Z), ("S", cirq.S), ("T", cirq.T), ("X", cirq.X), ("H", cirq.H), ("Y**0.3", cirq.Y ** 0.3), ("I", cirq.I),
          ("Z**-0.41", cirq.Z ** -0.41)]
    g2 = [("CZ", cirq.CZ), ("CNOT", cirq.CNOT), ("SWAP", cirq.SWAP), ("CZ**0.37", cirq.CZ ** 0.37), ("ISWAP", cirq.ISWAP), ("ZZ**0.2", cirq.ZZ ** 0.2),
          ("I2", cirq.IdentityGate(2))]
    if kind == 0:
        cs = [s_ for s_ in P.pools()["c"] if s_.shape == (2,) * k and "custom" not in s_.tags]
        sp = cs[int(rng.integers(len(cs)))]
        p = sp.sample(rng)
        try:
            val = sp.make(p)
        except ValueError:
            ctx.reject("constructor")
            return
        mix = cirq.mixture(val, None)
        if mix is None:
            ctx.reject("channel-without-mixture")
            return
        comps = [(float(pr), np.asarray(u, dtype=complex)) for pr, u in mix]  # (the mixture itself is C03's / the conversions' business)
        label = sp.name
    else:
        pool = g1 if k == 1 else g2
        m = int(rng.integers(1, 5))
        names = [pool[int(i)] for i in rng.integers(len(pool), size=m)]
        probs = rng.dirichlet(np.ones(m))
        comps = [(float(pr), np.asarray(cirq.unitary(g), dtype=complex)) for pr, (_, g) in zip(probs, names)]
        if kind == 1:
            val = _MixtureOnly([(float(pr), g) for pr, (_, g) in zip(probs, names)], k)  # gate objects
        elif kind == 2:
            val = _MixtureOnly([(float(pr), cirq.unitary(g)) for pr, (_, g) in zip(probs, names)], k)  # matrices
        else:
            val = cirq.MixedUnitaryChannel([(float(pr), cirq.unitary(g)) for pr, (_, g) in zip(probs, names)])
        label = "%s[%s]" % (["", "gate-components", "matrix-components", "MixedUnitaryChannel"][kind], ",".join(nm for nm, _ in names))
    axes = [int(a) for a in rng.choice(n, size=k, replace=False)]
    dtype = [np.complex64, np.complex128][int(rng.integers(2))]
    tol = 1e-5 if dtype == np.complex64 else 1e-9
    dm = bool(rng.integers(2))
    wit = dict(value=label, n=n, axes=axes, density_matrix=dm, dtype=str(np.dtype(dtype)))
    D = 2 ** n
    if dm:
        rho = L.random_rho(rng, D)
        t = rho.astype(dtype).reshape((2,) * (2 * n))
        want = sum(pr * L.embed(u, axes, (2,) * n) @ rho @ L.embed(u, axes, (2,) * n).conj().T for pr, u in comps)
        args = cirq.ApplyMixtureArgs(target_tensor=t, out_buffer=np.full_like(t, np.nan), auxiliary_buffer0=np.full_like(t, np.nan),
                                     auxiliary_buffer1=np.full_like(t, np.nan), left_axes=axes, right_axes=[n + a for a in axes])
    else:
        psi = L.random_state(rng, D)
        t = psi.astype(dtype).reshape((2,) * n)
        want = sum(pr * L.embed(u, axes, (2,) * n) @ psi for pr, u in comps)
        args = cirq.ApplyMixtureArgs(target_tensor=t, out_buffer=np.full_like(t, np.nan), auxiliary_buffer0=np.full_like(t, np.nan),
                                     auxiliary_buffer1=np.full_like(t, np.nan), left_axes=axes)
    got = cirq.apply_mixture(val, args, default=None)
    if got is None:
        ctx.check(False, "apply_mixture==sum", "C09:apply_mixture:refused", "apply_mixture returned the default for a value with a mixture", **wit)
        return
    got = np.asarray(got).reshape((D, D) if dm else (D,))
    ctx.check(L.allclose(got, want, tol), "apply_mixture==sum", "C09:apply_mixture:" + ("density-matrix" if dm else "state-vector"),
              lambda: "apply_mixture deviates from sum_k p_k U_k (.) U_k^dagger by %.3g (trace %.6g)" % (L.maxdiff(got, want), np.trace(got).real if dm else float("nan")), **wit)
    ctx.distinct((label, n, tuple(axes), dm), nontrivial=len(comps) >= 2)
    ctx.sample(wit)


SECTIONS = [
    ("apply_mixture", sec_apply_mixture, 1500, 30000, 0.5),
    ("dm", sec_dm, 900, 25000, 4.0),
    ("dm_measure", sec_dm_measure, 300, 8000, 1.5),
    ("conversions", sec_conversions, 1500, 40000, 1.0),
    ("moment_channel", sec_moment_channel, 400, 10000, 1.5),
    ("unravel", sec_unravel, 400, 10000, 3.0),
    ("noise", sec_noise, 500, 12000, 1.5),
    ("noise_models", sec_noise_models, 500, 12000, 1.5),
    ("measures", sec_measures, 600, 12000, 0.5),
]
