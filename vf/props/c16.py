"""C16 - Google wire formats round-trip programs, sweeps, results and devices.

Monitors sit at the public (de)serialization entry points of cirq_google:
  CIRCUIT_SERIALIZER.serialize/deserialize (+ multi-program, circuit-function forms), api.v2 sweeps /
  run context / results / bit packing / ndarrays, api.v1 sweeps and result packing, arg_func_langs,
  GridDevice.from_proto/to_proto/validate_operation.
Oracle: the *abstract* program / sweep / record array / device specification the harness generated
(vf.workloads.wire_programs, vf.refmodel.wire_model - neither imports cirq) compared with what comes
back from the wire format, through a structural comparator written here (per-gate fields at float32
resolution where the proto field is a float, exactly where it is a double), a proto-level walk of the
constants table, and a semantic check (product of per-operation unitaries via vf.refmodel.linalg).

Genuine defects of the unchanged tree, each with its own mechanism key (a deterministic witness lives in the
edge cases of sec_prog_edges / sec_args / sec_sweeps; the random sections avoid the trigger or classify it
"explained-by" style - see structure_verdict and the FiniteRandomVariable branch of sec_sweeps):
  C16:moment-tags-lost-on-constants-hit          constants table keyed by Moment equality, which ignores moment tags
  C16:gate-specific-tag-moves-to-front           PhysicalZTag / FSimViaModelTag / TwoPulseFSimTag not first -> tag order changes
  C16:circuit-operation-tags-dropped             tags of a tagged CircuitOperation are silently dropped
  C16:internal-gate-unhashable-arg-typeerror     InternalGate with a list / ndarray argument: serialize raises TypeError
  C16:depolarize-integral-probability-rejected   DepolarizingChannel(p=0.0 or 1.0) is written but cannot be read (int vs float)
  C16:arg-sequence-with-none-indexerror          arg_to_proto([1, None]) raises IndexError
  C16:set-with-uniform-tuple-unreadable          a set holding a uniform numeric tuple is written, reading raises TypeError
  C16:device-parameter-idx-zero-dropped          DeviceParameter(idx=0) comes back with idx=None
  C16:empty-points-sweep-indexerror              sweep_to_proto(cirq.Points(key, [])) raises IndexError
  C16:finite-random-variable-values-depend-on-distribution-order   the drawn values depend on dict order, which the proto map loses
"""
from __future__ import annotations

import copy
import gzip
import math

import numpy as np

from vf.refmodel import gates as G
from vf.refmodel import linalg as L
from vf.refmodel import wire_model as W
from vf.workloads import wire_programs as WP


class Reject(Exception):
    """generated case outside the documented domain (caught by the section wrapper below)"""

PACKAGES = ["cirq_google"]
LEVEL = "exploration"
RULE = ("programs: 1-8 grid/line/named qubits, 5-60 operations over the vocabulary of CircuitSerializer._serialize_gate_op, "
        "built from per-circuit palettes so that exact second/third uses, equal gates on other qubits, equal ops with other "
        "tags, arguments differing in the 7th digit, +-0.0, copied and nearly-copied moments and sub-circuits all occur; "
        "non-trivial = at least 2 constants-table hits (an operation, moment, tag or sub-circuit used again) and >= 5 operations; "
        "distinct by the abstract program.  sweeps: random nestings of Linspace/Points/const/Zip/ZipLongest/Product/Concat/"
        "ListSweep with metadata, units, float32 and float64 encodings; non-trivial = more than one assignment or metadata.  "
        "results: every repetition count 0..70, 1-3 instances, 1-70 qubits; non-trivial = at least one set bit and reps not a "
        "multiple of 8 or >1 key.  devices: random gate lists / qubit sets / pair sets; non-trivial = >= 2 gates and >= 1 pair.  "
        "args: every branch of arg_to_proto (scalars, uniform and mixed containers, ndarrays of 11 dtypes, units, expressions), "
        "conditions, Clifford tableaux, InternalGate messages, ArgMappings; distinct by value.")
ASSUMPTIONS = [
    "equality of operations is Cirq's value equality, so two uses that Cirq itself considers equal (X**1 and X**-1, "
    "PhasedXZ gates with one canonical form, tags 1 and True) may come back as either spelling; the comparator accepts "
    "a parameter mismatch only when the documented matrices of both spellings agree up to global phase",
    "uniform numeric tuples / sets in raw arguments come back as lists (the documented ARG_RETURN_LIKE types)",
    "DeviceParameter.value has no wire field and is left None; MeasurementGate confusion maps and key paths are not part of "
    "the serializable vocabulary",
    "qubit names that look like grid / line / coupler ids are parsed as such (documented in qubit_from_proto_id) and are not generated",
    "float32 tolerance rel 2e-7*|x| + 1e-7 (DESIGN 4.1); symbolic expressions compared by value at 3 points, tol 1e-5",
]
MIN_EVAL = {"v1-program-roundtrip": 100, "program-structure": 100, "program-unitary": 20, "proto-constants": 100, "sweep-assignments": 200,
            "pack-bits": 100, "results-roundtrip": 50, "device-validate": 200, "device-roundtrip": 20}
MUST_REACH = [
    "cirq_google/serialization/circuit_serializer.py:CircuitSerializer._serialize_circuit",
    "cirq_google/serialization/circuit_serializer.py:CircuitSerializer._serialize_gate_op",
    "cirq_google/serialization/circuit_serializer.py:CircuitSerializer._serialize_tag",
    "cirq_google/serialization/circuit_serializer.py:CircuitSerializer._serialize_circuit_op",
    "cirq_google/serialization/circuit_serializer.py:CircuitSerializer._deserialize_constants",
    "cirq_google/serialization/circuit_serializer.py:CircuitSerializer._deserialize_gate_op",
    "cirq_google/serialization/circuit_serializer.py:CircuitSerializer._deserialize_tag",
    "cirq_google/serialization/circuit_serializer.py:CircuitSerializer.serialize_multi_program",
    "cirq_google/serialization/circuit_serializer.py:CircuitSerializer.serialize_circuit_function",
    "cirq_google/serialization/op_serializer.py:CircuitOpSerializer.to_proto",
    "cirq_google/serialization/op_deserializer.py:CircuitOpDeserializer.from_proto",
    "cirq_google/serialization/arg_func_langs.py:arg_to_proto",
    "cirq_google/serialization/arg_func_langs.py:arg_from_proto",
    "cirq_google/serialization/arg_func_langs.py:condition_to_proto",
    "cirq_google/serialization/arg_func_langs.py:condition_from_proto",
    "cirq_google/serialization/arg_func_langs.py:clifford_tableau_from_proto",
    "cirq_google/serialization/arg_func_langs.py:internal_gate_from_proto",
    "cirq_google/api/v2/sweeps.py:sweep_to_proto",
    "cirq_google/api/v2/sweeps.py:sweep_from_proto",
    "cirq_google/api/v2/sweeps.py:run_context_to_proto",
    "cirq_google/api/v2/results.py:pack_bits",
    "cirq_google/api/v2/results.py:unpack_bits",
    "cirq_google/api/v2/results.py:results_to_proto",
    "cirq_google/api/v2/results.py:results_from_proto",
    "cirq_google/api/v2/results.py:find_measurements",
    "cirq_google/api/v1/programs.py:gate_to_proto",
    "cirq_google/api/v1/programs.py:xmon_op_from_proto",
    "cirq_google/api/v1/programs.py:pack_results",
    "cirq_google/api/v1/programs.py:unpack_results",
    "cirq_google/devices/grid_device.py:GridDevice.from_proto",
    "cirq_google/devices/grid_device.py:GridDevice.to_proto",
    "cirq_google/devices/grid_device.py:_validate_device_specification",
    "cirq_google/devices/grid_device.py:_serialize_gateset_and_gate_durations",
    "cirq_google/devices/grid_device.py:GridDevice._validate_operations",
]

_S = {}
_KNOWN_SEEN = {}
K_INVERTED_IDS = "C16:inverted-repetitions-with-custom-ids-lose-the-inversion"
KNOWN_RANDOM_MECHS = ("C16:moment-tags-lost-on-constants-hit", "C16:finite-random-variable-values-depend-on-distribution-order")


def check_known(ctx, cond, monitor, mech, msg, **wit):
    """ctx.check, except that a mechanism which the *random* sections classify explained-by style is stored at
    most 3 times per shard (further witnesses are counted as events) so that it cannot crowd out other findings."""
    if not cond and mech in KNOWN_RANDOM_MECHS:
        _KNOWN_SEEN[mech] = _KNOWN_SEEN.get(mech, 0) + 1
        if _KNOWN_SEEN[mech] > 3:
            ctx.ok(monitor)
            ctx.event("further-witness:" + mech)
            return False
    return ctx.check(cond, monitor, mech, msg, **wit)


def setup(ctx):
    import warnings

    import cirq
    import cirq_google
    import sympy
    import tunits

    warnings.filterwarnings("ignore")
    _S.update(cirq=cirq, cg=cirq_google, sympy=sympy, tunits=tunits)
    _S["cliffords"] = list(cirq.SingleQubitCliffordGate.all_single_qubit_cliffords)
    from cirq_google.api import v1, v2
    from cirq_google.serialization import arg_func_langs

    _S.update(v1=v1, v2=v2, afl=arg_func_langs, S=cirq_google.CIRCUIT_SERIALIZER)


# =============================================================================================== values
def is_marker(v, name=None):
    return isinstance(v, tuple) and len(v) >= 2 and isinstance(v[0], str) and v[0] in ("sym", "expr", "tu", "rat") and (
        name is None or v[0] == name)


def b_const(c):
    sympy = _S["sympy"]
    if c == "pi":
        return sympy.pi
    if isinstance(c, tuple) and c[0] == "rat":
        return sympy.Rational(c[1], c[2])
    return c


def b_expr(v):
    sympy = _S["sympy"]
    _, t, (n1, n2), (c1, c2) = v
    s1, s2 = sympy.Symbol(n1), sympy.Symbol(n2)
    c1, c2 = b_const(c1), b_const(c2)
    e = [lambda: c1 * s1, lambda: s1 + c2, lambda: s1 + s2, lambda: s1 * s2, lambda: s1 ** 2,
         lambda: c1 * s1 + s2 - c2, lambda: s1 / s2, lambda: -s1, lambda: s1 - s2, lambda: 2 ** s1][t]()
    if not e.free_symbols:
        return float(e)
    return e


def b_val(v):
    """value spec -> python / sympy / tunits value (recursing through literal containers)"""
    if is_marker(v):
        if v[0] == "sym":
            return _S["sympy"].Symbol(v[1])
        if v[0] == "expr":
            return b_expr(v)
        if v[0] == "tu":
            return v[1] * getattr(_S["tunits"], v[2])
    if isinstance(v, tuple):
        return tuple(b_val(x) for x in v)
    if isinstance(v, list):
        return [b_val(x) for x in v]
    if isinstance(v, frozenset):
        return frozenset(b_val(x) for x in v)
    return v


def is_real(x):
    return isinstance(x, (int, float, np.integer, np.floating)) and not isinstance(x, (bool, np.bool_))


def is_realish(x):
    return isinstance(x, (int, float, bool, np.integer, np.floating, np.bool_))


def sym_eval_points(names):
    pts = []
    for k in range(3):
        pts.append({n: 0.6 + 0.17 * i + 0.11 * k for i, n in enumerate(sorted(names))})
    return pts


def cmp_sym(exp, got):
    """sympy expressions equal as expressions: same free symbols, same value at 3 points (float32 constants)"""
    sympy = _S["sympy"]
    if not isinstance(got, sympy.Basic):
        return "expected expression %s, got %r" % (exp, got)
    en = sorted(str(s) for s in exp.free_symbols)
    gn = sorted(str(s) for s in got.free_symbols)
    if en != gn:
        return "free symbols %s != %s" % (gn, en)
    for pt in sym_eval_points(en):
        sub = {sympy.Symbol(n): v for n, v in pt.items()}
        a, b = complex(exp.subs(sub)), complex(got.subs(sub))
        if abs(a - b) > 1e-5 * (1 + abs(a)):
            return "expression value %r != %r at %s" % (b, a, pt)
    return None


def cmp_num(exp, got, prec="f32"):
    if not is_realish(got):
        sympy = _S["sympy"]
        if isinstance(got, sympy.Basic) and not got.free_symbols:
            got = float(got)
        else:
            return "expected number %r, got %r" % (exp, got)
    if prec == "f64":
        return None if float(exp) == float(got) else "%r != %r (double field)" % (got, exp)
    return None if W.f32_close(exp, got) else "%r != %r beyond single precision" % (got, exp)


def cmp_param(exp, got, prec="f32"):
    """exp: built value (number or sympy); got: deserialized value"""
    sympy = _S["sympy"]
    if isinstance(exp, sympy.Basic):
        if exp.free_symbols:
            return cmp_sym(exp, got)
        exp = float(exp)
    return cmp_num(exp, got, prec)


_MODE = {"orig": False, "ignore_moment_tags": False}  # orig: comparator run on the original circuit (self-check)
_MT = []  # (moment spec, deserialized moment) pairs whose moment tags differ, filled by cmp_circuit


def uniform_numeric(seq):
    return len(seq) > 0 and all(is_realish(x) for x in seq)


def cmp_arg(exp, got, prec="f32"):
    """Raw argument values (InternalGate / InternalTag args, raw tags): exp is the *built* original."""
    sympy, tunits = _S["sympy"], _S["tunits"]
    if exp is None:
        return None if got is None else "expected None, got %r" % (got,)
    if isinstance(exp, sympy.Basic):
        return cmp_param(exp, got)
    if isinstance(exp, tunits.Value):
        if not isinstance(got, tunits.Value):
            return "expected value with unit %s, got %r" % (exp, got)
        try:
            x = got[exp.unit]
        except Exception as e:  # noqa
            return "unit mismatch %s vs %s (%s)" % (got, exp, type(e).__name__)
        return None if float(x) == float(exp[exp.unit]) else "%s != %s" % (got, exp)
    if isinstance(exp, (bool, np.bool_)):
        return None if is_realish(got) and got == exp else "%r != %r" % (got, exp)
    if is_real(exp):
        return cmp_num(exp, got, prec)
    if isinstance(exp, complex):
        return None if isinstance(got, complex) and got == exp else "%r != %r" % (got, exp)
    if isinstance(exp, (str, bytes)):
        return None if type(got) is type(exp) and got == exp else "%r != %r" % (got, exp)
    if isinstance(exp, np.ndarray):
        ok = isinstance(got, np.ndarray) and got.dtype == exp.dtype and got.shape == exp.shape and np.array_equal(got, exp)
        return None if ok else "ndarray %r != %r" % (got, exp)
    if isinstance(exp, (list, tuple, set, frozenset)):
        seq = list(exp)
        if uniform_numeric(seq) or (isinstance(exp, list) and seq and all(isinstance(x, str) for x in seq)):
            # repeated bool / int64 / double / string field -> documented return type is a list
            if _MODE["orig"] and type(got) is type(exp):
                got = list(got)
            if not isinstance(got, list) or len(got) != len(seq):
                return "expected list of %d, got %r" % (len(seq), got)
            if isinstance(exp, (set, frozenset)):
                return None if sorted(map(float, got)) == sorted(map(float, seq)) else "%r != %r" % (got, exp)
            allint = all(isinstance(x, (bool, int, np.integer, np.bool_)) for x in seq)
            for i, (a, b) in enumerate(zip(seq, got)):
                if isinstance(a, str):
                    if a != b:
                        return "[%d] %r != %r" % (i, b, a)
                    continue
                if not is_realish(b) or float(a) != float(b):
                    return "[%d] %r != %r (%s field)" % (i, b, a, "int64" if allint else "double")
            return None
        if type(got) is not type(exp) or len(got) != len(seq):
            return "expected %s of %d, got %r" % (type(exp).__name__, len(seq), got)
        if isinstance(exp, (set, frozenset)):
            rest = list(got)
            for a in seq:
                hit = next((b for b in rest if cmp_arg(a, b) is None), None)
                if hit is None:
                    return "element %r missing from %r" % (a, got)
                rest.remove(hit)
            return None
        for i, (a, b) in enumerate(zip(seq, got)):
            r = cmp_arg(a, b)
            if r:
                return "[%d] %s" % (i, r)
        return None
    if isinstance(exp, dict):
        if not isinstance(got, dict) or sorted(map(str, exp)) != sorted(map(str, got)):
            return "keys %r != %r" % (sorted(map(str, got)) if isinstance(got, dict) else got, sorted(map(str, exp)))
        gk = {str(k): v for k, v in got.items()}
        for k, v in exp.items():
            r = cmp_arg(v, gk[str(k)])
            if r:
                return "[%s] %s" % (k, r)
        return None
    return None if got == exp else "%r != %r" % (got, exp)


# =============================================================================================== builders
def b_qubit(q):
    cirq = _S["cirq"]
    if q[0] == "g":
        return cirq.GridQubit(q[1], q[2])
    if q[0] == "l":
        return cirq.LineQubit(q[1])
    return cirq.NamedQubit(q[1])


def x_qubit(q):
    cirq = _S["cirq"]
    if isinstance(q, cirq.GridQubit):
        return ("g", q.row, q.col)
    if isinstance(q, cirq.LineQubit):
        return ("l", q.x)
    if isinstance(q, cirq.NamedQubit):
        return ("n", q.name)
    return ("?", repr(q))


def qubit_id(q):
    return "%d_%d" % (q[1], q[2]) if q[0] == "g" else str(q[1])


def b_tag(t):
    cg = _S["cg"]
    k = t[0]
    if k == "physz":
        return cg.PhysicalZTag()
    if k == "fsimvia":
        return cg.FSimViaModelTag()
    if k == "twopulse":
        return cg.TwoPulseFSimTag()
    if k == "compress":
        return cg.CompressDurationTag()
    if k == "cal":
        return cg.CalibrationTag(t[1])
    if k == "dd":
        return cg.ops.DynamicalDecouplingTag(t[1])
    if k == "internal":
        return cg.InternalTag(name=t[1], package=t[2], **{a: b_val(v) for a, v in t[3]})
    return b_val(t[1])


def cmp_tag(t, got):
    cg = _S["cg"]
    k = t[0]
    simple = {"physz": cg.PhysicalZTag, "fsimvia": cg.FSimViaModelTag, "twopulse": cg.TwoPulseFSimTag,
              "compress": cg.CompressDurationTag}
    if k in simple:
        return None if type(got) is simple[k] else "expected %s, got %r" % (simple[k].__name__, got)
    if k == "cal":
        return None if type(got) is cg.CalibrationTag and got.token == t[1] else "expected CalibrationTag(%r), got %r" % (t[1], got)
    if k == "dd":
        ok = type(got) is cg.ops.DynamicalDecouplingTag and got.protocol == t[1]
        return None if ok else "expected DynamicalDecouplingTag(%r), got %r" % (t[1], got)
    if k == "internal":
        if type(got) is not cg.InternalTag:
            return "expected InternalTag, got %r" % (got,)
        if got.name != t[1] or got.package != t[2]:
            return "InternalTag name/package %r/%r != %r/%r" % (got.name, got.package, t[1], t[2])
        return cmp_arg({a: b_val(v) for a, v in t[3]}, dict(got.tag_args))
    if type(got).__module__.startswith("cirq_google"):
        return "expected raw tag %r, got %r" % (t[1], got)
    return cmp_arg(b_val(t[1]), got)


def cmp_tags(tags, got, where):
    got = list(got)
    if len(got) != len(tags):
        return ["%s: %d tags %r, expected %d %r" % (where, len(got), got, len(tags), tags)]
    out = []
    for i, (t, g) in enumerate(zip(tags, got)):
        r = cmp_tag(t, g)
        if r:
            out.append("%s: tag[%d] %s" % (where, i, r))
    return out


SYMPY_COND = 8


def b_cond_expr(t, keys, c):
    sympy = _S["sympy"]
    k1, k2 = sympy.Symbol(keys[0]), sympy.Symbol(keys[1])
    return [lambda: sympy.Eq(k1, c), lambda: sympy.Ne(k1, c), lambda: k1 > c, lambda: k1 >= c, lambda: k1 < c + 1,
            lambda: k1 <= c, lambda: sympy.And(k1 > 0, k2 < c + 2) if keys[0] != keys[1] else sympy.Eq(k1, c),
            lambda: sympy.Or(sympy.Eq(k1, c), sympy.Eq(k2, c + 1)) if keys[0] != keys[1] else k1 > c][t]()


def b_cond(c):
    cirq = _S["cirq"]
    if c[0] == "key":
        return cirq.KeyCondition(cirq.MeasurementKey(c[1]), index=c[2])
    if c[0] == "bitmask":
        return cirq.BitMaskKeyCondition(key=cirq.MeasurementKey(c[1]), index=c[2], target_value=c[3], equal_target=c[4],
                                        bitmask=c[5])
    return cirq.SympyCondition(b_cond_expr(c[1], c[2], c[3]))


def cmp_cond(c, got):
    cirq, sympy = _S["cirq"], _S["sympy"]
    if c[0] == "key":
        ok = type(got) is cirq.KeyCondition and got.key.name == c[1] and tuple(got.key.path) == () and got.index == c[2]
        return None if ok else "expected KeyCondition(%r, index=%r), got %r" % (c[1], c[2], got)
    if c[0] == "bitmask":
        ok = (type(got) is cirq.BitMaskKeyCondition and got.key.name == c[1] and tuple(got.key.path) == ()
              and got.index == c[2] and got.target_value == c[3] and bool(got.equal_target) == c[4] and got.bitmask == c[5])
        return None if ok else "expected BitMaskKeyCondition%r, got %r" % (c[1:], got)
    if type(got) is not cirq.SympyCondition:
        return "expected SympyCondition, got %r" % (got,)
    exp = b_cond_expr(c[1], c[2], c[3])
    en, gn = sorted(str(s) for s in exp.free_symbols), sorted(str(s) for s in got.expr.free_symbols)
    if en != gn:
        return "condition symbols %s != %s" % (gn, en)
    vals = [0, 1, 2, 3, 4, 5]
    import itertools
    for combo in itertools.product(vals, repeat=len(en)):
        sub = {sympy.Symbol(n): v for n, v in zip(en, combo)}
        if bool(exp.subs(sub)) != bool(got.expr.subs(sub)):
            return "condition %s != %s at %s" % (got.expr, exp, sub)
    return None


def cmp_conds(conds, got, where):
    got = list(got)
    out = []
    # classical controls are a set
    want, seen = [], set()
    for c in conds:
        k = repr(b_cond(c))  # different specs can build the same condition
        if k not in seen:
            seen.add(k)
            want.append(c)
    rest = list(got)
    for c in want:
        hit = next((g for g in rest if cmp_cond(c, g) is None), None)
        if hit is None:
            out.append("%s: control %r missing from %r" % (where, c, got))
        else:
            rest.remove(hit)
    if rest:
        out.append("%s: unexpected controls %r" % (where, rest))
    return out


PROTO_FIELD = {
    "XPow": "xpowgate", "YPow": "ypowgate", "ZPow": "zpowgate", "HPow": "hpowgate", "PhasedXPow": "phasedxpowgate",
    "PhasedXZ": "phasedxzgate", "Clifford": "singlequbitcliffordgate", "Identity": "identitygate", "CZPow": "czpowgate",
    "ISwapPow": "iswappowgate", "FSim": "fsimgate", "SYC": "iswaplikegate", "WILLOW": "iswaplikegate",
    "Measure": "measurementgate", "Wait": "waitgate", "WaitUnit": "wait_gate_with_unit", "Reset": "resetgate",
    "MLReset": "resetgate", "LZSReset": "resetgate", "CouplerPulse": "couplerpulsegate", "Internal": "internalgate",
    "LeakageISWAP": "internalgate", "Depol": "noisechannel", "RandomGate": "noisechannel",
    "AnalogDetuneQubit": "analog_detune_qubit", "AnalogDetuneCouplerOnly": "analog_detune_coupler_only",
}


def _eig_cls():
    cirq = _S["cirq"]
    return {"XPow": cirq.XPowGate, "YPow": cirq.YPowGate, "ZPow": cirq.ZPowGate, "HPow": cirq.HPowGate,
            "CZPow": cirq.CZPowGate, "ISwapPow": cirq.ISwapPowGate}


def b_gate(kind, p, nq=None):
    cirq, cg = _S["cirq"], _S["cg"]
    if kind in WP.EXPONENT_KINDS:
        return _eig_cls()[kind](exponent=b_val(p["exponent"]), global_shift=p.get("shift", 0.0))
    if kind == "PhasedXPow":
        return cirq.PhasedXPowGate(exponent=b_val(p["exponent"]), phase_exponent=b_val(p["phase_exponent"]),
                                   global_shift=p.get("shift", 0.0))
    if kind == "PhasedXZ":
        return cirq.PhasedXZGate(x_exponent=b_val(p["x"]), z_exponent=b_val(p["z"]), axis_phase_exponent=b_val(p["a"]))
    if kind == "FSim":
        return cirq.FSimGate(theta=b_val(p["theta"]), phi=b_val(p["phi"]))
    if kind == "SYC":
        return cg.SYC
    if kind == "WILLOW":
        return cg.WILLOW
    if kind == "Clifford":
        return _S["cliffords"][p["index"]]
    if kind == "Identity":
        return cirq.IdentityGate(p["n"])
    if kind == "Measure":
        return cirq.MeasurementGate(nq, key=p["key"], invert_mask=tuple(p["mask"]))
    if kind == "Wait":
        return cirq.WaitGate(cirq.Duration(nanos=b_val(p["nanos"])), num_qubits=p["n"])
    if kind == "WaitUnit":
        return cg.ops.WaitGateWithUnit(b_val(p["dur"]), num_qubits=p["n"])
    if kind == "Reset":
        return cirq.ResetChannel()
    if kind == "MLReset":
        return cg.ops.MultilevelResetViaResonator()
    if kind == "LZSReset":
        return cg.ops.LZSResetViaResonator()
    if kind == "LeakageISWAP":
        return cg.LeakageISWAP(phase_matched=p["phase_matched"])
    if kind == "Internal":
        return cg.InternalGate(gate_name=p["name"], gate_module=p["module"], num_qubits=p["n"],
                               **{a: b_val(v) for a, v in p["args"]})
    if kind == "Depol":
        return cirq.DepolarizingChannel(p=p["p"], n_qubits=p["n"])
    if kind == "RandomGate":
        return cirq.RandomGateChannel(sub_gate=b_gate(p["sub"], p["sub_p"], nq), probability=p["p"])
    if kind == "CouplerPulse":
        return cg.experimental.CouplerPulse(hold_time=cirq.Duration(picos=p["hold_ps"]), coupling_mhz=b_val(p["coupling"]),
                                            rise_time=cirq.Duration(picos=p["rise_ps"]),
                                            padding_time=cirq.Duration(picos=p["pad_ps"]),
                                            q0_detune_mhz=b_val(p["q0"]), q1_detune_mhz=b_val(p["q1"]))
    if kind == "AnalogDetuneQubit":
        d = lambda x: None if x is None else {k: b_val(v) for k, v in x}  # noqa: E731
        return cg.ops.AnalogDetuneQubit(length=b_val(p["length"]), w=b_val(p["w"]), target_freq=b_val(p["target_freq"]),
                                        prev_freq=b_val(p["prev_freq"]), neighbor_coupler_g_dict=d(p["g"]),
                                        prev_neighbor_coupler_g_dict=d(p["prev_g"]), linear_rise=p["linear_rise"])
    if kind == "AnalogDetuneCouplerOnly":
        return cg.ops.AnalogDetuneCouplerOnly(
            length=b_val(p["length"]), w=b_val(p["w"]), g_0=b_val(p["g_0"]), g_max=b_val(p["g_max"]),
            g_ramp_exponent=p["g_ramp_exponent"], neighbor_qubits_freq=tuple(b_val(x) for x in p["nf"]),
            prev_neighbor_qubits_freq=tuple(b_val(x) for x in p["pnf"]), interpolate_coupling_cal=p["interp"],
            analog_cal_for_pulseshaping=p["acal"])
    raise ValueError(kind)


def _matrix_for(kind, vals):
    """Documented matrix of a numeric gate spelling (catalogue), shift 0 - global phase is not compared."""
    if kind in WP.EXPONENT_KINDS:
        return G.eigen_gate(kind, vals[0])
    if kind == "PhasedXPow":
        return G.phased_xpow(vals[1], vals[0])
    if kind == "PhasedXZ":
        return G.phased_xz(*vals)
    if kind == "FSim":
        return G.fsim(*vals)
    return None


def cmp_numeric_gate(ctx, kind, names, exps, gots, where):
    """Per-field compare; a field mismatch is accepted only when both spellings have the same documented
    matrix up to global phase (two uses that Cirq's value equality identifies share one constant)."""
    sympy = _S["sympy"]
    errs = []
    for n, e, g in zip(names, exps, gots):
        r = cmp_param(e, g)
        period = {"phase_exponent": 2.0, "a": 2.0, "theta": 2 * math.pi, "phi": 2 * math.pi}.get(n)
        if r and period and is_realish(e) and is_realish(g):
            # Z^p X^t Z^-p is exactly 2-periodic in p (Z^2 = I), FSim(theta, phi) exactly 2pi-periodic in both
            # angles; the constructors canonicalise these arguments
            d = (float(e) - float(g)) % period
            if min(d, period - d) <= 4e-7 * max(1.0, abs(float(e))) + 1e-7:
                r = None
        if r:
            errs.append("%s.%s %s" % (where, n, r))
    if not errs:
        return []
    allnum = all(not (isinstance(e, sympy.Basic) and e.free_symbols) for e in exps) and all(is_realish(g) for g in gots)
    if allnum:
        a, b = _matrix_for(kind, [float(e) for e in exps]), _matrix_for(kind, [float(g) for g in gots])
        if a is not None and L.phase_equal(a, b, 2e-6):
            ctx.event("equal-under-gate-equality:" + kind)
            return []
    else:
        # some fields are symbolic (and compared equal above), the mismatch sits in numeric ones, e.g.
        # PhasedXPowGate(phase_exponent=b, exponent=1.0) vs exponent=-1: the same matrix for every b, so Cirq's value
        # equality identifies them and they share one constant.  Compared at two probe points of the symbols.
        syms = sorted({x for v in list(exps) + list(gots) if isinstance(v, sympy.Basic) for x in v.free_symbols}, key=str)
        same = True
        for probe in (0.37, -1.21):
            sub = {x: probe + 0.173 * i for i, x in enumerate(syms)}
            try:
                ev = [float(v.subs(sub)) if isinstance(v, sympy.Basic) else float(v) for v in exps]
                gv = [float(v.subs(sub)) if isinstance(v, sympy.Basic) else float(v) for v in gots]
            except (TypeError, ValueError):
                same = False
                break
            a, b = _matrix_for(kind, ev), _matrix_for(kind, gv)
            if a is None or not L.phase_equal(a, b, 2e-6):
                same = False
                break
        if same and syms:
            ctx.event("equal-under-gate-equality:" + kind)
            return []
    return errs


def cmp_gate(ctx, kind, p, gate, where, nq=None):
    """Returns a list of mismatch descriptions between the expected gate spec and the deserialized gate."""
    cirq, cg = _S["cirq"], _S["cg"]
    if kind in WP.EXPONENT_KINDS:
        cls = _eig_cls()[kind]
        if type(gate) is not cls:
            return ["%s: gate type %s, expected %s" % (where, type(gate).__name__, cls.__name__)]
        return cmp_numeric_gate(ctx, kind, ["exponent"], [b_val(p["exponent"])], [gate.exponent], where)
    if kind == "PhasedXPow":
        if type(gate) is not cirq.PhasedXPowGate:
            return ["%s: gate type %s, expected PhasedXPowGate" % (where, type(gate).__name__)]
        return cmp_numeric_gate(ctx, kind, ["exponent", "phase_exponent"], [b_val(p["exponent"]), b_val(p["phase_exponent"])],
                                [gate.exponent, gate.phase_exponent], where)
    if kind == "PhasedXZ":
        if type(gate) is not cirq.PhasedXZGate:
            return ["%s: gate type %s, expected PhasedXZGate" % (where, type(gate).__name__)]
        return cmp_numeric_gate(ctx, kind, ["x", "z", "a"], [b_val(p["x"]), b_val(p["z"]), b_val(p["a"])],
                                [gate.x_exponent, gate.z_exponent, gate.axis_phase_exponent], where)
    if kind == "FSim":
        if type(gate) is not cirq.FSimGate:
            return ["%s: gate type %s, expected FSimGate" % (where, type(gate).__name__)]
        return cmp_numeric_gate(ctx, kind, ["theta", "phi"], [b_val(p["theta"]), b_val(p["phi"])], [gate.theta, gate.phi], where)
    if kind in ("SYC", "WILLOW"):
        cls = cg.SycamoreGate if kind == "SYC" else cg.WillowGate
        return [] if type(gate) is cls else ["%s: gate type %s, expected %s" % (where, type(gate).__name__, cls.__name__)]
    if kind == "Clifford":
        if type(gate) is not cirq.SingleQubitCliffordGate:
            return ["%s: gate type %s, expected SingleQubitCliffordGate" % (where, type(gate).__name__)]
        a, b = _S["cliffords"][p["index"]].clifford_tableau, gate.clifford_tableau
        ok = all(np.array_equal(np.asarray(getattr(a, f)), np.asarray(getattr(b, f))) for f in ("xs", "zs", "rs")) and a.n == b.n
        return [] if ok else ["%s: Clifford tableau differs from clifford #%d" % (where, p["index"])]
    if kind == "Identity":
        ok = type(gate) is cirq.IdentityGate and tuple(cirq.qid_shape(gate)) == (2,) * p["n"]
        return [] if ok else ["%s: expected IdentityGate(%d), got %r" % (where, p["n"], gate)]
    if kind == "Measure":
        if type(gate) is not cirq.MeasurementGate:
            return ["%s: gate type %s, expected MeasurementGate" % (where, type(gate).__name__)]
        n = nq
        full = tuple(p["mask"]) + (False,) * (n - len(p["mask"]))
        errs = []
        if gate.key != p["key"]:
            errs.append("%s: measurement key %r != %r" % (where, gate.key, p["key"]))
        if tuple(bool(b) for b in gate.full_invert_mask()) != full:
            errs.append("%s: invert mask %r != %r" % (where, gate.full_invert_mask(), full))
        if gate.num_qubits() != n:
            errs.append("%s: measurement width %d != %d" % (where, gate.num_qubits(), n))
        return errs
    if kind == "Wait":
        if type(gate) is cg.ops.WaitGateWithUnit and is_realish(b_val(p["nanos"])):
            # WaitGateWithUnit(d) == WaitGate(d) under Cirq's value equality: one constant serves both spellings
            ctx.event("equal-under-gate-equality:Wait")
        elif type(gate) is not cirq.WaitGate:
            return ["%s: gate type %s, expected WaitGate" % (where, type(gate).__name__)]
        errs = []
        r = cmp_param(b_val(p["nanos"]), gate.duration.total_nanos())
        if r:
            errs.append("%s.duration_nanos %s" % (where, r))
        if gate.num_qubits() != p["n"]:
            errs.append("%s: wait width %d != %d" % (where, gate.num_qubits(), p["n"]))
        return errs
    if kind == "WaitUnit":
        if type(gate) is cirq.WaitGate:
            ctx.event("equal-under-gate-equality:WaitUnit")
        elif type(gate) is not cg.ops.WaitGateWithUnit:
            return ["%s: gate type %s, expected WaitGateWithUnit" % (where, type(gate).__name__)]
        errs = []
        want_ns = p["dur"][1] * {"ns": 1.0, "us": 1e3, "ms": 1e6}[p["dur"][2]]
        got_ns = gate.duration.total_nanos()
        if not is_realish(got_ns) or abs(float(got_ns) - want_ns) > 1e-9 * max(1.0, abs(want_ns)):
            errs.append("%s.duration %r ns != %r ns" % (where, got_ns, want_ns))
        if gate.num_qubits() != p["n"]:
            errs.append("%s: wait width %d != %d" % (where, gate.num_qubits(), p["n"]))
        return errs
    if kind == "Reset":
        ok = type(gate) is cirq.ResetChannel and gate.dimension == 2
        return [] if ok else ["%s: expected ResetChannel(2), got %r" % (where, gate)]
    if kind in ("MLReset", "LZSReset"):
        cls = cg.ops.MultilevelResetViaResonator if kind == "MLReset" else cg.ops.LZSResetViaResonator
        return [] if type(gate) is cls else ["%s: gate type %s, expected %s" % (where, type(gate).__name__, cls.__name__)]
    if kind == "LeakageISWAP":
        ok = type(gate) is cg.LeakageISWAP and bool(gate.phase_matched) == p["phase_matched"]
        return [] if ok else ["%s: expected LeakageISWAP(%s), got %r" % (where, p["phase_matched"], gate)]
    if kind == "Internal":
        if type(gate) is not cg.InternalGate:
            return ["%s: gate type %s, expected InternalGate" % (where, type(gate).__name__)]
        errs = []
        if gate.gate_name != p["name"] or (gate.gate_module or "") != p["module"] or gate.num_qubits() != p["n"]:
            errs.append("%s: InternalGate header %r/%r/%d != %r/%r/%d" % (where, gate.gate_name, gate.gate_module,
                                                                        gate.num_qubits(), p["name"], p["module"], p["n"]))
        r = cmp_arg({a: b_val(v) for a, v in p["args"]}, dict(gate.gate_args))
        if r:
            errs.append("%s.gate_args%s" % (where, r))
        if gate.custom_args:
            errs.append("%s: unexpected custom args" % where)
        return errs
    if kind == "Depol":
        if type(gate) is not cirq.DepolarizingChannel:
            return ["%s: gate type %s, expected DepolarizingChannel" % (where, type(gate).__name__)]
        errs = []
        r = cmp_num(p["p"], gate.p)
        if r:
            errs.append("%s.p %s" % (where, r))
        if gate.n_qubits != p["n"]:
            errs.append("%s: n_qubits %d != %d" % (where, gate.n_qubits, p["n"]))
        return errs
    if kind == "RandomGate":
        if type(gate) is not cirq.RandomGateChannel:
            return ["%s: gate type %s, expected RandomGateChannel" % (where, type(gate).__name__)]
        errs = []
        r = cmp_num(p["p"], gate.probability)
        if r:
            errs.append("%s.probability %s" % (where, r))
        return errs + cmp_gate(ctx, p["sub"], p["sub_p"], gate.sub_gate, where + ".sub_gate", nq)
    if kind == "CouplerPulse":
        if type(gate) is not cg.experimental.CouplerPulse:
            return ["%s: gate type %s, expected CouplerPulse" % (where, type(gate).__name__)]
        errs = []
        for n, e, g in [("hold_time_ps", p["hold_ps"], gate.hold_time.total_picos()),
                        ("rise_time_ps", p["rise_ps"], gate.rise_time.total_picos()),
                        ("padding_time_ps", p["pad_ps"], gate.padding_time.total_picos()),
                        ("coupling_mhz", b_val(p["coupling"]), gate.coupling_mhz),
                        ("q0_detune_mhz", b_val(p["q0"]), gate.q0_detune_mhz),
                        ("q1_detune_mhz", b_val(p["q1"]), gate.q1_detune_mhz)]:
            r = cmp_param(e, g)
            if r:
                errs.append("%s.%s %s" % (where, n, r))
        return errs
    if kind == "AnalogDetuneQubit":
        if type(gate) is not cg.ops.AnalogDetuneQubit:
            return ["%s: gate type %s, expected AnalogDetuneQubit" % (where, type(gate).__name__)]
        errs = []
        d = lambda x: None if x is None else {k: b_val(v) for k, v in x}  # noqa: E731
        for n, e, g in [("length", b_val(p["length"]), gate.length), ("w", b_val(p["w"]), gate.w),
                        ("target_freq", b_val(p["target_freq"]), gate.target_freq),
                        ("prev_freq", b_val(p["prev_freq"]), gate.prev_freq),
                        ("neighbor_coupler_g_dict", d(p["g"]), gate.neighbor_coupler_g_dict),
                        ("prev_neighbor_coupler_g_dict", d(p["prev_g"]), gate.prev_neighbor_coupler_g_dict),
                        ("linear_rise", p["linear_rise"], gate.linear_rise)]:
            r = cmp_arg(e, g)
            if r:
                errs.append("%s.%s %s" % (where, n, r))
        return errs
    if kind == "AnalogDetuneCouplerOnly":
        if type(gate) is not cg.ops.AnalogDetuneCouplerOnly:
            return ["%s: gate type %s, expected AnalogDetuneCouplerOnly" % (where, type(gate).__name__)]
        errs = []
        for n, e, g in [("length", b_val(p["length"]), gate.length), ("w", b_val(p["w"]), gate.w),
                        ("g_0", b_val(p["g_0"]), gate.g_0), ("g_max", b_val(p["g_max"]), gate.g_max),
                        ("g_ramp_exponent", p["g_ramp_exponent"], gate.g_ramp_exponent),
                        ("neighbor_qubits_freq", tuple(b_val(x) for x in p["nf"]), tuple(gate.neighbor_qubits_freq)),
                        ("prev_neighbor_qubits_freq", tuple(b_val(x) for x in p["pnf"]), tuple(gate.prev_neighbor_qubits_freq)),
                        ("interpolate_coupling_cal", p["interp"], gate.interpolate_coupling_cal),
                        ("analog_cal_for_pulseshaping", p["acal"], gate.analog_cal_for_pulseshaping)]:
            if isinstance(e, tuple):  # pair of optional unit values: tuple kept as a tuple by the reader
                r = None
                if len(e) != len(g):
                    r = "%r != %r" % (g, e)
                else:
                    for a, b in zip(e, g):
                        r = r or cmp_arg(a, b)
            else:
                r = cmp_arg(e, g)
            if r:
                errs.append("%s.%s %s" % (where, n, r))
        return errs
    raise ValueError(kind)


def b_op(op):
    cirq = _S["cirq"]
    if op["k"] == "CircuitOp":
        sub = b_circuit(op["sub"]).freeze()
        kw = {}
        if op["rep_ids"] is not None:
            kw["repetition_ids"] = list(op["rep_ids"])
        co = cirq.CircuitOperation(
            sub, repetitions=op["reps"], qubit_map={b_qubit(a): b_qubit(b) for a, b in op["qmap"]},
            measurement_key_map=dict(op["kmap"]),
            param_resolver={_S["sympy"].Symbol(s): b_val(v) for s, v in op["pmap"]},
            use_repetition_ids=op["use_ids"], repeat_until=None if op["until"] is None else b_cond(op["until"]), **kw)
        out = co
        if op["c"]:
            out = out.with_classical_controls(*[b_cond(c) for c in op["c"]])
        return out
    g = b_gate(op["k"], op["p"], len(op["q"]))
    out = g.on(*[b_qubit(q) for q in op["q"]])
    if op["t"]:
        out = out.with_tags(*[b_tag(t) for t in op["t"]])
    if op["c"]:
        out = out.with_classical_controls(*[b_cond(c) for c in op["c"]])
    return out


def b_moment(m):
    cirq = _S["cirq"]
    return cirq.Moment([b_op(op) for op in m["ops"]], tags=tuple(b_tag(t) for t in m["tags"]))


def b_circuit(c):
    cirq = _S["cirq"]
    return cirq.Circuit([b_moment(m) for m in c["m"]], tags=[b_tag(t) for t in c["tags"]])


def peel(op):
    """(base operation, tags, classical controls) through the public accessors"""
    tags = tuple(op.tags)
    ctrl = list(op.classical_controls)
    base = op
    for _ in range(6):
        nxt = base.without_classical_controls().untagged
        if nxt is base:
            break
        base = nxt
    return base, tags, ctrl


def cmp_op(ctx, spec, op, where):
    cirq = _S["cirq"]
    base, tags, ctrl = peel(op)
    errs = []
    gq = [x_qubit(q) for q in base.qubits]
    if spec["k"] == "CircuitOp":
        if not isinstance(base, cirq.CircuitOperation):
            return ["%s: expected CircuitOperation, got %r" % (where, type(base).__name__)]
        errs += cmp_circuit(ctx, spec["sub"], base.circuit, where + ".circuit")
        if base.repetitions != spec["reps"]:
            errs.append("%s: repetitions %r != %r" % (where, base.repetitions, spec["reps"]))
        qm = {x_qubit(a): x_qubit(b) for a, b in base.qubit_map.items()}
        want_qm = {tuple(a): tuple(b) for a, b in spec["qmap"]}
        # identity entries carry no information
        if {a: b for a, b in qm.items() if a != b} != {a: b for a, b in want_qm.items() if a != b}:
            errs.append("%s: qubit_map %r != %r" % (where, qm, want_qm))
        if dict(base.measurement_key_map) != dict(spec["kmap"]):
            errs.append("%s: measurement_key_map %r != %r" % (where, dict(base.measurement_key_map), dict(spec["kmap"])))
        got_pm = {str(k): v for k, v in base.param_resolver.param_dict.items()}
        if sorted(got_pm) != sorted(s for s, _ in spec["pmap"]):
            errs.append("%s: param_resolver keys %r != %r" % (where, sorted(got_pm), sorted(s for s, _ in spec["pmap"])))
        else:
            for s, v in spec["pmap"]:
                r = cmp_param(b_val(v), got_pm[s])
                if r:
                    errs.append("%s.param_resolver[%s] %s" % (where, s, r))
        if bool(base.use_repetition_ids) != bool(spec["use_ids"]):
            errs.append("%s: use_repetition_ids %r != %r" % (where, base.use_repetition_ids, spec["use_ids"]))
        want_ids = spec["rep_ids"]
        if spec["use_ids"] and want_ids is None and abs(spec["reps"]) != 1:
            want_ids = [str(i) for i in range(abs(spec["reps"]))]
        got_ids = None if base.repetition_ids is None else list(base.repetition_ids)
        if (spec["use_ids"] or spec["rep_ids"] is not None) and got_ids != want_ids:
            errs.append("%s: repetition_ids %r != %r" % (where, got_ids, want_ids))
        if spec["until"] is None:
            if base.repeat_until is not None:
                errs.append("%s: unexpected repeat_until %r" % (where, base.repeat_until))
        else:
            r = cmp_cond(spec["until"], base.repeat_until)
            if r:
                errs.append("%s.repeat_until %s" % (where, r))
        if sorted(gq) != sorted(tuple(q) for q in spec["q"]):
            errs.append("%s: circuit-operation qubits %r != %r" % (where, gq, spec["q"]))
    else:
        want_q = [tuple(q) for q in spec["q"]]
        # interchangeable-qubit gates: CZ(a,b) and CZ(b,a) are one operation under Cirq's equality
        if gq != want_q and not (spec["k"] in WP.SYMMETRIC and sorted(gq) == sorted(want_q)):
            errs.append("%s: qubits %r != %r" % (where, gq, spec["q"]))
        if base.gate is None:
            errs.append("%s: operation without gate %r" % (where, base))
        else:
            errs += cmp_gate(ctx, spec["k"], spec["p"], base.gate, where, len(spec["q"]))
    errs += cmp_tags(spec["t"], tags, where)
    errs += cmp_conds(spec["c"], ctrl, where)
    return errs


def cmp_circuit(ctx, spec, circuit, where="circuit"):
    """Lock-step walk: same number of moments, per moment the same operations keyed by qubits."""
    errs = []
    moments = list(circuit.moments)
    if len(moments) != len(spec["m"]):
        return ["%s: %d moments, expected %d" % (where, len(moments), len(spec["m"]))]
    errs += cmp_tags(spec["tags"], getattr(circuit, "tags", ()), where + ".tags")
    for i, (ms, m) in enumerate(zip(spec["m"], moments)):
        w = "%s.m[%d]" % (where, i)
        ops = list(m.operations)
        if len(ops) != len(ms["ops"]):
            errs.append("%s: %d operations, expected %d" % (w, len(ops), len(ms["ops"])))
            continue
        terrs = cmp_tags(ms["tags"], getattr(m, "tags", ()), w + ".tags")
        if terrs:
            _MT.append((ms, m))
            if not _MODE["ignore_moment_tags"]:
                errs += terrs
        by_q = {}
        for op in ops:
            key = frozenset(x_qubit(q) for q in op.qubits)
            by_q.setdefault(key, []).append(op)
        for j, os_ in enumerate(ms["ops"]):
            key = frozenset(tuple(q) for q in os_["q"])
            cands = by_q.get(key, [])
            if not cands:
                errs.append("%s: no operation on qubits %r (expected %s)" % (w, sorted(key), os_["k"]))
                continue
            op = cands.pop(0)
            errs += cmp_op(ctx, os_, op, "%s.op[%d:%s]" % (w, j, os_["k"]))
        if len(errs) > 12:
            break
    return errs


# =============================================================================================== proto level
def check_proto(ctx, msg, specs, circuits_pb):
    """Every constant index in range and of the right kind, every constant referenced, and per position the
    gate field / qubit ids the abstract program has there."""
    consts = list(msg.constants)
    n = len(consts)
    kinds = [c.WhichOneof("const_value") for c in consts]
    used = set()
    errs = []

    def ref(i, kind, where):
        if not (0 <= i < n):
            errs.append("%s: constant index %d out of range (%d constants)" % (where, i, n))
            return None
        if kinds[i] != kind:
            errs.append("%s: constant %d is a %s, expected %s" % (where, i, kinds[i], kind))
            return None
        used.add(i)
        return getattr(consts[i], kind)

    def walk_op(op_pb, spec, where):
        field = op_pb.WhichOneof("gate_value")
        ids = []
        for qi in op_pb.qubit_constant_index:
            q = ref(qi, "qubit", where + ".qubit")
            ids.append(q.id if q is not None else None)
        for ti in op_pb.tag_indices:
            ref(ti, "tag_value", where + ".tag")
        if spec is not None:
            wait_alias = spec["k"] in ("Wait", "WaitUnit") and field in ("waitgate", "wait_gate_with_unit")
            if field != PROTO_FIELD[spec["k"]] and not wait_alias:
                errs.append("%s: proto gate field %r, expected %r" % (where, field, PROTO_FIELD[spec["k"]]))
            want_ids = [qubit_id(q) for q in spec["q"]]
            if ids != want_ids and not (spec["k"] in WP.SYMMETRIC and sorted(map(str, ids)) == sorted(want_ids)):
                errs.append("%s: proto qubit ids %r, expected %r" % (where, ids, [qubit_id(q) for q in spec["q"]]))
            ncond = len({repr(b_cond(c)) for c in spec["c"]})  # classical controls are a set
            if len(op_pb.conditioned_on) != ncond:
                errs.append("%s: %d conditions in proto, expected %d" % (where, len(op_pb.conditioned_on), ncond))
            if len(op_pb.qubits) or len(op_pb.tags):
                errs.append("%s: deprecated inline qubits/tags used" % where)

    def walk_circuit(c_pb, spec, where):
        if len(c_pb.moments):
            errs.append("%s: inline moments used" % where)
        for ti in c_pb.tag_indices:
            ref(ti, "tag_value", where + ".tag")
        if spec is not None and len(c_pb.moment_indices) != len(spec["m"]):
            errs.append("%s: %d moment indices, expected %d" % (where, len(c_pb.moment_indices), len(spec["m"])))
            spec = None
        for i, mi in enumerate(c_pb.moment_indices):
            m_pb = ref(mi, "moment_value", "%s.m[%d]" % (where, i))
            if m_pb is None:
                continue
            ms = spec["m"][i] if spec is not None else None
            w = "%s.m[%d]" % (where, i)
            for ti in m_pb.tag_indices:
                ref(ti, "tag_value", w + ".tag")
            gate_specs = [o for o in ms["ops"] if o["k"] != "CircuitOp"] if ms is not None else None
            cop_specs = [o for o in ms["ops"] if o["k"] == "CircuitOp"] if ms is not None else None
            if len(m_pb.operations):
                errs.append("%s: inline operations used" % w)
            if gate_specs is not None and len(m_pb.operation_indices) != len(gate_specs):
                errs.append("%s: %d operation indices, expected %d" % (w, len(m_pb.operation_indices), len(gate_specs)))
                gate_specs = None
            pool = list(gate_specs) if gate_specs is not None else None
            for j, oi in enumerate(m_pb.operation_indices):
                o_pb = ref(oi, "operation_value", "%s.op[%d]" % (w, j))
                if o_pb is not None:
                    gs = None
                    if pool is not None:
                        # Moment equality is order-insensitive: match by qubit ids, not by position
                        ids = sorted(consts[qi].qubit.id for qi in o_pb.qubit_constant_index if 0 <= qi < n and kinds[qi] == "qubit")
                        gs = next((g_ for g_ in pool if sorted(qubit_id(q) for q in g_["q"]) == ids), None)
                        if gs is None:
                            errs.append("%s.op[%d]: no operation expected on qubits %r" % (w, j, ids))
                        else:
                            pool.remove(gs)
                    walk_op(o_pb, gs, "%s.op[%d]" % (w, j))
            if cop_specs is not None and len(m_pb.circuit_operations) != len(cop_specs):
                errs.append("%s: %d circuit operations, expected %d" % (w, len(m_pb.circuit_operations), len(cop_specs)))
                cop_specs = None
            for j, co in enumerate(m_pb.circuit_operations):
                sub = ref(co.circuit_constant_index, "circuit_value", "%s.cop[%d]" % (w, j))
                if sub is not None:
                    cs = cop_specs[j] if cop_specs is not None else None
                    walk_circuit(sub, cs["sub"] if cs is not None else None, "%s.cop[%d].circuit" % (w, j))
                    if cs is not None and co.repetition_specification.WhichOneof("repetition_value") == "repetition_count":
                        if co.repetition_specification.repetition_count != cs["reps"]:
                            errs.append("%s.cop[%d]: repetition_count %d != %d" % (w, j, co.repetition_specification.repetition_count,
                                                                                  cs["reps"]))

    for c_pb, spec in zip(circuits_pb, specs):
        walk_circuit(c_pb, spec, "proto")
    # constants nested in operations of noise channels are inline; everything in the table must be referenced
    unref = [i for i in range(n) if i not in used]
    if unref:
        errs.append("unreferenced constants %r of kinds %r" % (unref[:6], [kinds[i] for i in unref[:6]]))
    if msg.language.gate_set != "v2_5":
        errs.append("language.gate_set %r" % msg.language.gate_set)
    ctx.check(not errs, "proto-constants", "C16:proto-constants-table", lambda: "; ".join(errs[:4]), errors=errs[:8])
    return n


# =============================================================================================== semantics
def flatten_ops(circuit):
    cirq = _S["cirq"]
    for op in circuit.all_operations():
        base = op.untagged
        if isinstance(base, cirq.CircuitOperation):
            yield from flatten_ops(base.mapped_circuit(deep=True))
        else:
            yield op


def circuit_unitary(circuit, qubits, resolver):
    cirq = _S["cirq"]
    if resolver:
        circuit = cirq.resolve_parameters(circuit, resolver)
    idx = {q: i for i, q in enumerate(qubits)}
    dims = [2] * len(qubits)
    u = np.eye(2 ** len(qubits), dtype=complex)
    for op in flatten_ops(circuit):
        m = cirq.unitary(op)
        u = L.embed(m, [idx[q] for q in op.qubits], dims) @ u
    return u


def _wire_rounded_pmaps(circuit):
    """the same circuit with every float in a CircuitOperation param_resolver rounded to 32 bits (what float_value holds)"""
    cirq = _S["cirq"]

    def fix(op, _):
        u = op.untagged
        if not isinstance(u, cirq.CircuitOperation):
            return op
        pd = {k: (float(np.float32(v)) if isinstance(v, float) else v) for k, v in u.param_resolver.param_dict.items()}
        new = u.replace(circuit=_wire_rounded_pmaps(u.circuit).freeze(), param_resolver=cirq.ParamResolver(pd))
        return new.with_tags(*op.tags) if op.tags else new

    return cirq.Circuit(cirq.Moment(fix(op, None) for op in m.operations) for m in circuit.moments)


def count_table_hits(spec):
    """How many uses of an operation / moment / tag / sub-circuit repeat an earlier equal one (abstract level)."""
    seen, hits = set(), 0

    def key(x):
        return repr(x)

    def walk(c):
        nonlocal hits
        k = "C" + key(c)
        if k in seen:
            hits += 1
            return
        seen.add(k)
        for m in c["m"]:
            mk = "M" + key(m)
            if mk in seen:
                hits += 1
                continue
            seen.add(mk)
            for op in m["ops"]:
                if op["k"] == "CircuitOp":
                    walk(op["sub"])
                else:
                    ok = "O" + key(op)
                    if ok in seen:
                        hits += 1
                    seen.add(ok)
                    for t in op["t"]:
                        tk = "T" + key(t)
                        if tk in seen:
                            hits += 1
                        seen.add(tk)

    walk(spec)
    return hits


def strip_private(spec):
    return spec


def all_moments(circuit):
    cirq = _S["cirq"]
    for m in circuit:
        yield m
        for op in m:
            if isinstance(op.untagged, cirq.CircuitOperation):
                yield from all_moments(op.untagged.circuit)
            elif isinstance(op.untagged, cirq.ClassicallyControlledOperation) and isinstance(
                    op.untagged.without_classical_controls(), cirq.CircuitOperation):
                yield from all_moments(op.untagged.without_classical_controls().circuit)


def structure_verdict(ctx, pairs, originals):
    """pairs: [(spec, deserialized circuit)].  Returns (errors, mechanism).  Known defect, explained-by style:
    the constants table is keyed by Moment equality, which ignores moment tags; when the only differences are
    moment tags and each wrong tag tuple is the tag tuple of another original moment that Cirq considers equal,
    the failure is classified under that mechanism."""
    del _MT[:]
    errs = []
    for i, (spec, circ) in enumerate(pairs):
        errs += [("program %d " % i if len(pairs) > 1 else "") + e for e in cmp_circuit(ctx, spec, circ)]
    if not errs:
        return [], None
    mt = list(_MT)
    _MODE["ignore_moment_tags"] = True
    try:
        rest = []
        for spec, circ in pairs:
            rest += cmp_circuit(_Quiet(), spec, circ)
    finally:
        _MODE["ignore_moment_tags"] = False
    if rest or not mt:
        return errs, "generic"
    pool = []

    def collect(c):
        for m in c["m"]:
            pool.append((m, b_moment(m)))
            for op in m["ops"]:
                if op["k"] == "CircuitOp":
                    collect(op["sub"])

    for spec, _ in pairs:
        collect(spec)
    for ms, got in mt:
        mine = b_moment(ms)
        donors = [ms_j for ms_j, built in pool if built == mine and ms_j["tags"] != ms["tags"]
                  and not cmp_tags(ms_j["tags"], got.tags, "")]
        if not donors:
            return errs, "generic"
    return errs, "C16:moment-tags-lost-on-constants-hit"


def build_or_reject(ctx, spec):
    try:
        return b_circuit(spec)
    except (ValueError, TypeError) as e:
        ctx.event("builder-rejected:" + type(e).__name__)
        raise Reject("builder:%s:%s" % (type(e).__name__, str(e).split("\n")[0][:60]))


def roundtrip_program(ctx, prog, label):
    """serialize -> deserialize one abstract program; all program monitors."""
    S = _S["S"]
    spec = prog["circuit"]
    circuit = build_or_reject(ctx, spec)
    # harness self-check: the comparator accepts the original (else the harness is wrong, not Cirq)
    _MODE["orig"] = True
    try:
        self_errs = cmp_circuit(_Quiet(), spec, circuit)
    finally:
        _MODE["orig"] = False
    if self_errs:
        raise AssertionError("comparator rejects the original circuit: %s" % self_errs[:3])
    msg = S.serialize(circuit)
    data = msg.SerializeToString()
    msg2 = type(msg)()
    msg2.ParseFromString(data)
    back = S.deserialize(msg2)
    errs, why = structure_verdict(ctx, [(spec, back)], [circuit])
    mech = "C16:program-roundtrip-structure" if why in (None, "generic") else why
    check_known(ctx, not errs, "program-structure", mech, lambda: "; ".join(errs[:3]), errors=errs[:8], program=strip_private(spec),
              label=label)
    nconst = check_proto(ctx, msg, [spec], [msg.circuit])
    n_ops = WP.count_ops(spec)
    # table pressure: strictly fewer operation constants than operation uses whenever something repeats
    hits = count_table_hits(spec)
    ctx.event("constants-table-hits", hits)
    ctx.event("constants", nconst)
    # semantic check
    cirq = _S["cirq"]
    if prog["mode"] == "unitary" and len(prog["qubits"]) <= 5 and not errs:
        qubits = sorted(circuit.all_qubits())
        resolver = None
        try:
            # anything the *original* circuit cannot do is not this property's business (C10 / C12)
            names = sorted(cirq.parameter_names(circuit))
            resolver = {n: 0.37 + 0.211 * i for i, n in enumerate(names)}
            u0 = circuit_unitary(circuit, qubits, resolver)
            if not np.isfinite(u0).all():
                # an expression of the *original* evaluates to nan/inf at the probe point (e.g. a negative base to a
                # fractional power): there is no matrix to compare against
                ctx.event("semantic-skip:original-not-finite")
                u0 = None
        except Exception as e:  # noqa: BLE001 - see comment above
            ctx.event("semantic-skip:" + type(e).__name__)
            u0 = None
        if u0 is not None:
            try:
                u1 = circuit_unitary(back, qubits, resolver)
                tol = 1e-5 * max(1.0, math.sqrt(n_ops))
                ok = L.phase_equal(u1, u0, tol)
                d = L.phase_diff(u1, u0)
                if not ok:
                    # numeric literals travel as 32-bit floats; a sub-circuit parameter map like {a: 1e-06} under an
                    # expression theta/a amplifies that rounding beyond any fixed tolerance.  The comparison is then made
                    # against the original with its parameter-map literals rounded the way the wire format rounds them.
                    u0w = circuit_unitary(_wire_rounded_pmaps(circuit), qubits, resolver)
                    if np.isfinite(u0w).all() and L.phase_equal(u1, u0w, tol):
                        ok = True
                        ctx.event("semantic-match-after-float32-rounding-of-parameter-maps")
            except Exception as e:  # noqa: BLE001 - the original could be evaluated, the round-tripped circuit cannot
                ok, d = False, "%s: %s" % (type(e).__name__, e)
            ctx.check(ok, "program-unitary", "C16:program-roundtrip-unitary",
                      lambda: "unitary of the deserialized circuit differs (up to phase) by %s" % d, program=strip_private(spec))
    ctx.distinct(("prog", repr(strip_private(spec))), nontrivial=hits >= 2 and n_ops >= 5)
    return circuit, back, msg


class _Quiet:
    def event(self, *a, **k):
        pass


# =============================================================================================== sections: programs
def sec_programs(ctx, rng, case):
    prog = WP.gen_program(rng)
    roundtrip_program(ctx, prog, "single")
    ctx.sample({"mode": prog["mode"], "qubits": prog["qubits"], "moments": len(prog["circuit"]["m"]),
                "ops": WP.count_ops(prog["circuit"]), "first_moment": strip_private(prog["circuit"])["m"][:1]})


def _subst(spec, env):
    """replace ("sym", name) by env[name] in parameters (circuit-function form)"""
    def sv(v):
        if is_marker(v, "sym") and v[1] in env:
            return env[v[1]]
        if is_marker(v):
            return v
        if isinstance(v, tuple):
            return tuple(sv(x) for x in v)
        if isinstance(v, list):
            return [sv(x) for x in v]
        if isinstance(v, dict):
            return {k: sv(x) for k, x in v.items()}
        return v
    out = copy.deepcopy(spec)
    for m in out["m"]:
        for op in m["ops"]:
            if op["k"] == "CircuitOp":
                op["sub"] = _subst(op["sub"], env)
            else:
                op["p"] = sv(op["p"])
    return out


def sec_multi(ctx, rng, case):
    """multi-program (sequence / mapping) and circuit-function forms share one constants table."""
    S = _S["S"]
    form = case % 3
    nq = int(rng.integers(1, 6))
    family = None
    qubits = WP.gen_qubits(rng, nq, family)
    if form in (0, 1):
        k = int(rng.integers(2, 5))
        st = WP.State(rng, qubits, "full" if rng.random() < 0.6 else "unitary", bool(rng.random() < 0.4))
        weights = dict(WP.W_FULL if st.mode == "full" else WP.W_UNITARY)
        specs = []
        for i in range(k):
            u = rng.random()
            if specs and u < 0.25:
                specs.append(copy.deepcopy(specs[int(rng.integers(len(specs)))]))  # the same program again
            elif specs and u < 0.45:
                c = copy.deepcopy(specs[int(rng.integers(len(specs)))])  # nearly the same program
                ms = [m for m in c["m"] if m["ops"]]
                if ms:
                    m = ms[int(rng.integers(len(ms)))]
                    m["ops"].pop(int(rng.integers(len(m["ops"]))))
                specs.append(c)
            else:
                specs.append(WP.gen_body(st, int(rng.integers(3, 25)), 0, weights))
        WP.normalise_moment_tags(specs)
        try:
            circuits = [b_circuit(s) for s in specs]
        except (ValueError, TypeError) as e:
            raise Reject("builder:%s" % type(e).__name__)
        keys = ["", "k1", "key two", "z", "k1b"][:k]
        if form == 0:
            msg = S.serialize_multi_program(circuits)
            want_keys = [""] * k
        else:
            keys = ["p%d" % i if rng.random() < 0.7 else "prog %d" % i for i in range(k)]
            msg = S.serialize_multi_program(dict(zip(keys, circuits)))
            want_keys = keys
        msg2 = type(msg)()
        msg2.ParseFromString(msg.SerializeToString())
        out = S.deserialize_multi_program(msg2)
        errs, why = [], None
        if len(out) != k:
            errs.append("%d programs came back, expected %d" % (len(out), k))
        else:
            for i, ((key, args, circ), spec) in enumerate(zip(out, specs)):
                if key != want_keys[i]:
                    errs.append("program %d key %r != %r" % (i, key, want_keys[i]))
                if tuple(args) != ():
                    errs.append("program %d unexpected args %r" % (i, args))
            serrs, why = structure_verdict(ctx, [(spec, o[2]) for spec, o in zip(specs, out)], circuits)
            why = why if not errs else "generic"
            errs += serrs
        check_known(ctx, not errs, "multi-program-structure",
                    "C16:multi-program-roundtrip" if why in (None, "generic") else why, lambda: "; ".join(errs[:3]),
                  errors=errs[:8], programs=[strip_private(s) for s in specs], form=form)
        check_proto(ctx, msg, specs, [kc.circuit for kc in msg.keyed_circuits])
        hits = sum(count_table_hits(s) for s in specs)
        ctx.distinct(("multi", form, repr([strip_private(s) for s in specs])), nontrivial=hits >= 2)
        ctx.sample({"form": ["sequence", "mapping"][form], "programs": k, "ops": [WP.count_ops(s) for s in specs]})
        return
    # circuit function over a sweep
    cirq = _S["cirq"]
    st = WP.State(rng, qubits, "unitary", True)
    st.syms = ["a", "b"]
    template = WP.gen_body(st, int(rng.integers(3, 15)), 0, {k_: v for k_, v in WP.W_UNITARY.items() if k_ != "CircuitOp"})
    WP.normalise_moment_tags([template])
    # only plain symbols can be substituted by keyword arguments
    for m in template["m"]:
        for op in m["ops"]:
            for k_, v in list(op["p"].items()):
                if is_marker(v, "expr"):
                    op["p"][k_] = ("sym", v[2][0])
    va = [float(x) for x in rng.choice([0.0, 0.25, 0.5, 0.1, 1.0, -0.5, 0.3000001, 0.3], size=int(rng.integers(1, 4)), replace=False)]
    vb = [float(x) for x in rng.choice([1.0, 2.0, 0.75, -0.25], size=int(rng.integers(1, 3)), replace=False)]
    if rng.random() < 0.5:
        sweep_spec = ("product", [("points", "a", va), ("points", "b", vb)])
        sweep = cirq.Product(cirq.Points("a", va), cirq.Points("b", vb))
    else:
        sweep_spec = ("zip", [("points", "a", va), ("points", "b", vb)])
        sweep = cirq.Zip(cirq.Points("a", va), cirq.Points("b", vb))
    as_map = bool(rng.random() < 0.4)
    calls, built = [], []

    def fn(a, b):
        s = _subst(template, {"a": a, "b": b})
        calls.append(s)
        c = b_circuit(s)
        built.append(c)
        if as_map:
            s2 = copy.deepcopy(s)
            s2["m"] = s2["m"][::-1]
            calls.append(s2)
            built.append(b_circuit(s2))
            return {"fwd": c, "rev": built[-1]}
        return c

    # the function may name only some of the sweep's parameters, or take them as **kwargs: it is called with what it
    # accepts, while every keyed circuit is labelled with the whole sweep point it was built for
    sig_form = ["a,b", "a,b", "a-only", "**kwargs"][int(rng.integers(4))]
    fn_full = fn
    if sig_form == "a-only":
        b_fixed = vb[0]

        def fn(a):  # noqa: F811
            return fn_full(a, b_fixed)
    elif sig_form == "**kwargs":
        def fn(**kw):  # noqa: F811
            return fn_full(kw["a"], kw["b"])
    try:
        msg = S.serialize_circuit_function(fn, sweep)
    except (ValueError, TypeError) as e:
        import traceback
        if any("/repo/" in f.filename and "serializ" in f.filename for f in traceback.extract_tb(e.__traceback__)[-1:]):
            raise
        raise Reject("builder:%s" % type(e).__name__)
    msg2 = type(msg)()
    msg2.ParseFromString(msg.SerializeToString())
    out = S.deserialize_multi_program(msg2)
    rows = W.enumerate_sweep(sweep_spec)
    per = 2 if as_map else 1
    errs, why = [], None
    if len(out) != len(rows) * per or len(calls) != len(out):
        errs.append("%d programs came back for %d assignments x %d" % (len(out), len(rows), per))
    else:
        for i, (key, args, circ) in enumerate(out):
            row = dict(rows[i // per])
            want_key = ["fwd", "rev"][i % per] if as_map else ""
            if key != want_key:
                errs.append("program %d key %r != %r" % (i, key, want_key))
            ga = dict(args)
            if sorted(ga) != sorted(row):
                errs.append("program %d args %r != %r" % (i, ga, row))
            else:
                for n_, v in row.items():
                    r = cmp_num(v, ga[n_])
                    if r:
                        errs.append("program %d arg %s %s" % (i, n_, r))
        serrs, why = structure_verdict(ctx, [(cs, o[2]) for cs, o in zip(calls, out)], built)
        why = why if not errs else "generic"
        errs += serrs
    check_known(ctx, not errs, "circuit-function-structure",
                "C16:circuit-function-roundtrip" if why in (None, "generic") else why, lambda: "; ".join(errs[:3]),
              errors=errs[:8], template=strip_private(template), sweep=sweep_spec, as_map=as_map, function_signature=sig_form)
    check_proto(ctx, msg, calls, [kc.circuit for kc in msg.keyed_circuits])
    ctx.distinct(("cfn", repr(strip_private(template)), repr(sweep_spec), as_map), nontrivial=len(rows) > 1)
    ctx.sample({"form": "circuit-function", "assignments": len(rows), "as_map": as_map})


N_EDGE = 21


# ---- deterministic edge cases of the program format (one mechanism each)
def _edge_roundtrip(ctx, circuit):
    S = _S["S"]
    msg = S.serialize(circuit)
    msg2 = type(msg)()
    msg2.ParseFromString(msg.SerializeToString())
    return S.deserialize(msg2), msg


def sec_prog_edges(ctx, rng, case):
    cirq, cg, sympy = _S["cirq"], _S["cg"], _S["sympy"]
    q0, q1, q2 = cirq.GridQubit(0, 0), cirq.GridQubit(0, 1), cirq.GridQubit(1, 1)
    kind = case % N_EDGE
    ctx.distinct(("edge", kind, case // N_EDGE), nontrivial=True)
    if kind == 0:  # gate-specific tag not in first position: tag order must survive
        which = (case // N_EDGE) % 3
        if which == 0:
            op = cirq.Z(q0).with_tags("a", cg.PhysicalZTag())
            want = [("raw", "a"), ("physz",)]
        elif which == 1:
            op = cirq.FSimGate(0.25, 0.5)(q0, q1).with_tags("a", cg.FSimViaModelTag())
            want = [("raw", "a"), ("fsimvia",)]
        else:
            op = cirq.FSimGate(0.25, 0.5)(q0, q1).with_tags(cg.CalibrationTag("t"), cg.TwoPulseFSimTag())
            want = [("cal", "t"), ("twopulse",)]
        back, _ = _edge_roundtrip(ctx, cirq.Circuit(op))
        got = list(list(back.all_operations())[0].tags)
        errs = cmp_tags(want, got, "op")
        ctx.check(not errs, "edge-tag-order", "C16:gate-specific-tag-moves-to-front",
                  lambda: "tags %r came back as %r (order changed: deserialized circuit != original)" % (op.tags, got),
                  op=repr(op), got=repr(got))
    elif kind == 1:  # tags on a CircuitOperation
        sub = cirq.FrozenCircuit(cirq.X(q0), cirq.CZ(q0, q1))
        op = cirq.CircuitOperation(sub, repetitions=2).with_tags("t", cg.CalibrationTag("c"))
        back, _ = _edge_roundtrip(ctx, cirq.Circuit(op))
        got = list(list(back.all_operations())[0].tags)
        errs = cmp_tags([("raw", "t"), ("cal", "c")], got, "circuit-op")
        ctx.check(not errs, "edge-circuitop-tags", "C16:circuit-operation-tags-dropped",
                  lambda: "tags of a tagged CircuitOperation came back as %r" % (got,), op=repr(op)[:300])
    elif kind == 2:  # InternalGate with list-valued arguments (documented as arg_to_proto-serializable)
        args = [dict(z=[1, 2]), dict(z=[0.5, 1.5]), dict(names=["a", "b"]), dict(arr=np.array([1.0, 2.0]))][(case // N_EDGE) % 4]
        op = cg.InternalGate("G", "mod", 1, **args)(q0)
        try:
            back, _ = _edge_roundtrip(ctx, cirq.Circuit(op))
        except TypeError as e:
            ctx.check(False, "edge-internal-gate-list-arg", "C16:internal-gate-unhashable-arg-typeerror",
                      "serialize raises TypeError(%s) for an InternalGate with a list/array argument" % e, op=repr(op))
            return
        g = list(back.all_operations())[0].gate
        r = cmp_arg(args, dict(g.gate_args))
        ctx.check(r is None, "edge-internal-gate-list-arg", "C16:internal-gate-list-arg-roundtrip", r or "", op=repr(op))
    elif kind == 3:  # symbolic repetitions: documented ValueError
        sub = cirq.FrozenCircuit(cirq.X(q0))
        op = cirq.CircuitOperation(sub, repetitions=sympy.Symbol("n"))
        try:
            _edge_roundtrip(ctx, cirq.Circuit(op))
            ctx.ok("edge-rejections")
        except ValueError as e:
            if "Cannot serialize repetitions" not in str(e):
                raise
            ctx.reject("symbolic-repetitions")
            ctx.ok("edge-rejections")
    elif kind == 4:  # both FSim tags: documented ValueError
        op = cirq.FSimGate(0.1, 0.2)(q0, q1).with_tags(cg.FSimViaModelTag(), cg.TwoPulseFSimTag())
        try:
            _edge_roundtrip(ctx, cirq.Circuit(op))
            ctx.check(False, "edge-rejections", "C16:fsim-both-tags-accepted", "FSim with both translate tags serialized")
        except ValueError as e:
            if "cannot be added to the same FSim gate" not in str(e):
                raise
            ctx.reject("fsim-both-tags")
            ctx.ok("edge-rejections")
    elif kind == 5:  # unsupported gates: documented ValueError
        op = [cirq.CNOT(q0, q1), cirq.SWAP(q0, q1), cirq.CCZ(q0, q1, q2), cirq.global_phase_operation(1j),
              cirq.X(q0).controlled_by(q1), cirq.XX(q0, q1)][(case // N_EDGE) % 6]
        try:
            _S["S"].serialize(cirq.Circuit(op))
            ctx.check(False, "edge-rejections", "C16:unsupported-gate-accepted", "unsupported %r serialized" % (op,))
        except ValueError as e:
            if "Cannot serialize op" not in str(e):
                raise
            ctx.reject("unsupported-gate")
            ctx.ok("edge-rejections")
    elif kind == 6:  # empty circuit, empty moments, frozen circuit input
        c = [cirq.Circuit(), cirq.Circuit(cirq.Moment(), cirq.Moment()), cirq.FrozenCircuit(cirq.X(q0), cirq.Moment()),
             cirq.Circuit(cirq.Moment(tags=("only-tag",)))][(case // N_EDGE) % 4]
        back, msg = _edge_roundtrip(ctx, c)
        ok = len(back) == len(c) and all(len(a) == len(b) and tuple(a.tags) == tuple(b.tags) for a, b in zip(back, c))
        ctx.check(ok, "edge-empty", "C16:empty-circuit-roundtrip", "empty circuit/moments changed: %r" % (back,))
    elif kind == 7:  # the same moment object / equal moments many times: one constant, n indices
        n = 2 + (case // N_EDGE) % 5
        m = cirq.Moment(cirq.X(q0) ** 0.5, cirq.CZ(q1, q2))
        c = cirq.Circuit([m] * n + [cirq.Moment(cirq.X(q0) ** 0.5, cirq.CZ(q2, q1) ** 0.5)] + [m])
        back, msg = _edge_roundtrip(ctx, c)
        ok = len(back) == n + 2 and back == c
        nm = sum(1 for k in msg.constants if k.WhichOneof("const_value") == "moment_value")
        ctx.check(ok and nm == 2, "edge-moment-reuse", "C16:moment-constant-reuse",
                  "repeated moments: %d moment constants, equal=%s" % (nm, ok))
    elif kind == 8:  # qubit order of symmetric gates is positional on the wire: CZ(a,b) then CZ(b,a)
        ops = [cirq.CZ(q0, q1), cirq.CZ(q1, q0), cirq.ISWAP(q0, q1) ** 0.5, cirq.ISWAP(q1, q0) ** 0.5,
               cirq.FSimGate(0.25, 0.5)(q0, q1), cirq.FSimGate(0.25, 0.5)(q1, q0)]
        c = cirq.Circuit([cirq.Moment(o) for o in ops])
        back, _ = _edge_roundtrip(ctx, c)
        got = [sorted(x_qubit(q) for q in op.qubits) for op in back.all_operations()]
        want = [sorted(x_qubit(q) for q in op.qubits) for op in ops]
        ctx.check(got == want and back == c, "edge-qubit-order", "C16:interchangeable-qubit-order",
                  "qubits %r != %r" % (got, want))
    elif kind == 9:  # negative zero / tiny / huge exponents keep their value class
        vals = [0.0, -0.0, 1e-30, 1e30, -1e-7, 3.4e38, 123456789.0, 16777217.0][(case // N_EDGE) % 8]
        c = cirq.Circuit(cirq.X(q0) ** vals, cirq.X(q1) ** (-vals))
        back, _ = _edge_roundtrip(ctx, c)
        got = [op.gate.exponent for op in back.all_operations()]
        ok = W.f32_close(got[0], vals) and W.f32_close(got[1], -vals)
        ctx.check(ok, "edge-extreme-floats", "C16:extreme-float-argument", "exponents %r for %r" % (got, vals), value=vals)
    elif kind == 10:  # deep nesting of circuit operations sharing the innermost circuit
        inner = cirq.FrozenCircuit(cirq.X(q0) ** 0.25, cirq.measure(q0, key="k"))
        mid = cirq.FrozenCircuit(cirq.CircuitOperation(inner, repetitions=2, use_repetition_ids=True),
                                 cirq.CircuitOperation(inner, qubit_map={q0: q1}, measurement_key_map={"k": "k2"}))
        top = cirq.Circuit(cirq.CircuitOperation(mid, repetitions=3, use_repetition_ids=True),
                           cirq.CircuitOperation(inner, measurement_key_map={"k": "top"}))
        back, msg = _edge_roundtrip(ctx, top)
        ncirc = sum(1 for k in msg.constants if k.WhichOneof("const_value") == "circuit_value")
        ok = back == top  # plain value equality is sufficient here: all arguments are exactly representable
        ctx.check(ok and ncirc == 2, "edge-nested-circuit-ops", "C16:nested-circuit-operation-roundtrip",
                  "nested circuit operations: equal=%s circuit constants=%d" % (ok, ncirc))
    elif kind == 11:  # measurement key / string edge values
        key = ["", "a:b" if False else "a_b", "ключ", "k" * 300, "0", "with space"][(case // N_EDGE) % 6]
        if key == "":
            key = "e"
        c = cirq.Circuit(cirq.measure(q0, q1, key=key, invert_mask=(False, True)), cirq.X(q2).with_classical_controls(key))
        back, _ = _edge_roundtrip(ctx, c)
        ops = list(back.all_operations())
        ok = ops[0].gate.key == key and tuple(ops[0].gate.full_invert_mask()) == (False, True) and \
            [str(k.key) for k in ops[1].classical_controls] == [key]
        ctx.check(ok, "edge-keys", "C16:measurement-key-string", "key %r came back as %r" % (key, ops[0].gate.key))
    elif kind == 12:  # qudit identity / reset dimension
        q3 = cirq.NamedQid("t", dimension=3) if False else None
        c = cirq.Circuit(cirq.IdentityGate(3)(q0, q1, q2), cirq.IdentityGate(1)(q0))
        back, _ = _edge_roundtrip(ctx, c)
        ok = [len(op.qubits) for op in back.all_operations()] == [3, 1]
        ctx.check(ok, "edge-identity", "C16:identity-width", "identity widths changed")
        del q3
    elif kind == 13:  # RandomGateChannel of a two-qubit gate, depolarize on 2 qubits
        p = [0.0, 1.0, 0.5, 0.125][(case // N_EDGE) % 4]
        c = cirq.Circuit(cirq.RandomGateChannel(sub_gate=cirq.CZ ** 0.5, probability=p)(q0, q1),
                         cirq.DepolarizingChannel(p=p * 0.5 + 0.125, n_qubits=2)(q1, q2))
        back, _ = _edge_roundtrip(ctx, c)
        ops = list(back.all_operations())
        ok = (type(ops[0].gate) is cirq.RandomGateChannel and ops[0].gate.probability == p
              and type(ops[0].gate.sub_gate) is cirq.CZPowGate and ops[0].gate.sub_gate.exponent == 0.5
              and type(ops[1].gate) is cirq.DepolarizingChannel and ops[1].gate.p == p * 0.5 + 0.125 and ops[1].gate.n_qubits == 2)
        ctx.check(ok, "edge-noise", "C16:noise-channel-roundtrip", "noise channels came back as %r" % (ops,))
    elif kind == 14:  # raw tags that hash-collide across types live in one table
        tags = [(1,), (True,), (1.0,), ("1",), (0,), (False,), ("",), (b"",)]
        ops = [cirq.X(q0).with_tags(*t) for t in tags]
        c = cirq.Circuit([cirq.Moment(o) for o in ops])
        back, _ = _edge_roundtrip(ctx, c)
        got = [op.tags for op in back.all_operations()]
        ok = all(len(g) == 1 and g[0] == t[0] and isinstance(g[0], (str, bytes)) == isinstance(t[0], (str, bytes))
                 for g, t in zip(got, tags))
        ctx.check(ok, "edge-raw-tag-collisions", "C16:raw-tag-hash-collision", "tags %r came back as %r" % (tags, got))
    elif kind == 16:  # depolarizing channel with an integral probability
        p, n = [(0.0, 1), (1.0, 1), (0.0, 2), (1.0, 2)][(case // N_EDGE) % 4]
        c = cirq.Circuit(cirq.DepolarizingChannel(p=p, n_qubits=n)(*[q0, q1][:n]))
        try:
            back, _ = _edge_roundtrip(ctx, c)
        except ValueError as e:
            if "cannot be symbol or None" not in str(e):
                raise
            ctx.check(False, "edge-depolarize-integral-p", "C16:depolarize-integral-probability-rejected",
                      "serialize accepts DepolarizingChannel(p=%r) but deserialize raises ValueError(%s)" % (p, e), p=p, n=n)
            return
        g = list(back.all_operations())[0].gate
        ctx.check(type(g) is cirq.DepolarizingChannel and g.p == p and g.n_qubits == n, "edge-depolarize-integral-p",
                  "C16:depolarize-integral-probability-roundtrip", "came back as %r" % (g,))
    elif kind == 17:  # moments equal up to their tags share one constant: the tags must still survive
        v = (case // N_EDGE) % 3
        m0 = cirq.Moment([cirq.X(q0), cirq.CZ(q1, q2)])
        ma = cirq.Moment([cirq.X(q0), cirq.CZ(q1, q2)], tags=("a",))
        mb = cirq.Moment([cirq.X(q0), cirq.CZ(q1, q2)], tags=("b", cg.CalibrationTag("t")))
        ms = [[m0, ma, mb], [ma, m0, mb], [mb, cirq.Moment([cirq.Y(q0)]), ma, m0]][v]
        back, _ = _edge_roundtrip(ctx, cirq.Circuit(ms))
        got = [tuple(m.tags) for m in back]
        want = [tuple(m.tags) for m in ms]
        ctx.check(got == want, "edge-moment-tags", "C16:moment-tags-lost-on-constants-hit",
                  "moment tags %r came back as %r (the constants table is keyed by Moment equality, which ignores tags)" % (want, got),
                  want=repr(want), got=repr(got))
    elif kind == 18:  # tags and classical controls together: the reader builds it, the writer rejects it (documented ValueError)
        op = cirq.X(q0).with_classical_controls("m").with_tags("t")
        try:
            _S["S"].serialize(cirq.Circuit(op))
            ctx.ok("edge-rejections")
        except ValueError as e:
            if "Cannot serialize op" not in str(e):
                raise
            ctx.reject("tagged-classically-controlled-op")
            ctx.ok("edge-rejections")
    elif kind == 20:  # an inverted sub-circuit with repetition ids of its own
        sub = cirq.FrozenCircuit(cirq.X(q0) ** 0.25, cirq.CZ(q0, q1))
        which = (case // N_EDGE) % 3
        kw = [dict(repetitions=-2, repetition_ids=["r0", "r1"], use_repetition_ids=True),
              dict(repetitions=-1, repetition_ids=["a"], use_repetition_ids=True),
              dict(repetitions=-3, repetition_ids=["x", "y", "z"], use_repetition_ids=False)][which]
        op = cirq.CircuitOperation(sub, **kw)
        back, _ = _edge_roundtrip(ctx, cirq.Circuit(op))
        got = list(back.all_operations())[0]
        same = got == op and L.allclose(cirq.unitary(back), cirq.unitary(cirq.Circuit(op)), 1e-6)
        # known defect, explained-by: the wire format holds *either* a repetition count *or* a list of ids; with ids other
        # than the default ones the count (and with it the sign) is not written and the reader takes len(ids)
        lost_sign = (not same and got.repetitions == -op.repetitions and list(got.repetition_ids or []) == list(op.repetition_ids)
                     and got.replace(repetitions=op.repetitions) == op)
        ctx.check(same, "edge-inverted-subcircuit-with-ids", K_INVERTED_IDS if lost_sign else "C16:inverted-subcircuit-with-ids",
                  lambda: "CircuitOperation(%r) came back with repetitions=%r, repetition_ids=%r" % (kw, got.repetitions, got.repetition_ids),
                  arguments=repr(kw))
    else:  # serialize into a caller-provided message; language fields
        v2 = _S["v2"]
        out = v2.program_pb2.Program()
        c = cirq.Circuit(cirq.X(q0) ** 0.5, cirq.measure(q0, key="m"))
        ret = _S["S"].serialize(c, msg=out)
        ok = ret is out and out.language.gate_set == "v2_5" and out.WhichOneof("program") == "circuit"
        back = _S["S"].deserialize(out)
        ctx.check(ok and back == c, "edge-msg-arg", "C16:serialize-into-message", "serialize(msg=...) did not fill the message")


# =============================================================================================== section: args
def gen_arg(rng, depth=0):
    """A random *built* argument value (no marker indirection), covering every branch of arg_to_proto."""
    sympy, tunits = _S["sympy"], _S["tunits"]
    u = rng.random()
    fl = lambda: float(rng.choice([0.0, -0.0, 0.5, 0.1, 1 / 3, -2.75, 1e-9, 123456.789, 3.0, float(rng.uniform(-10, 10))]))  # noqa: E731
    if u < 0.1:
        return int(rng.integers(-1000, 1000))
    if u < 0.22:
        return fl()
    if u < 0.3:
        return str(rng.choice(["", "s", "some text", "é", "a,b"]))
    if u < 0.36:
        return bool(rng.integers(2))
    if u < 0.4:
        return complex(fl(), fl())
    if u < 0.44:
        return bytes(rng.integers(0, 256, size=int(rng.integers(0, 6)), dtype=np.uint8).tolist())
    if u < 0.5:
        return [bool(b) for b in rng.integers(0, 2, size=int(rng.integers(1, 10)))]
    if u < 0.56:
        return [int(b) for b in rng.integers(-2 ** 40, 2 ** 40, size=int(rng.integers(1, 6)))]
    if u < 0.62:
        return [fl() for _ in range(int(rng.integers(1, 6)))]
    if u < 0.66:
        return [str(rng.choice(["a", "b", "", "xyz"])) for _ in range(int(rng.integers(1, 5)))]
    if u < 0.7:
        mix = [True, 3, 2.5][:int(rng.integers(2, 4))]
        return [mix[int(i)] for i in rng.permutation(len(mix))]
    if u < 0.74:
        return _S["sympy"].Symbol(str(rng.choice(["a", "b", "theta"])))
    if u < 0.79:
        return b_expr(("expr", int(rng.integers(0, WP.N_EXPR_TEMPLATES)), ("a", "b"), (float(rng.choice([2, 0.5, 0.1])), 1)))
    if u < 0.83:
        return float(rng.choice([1, 2.5, 0.1, -3])) * getattr(tunits, str(rng.choice(["ns", "us", "GHz", "MHz", "mV"])))
    if u < 0.9:
        dt = [np.float64, np.float32, np.float16, np.int64, np.int32, np.int16, np.int8, np.uint8, np.complex128, np.complex64,
              np.bool_][int(rng.integers(11))]
        shape = tuple(int(x) for x in rng.integers(1, 4, size=int(rng.integers(1, 4))))
        raw = rng.normal(size=shape) * 5
        if dt in (np.complex128, np.complex64):
            arr = (raw + 1j * rng.normal(size=shape)).astype(dt)
        elif dt is np.bool_:
            arr = raw > 0
        else:
            arr = raw.astype(dt)
        # the same values in another memory layout (Fortran order, a transposed view, every second element of a larger buffer)
        lay = rng.random()
        if lay < 0.2:
            arr = np.asfortranarray(arr)
        elif lay < 0.35:
            arr = np.ascontiguousarray(arr.T).T
        elif lay < 0.45:
            big = np.zeros(tuple(2 * d for d in arr.shape), dtype=arr.dtype)
            view = big[tuple(slice(None, None, 2) for _ in arr.shape)]
            view[...] = arr
            arr = view
        return arr
    if u < 0.92:
        return None
    if depth >= 2:
        return "leaf"
    n = int(rng.integers(0, 4))
    items = [x for x in (gen_arg(rng, depth + 1) for _ in range(n)) if x is not None]
    kind = int(rng.integers(4))
    if kind == 0:
        return items if not (items and all(isinstance(x, str) for x in items)) else items + [1]
    if kind == 1:
        return tuple(items)
    hashable = []
    for x in items:
        try:
            hash(x)
            if not isinstance(x, np.ndarray) and not any(
                    is_realish(x) and is_realish(y) and x == y and type(x) is not type(y) for y in hashable):
                hashable.append(x)
        except TypeError:
            pass
    # a mixed set: keep at least one non-number so that it is not a uniform numeric container
    # tuples inside a set: uniform numeric tuples are read back as (unhashable) lists - deterministic edge in sec_args
    hashable = [x for x in hashable if not (isinstance(x, float) and x != x) and not isinstance(x, (tuple, frozenset))]
    return frozenset(hashable + ["tag"]) if kind == 2 else set(hashable + ["tag"])


def _has_none(v):
    if v is None:
        return True
    if isinstance(v, (list, tuple, set, frozenset)):
        return any(_has_none(x) for x in v)
    return False


def sec_args(ctx, rng, case):
    cirq, cg, sympy, afl, v2 = _S["cirq"], _S["cg"], _S["sympy"], _S["afl"], _S["v2"]
    kind = case % 7
    if kind == 0 and case < 7 * 8:  # sequences containing None (tuple_value can carry an unset Arg)
        v = [[1, None], (None, 1), [1, 2.5, None], ("a", None), [None], (True, None), [None, "s"], (None, None)][case // 7]
        try:
            got = afl.arg_from_proto(afl.arg_to_proto(v))
        except IndexError as e:
            ctx.check(False, "arg-sequence-with-none", "C16:arg-sequence-with-none-indexerror",
                      "arg_to_proto(%r) raises IndexError(%s)" % (v, e), value=repr(v))
            return
        r = cmp_arg(v, got)
        ctx.check(r is None, "arg-sequence-with-none", "C16:arg-sequence-with-none-roundtrip", lambda: "%r -> %r: %s" % (v, got, r))
        ctx.distinct(("arg-none", repr(v)))
        return
    if kind == 1 and case < 7 * 4:  # a set holding a uniform numeric tuple: written as a list, which a set cannot hold
        v = [frozenset([(1, 2), "t"]), {(True, False), "t"}, frozenset([(0.5, 1.5)]), frozenset([("a", 1), "t"])][case // 7]
        try:
            got = afl.arg_from_proto(afl.arg_to_proto(v))
        except TypeError as e:
            ctx.check(False, "arg-set-of-tuples", "C16:set-with-uniform-tuple-unreadable",
                      "arg_from_proto(arg_to_proto(%r)) raises TypeError(%s)" % (v, e), value=repr(v))
            return
        ok = type(got) is type(v) and len(got) == len(v)
        ctx.check(ok, "arg-set-of-tuples", "C16:set-with-tuple-roundtrip", "%r -> %r" % (v, got))
        ctx.distinct(("arg-set", repr(sorted(map(repr, v)))))
        return
    if kind in (0, 1):
        v = gen_arg(rng)
        msg = afl.arg_to_proto(v)
        msg2 = type(msg)()
        msg2.ParseFromString(msg.SerializeToString())
        got = afl.arg_from_proto(msg2)
        r = cmp_arg(v, got)
        ctx.check(r is None, "arg-roundtrip", "C16:arg-roundtrip", lambda: "arg_from_proto(arg_to_proto(%r)) = %r: %s" % (v, got, r),
                  value=repr(v)[:300], got=repr(got)[:300])
        ctx.distinct(("arg", repr(v)), nontrivial=v is not None)
        ctx.sample({"arg": repr(v)[:200]})
    elif kind == 2:  # FloatArg
        st = WP.State(rng, [], "full", True)
        spec = st.param()
        v = b_val(spec)
        msg = afl.float_arg_to_proto(v)
        msg2 = type(msg)()
        msg2.ParseFromString(msg.SerializeToString())
        got = afl.float_arg_from_proto(msg2, required_arg_name="x")
        r = cmp_param(v, got)
        ctx.check(r is None, "float-arg-roundtrip", "C16:float-arg-roundtrip", lambda: "%r -> %r: %s" % (v, got, r), value=repr(v))
        ctx.distinct(("farg", repr(spec)))
    elif kind == 3:  # conditions
        st = WP.State(rng, [], "full", False)
        c = st.cond()
        msg = afl.condition_to_proto(b_cond(c), out=v2.program_pb2.Arg())
        msg2 = type(msg)()
        msg2.ParseFromString(msg.SerializeToString())
        got = afl.condition_from_proto(msg2)
        r = cmp_cond(c, got)
        ctx.check(r is None, "condition-roundtrip", "C16:condition-roundtrip", lambda: r, condition=c)
        ctx.distinct(("cond", c))
    elif kind == 4:  # Clifford tableaux of 1..3 qubits
        n = int(rng.integers(1, 4))
        qs = cirq.LineQubit.range(n)
        ops = []
        for _ in range(int(rng.integers(0, 12))):
            g = int(rng.integers(4))
            if g == 0:
                ops.append(cirq.H(qs[int(rng.integers(n))]))
            elif g == 1:
                ops.append(cirq.S(qs[int(rng.integers(n))]))
            elif g == 2:
                ops.append(cirq.X(qs[int(rng.integers(n))]))
            elif n > 1:
                a, b = rng.permutation(n)[:2]
                ops.append(cirq.CNOT(qs[int(a)], qs[int(b)]))
        t = cirq.CliffordGate.from_op_list(ops, qs).clifford_tableau
        msg = afl.clifford_tableau_arg_to_proto(t)
        msg2 = type(msg)()
        msg2.ParseFromString(msg.SerializeToString())
        got = afl.clifford_tableau_from_proto(msg2)
        ok = got.n == t.n and got.initial_state == t.initial_state and all(
            np.array_equal(np.asarray(getattr(got, f)), np.asarray(getattr(t, f))) for f in ("xs", "zs", "rs"))
        ctx.check(ok, "tableau-roundtrip", "C16:clifford-tableau-roundtrip", "tableau of %d qubits changed" % n, ops=repr(ops)[:300])
        ctx.distinct(("tab", n, np.asarray(t.xs).tobytes(), np.asarray(t.zs).tobytes(), np.asarray(t.rs).tobytes()), nontrivial=len(ops) > 0)
    elif kind == 5:  # InternalGate message (arguments need not be hashable here)
        args = {}
        for i in range(int(rng.integers(0, 5))):
            v = gen_arg(rng)
            args["k%d" % i] = v
        g = cg.InternalGate("Name", str(rng.choice(["mod", "", "a.b"])), int(rng.integers(1, 4)), **args)
        msg = afl.internal_gate_arg_to_proto(g)
        msg2 = type(msg)()
        msg2.ParseFromString(msg.SerializeToString())
        got = afl.internal_gate_from_proto(msg2)
        errs = []
        if got.gate_name != g.gate_name or (got.gate_module or "") != (g.gate_module or "") or got.num_qubits() != g.num_qubits():
            errs.append("header %r" % (got,))
        r = cmp_arg(args, dict(got.gate_args))
        if r:
            errs.append(r)
        ctx.check(not errs, "internal-gate-roundtrip", "C16:internal-gate-proto-roundtrip", lambda: "; ".join(errs), gate=repr(g)[:400])
        ctx.distinct(("ig", repr(g)), nontrivial=bool(args))
    else:  # ArgMapping
        d = {}
        for i in range(int(rng.integers(0, 4))):
            k = [str(rng.choice(["a", "b", "c_q0_0_q0_1"])), int(rng.integers(5)), ("t", int(rng.integers(3)))][int(rng.integers(3))]
            v = gen_arg(rng)
            if v is None:
                v = 0
            d[k] = v
        msg = afl.dict_to_arg_mapping_proto(d)
        msg2 = type(msg)()
        msg2.ParseFromString(msg.SerializeToString())
        got = afl.dict_from_arg_mapping_proto(msg2)
        if not d:
            ctx.check(got is None, "arg-mapping-roundtrip", "C16:arg-mapping-roundtrip", "empty mapping -> %r (documented: None)" % (got,))
        else:
            errs = []
            if not isinstance(got, dict) or len(got) != len(d):
                errs.append("%r" % (got,))
            else:
                for k, v in d.items():
                    hit = [gv for gk, gv in got.items() if cmp_arg(k, gk) is None]
                    if len(hit) != 1:
                        errs.append("key %r -> %d hits" % (k, len(hit)))
                    else:
                        r = cmp_arg(v, hit[0])
                        if r:
                            errs.append("[%r] %s" % (k, r))
            ctx.check(not errs, "arg-mapping-roundtrip", "C16:arg-mapping-roundtrip", lambda: "; ".join(errs), mapping=repr(d)[:300])
        ctx.distinct(("amap", repr(d)), nontrivial=bool(d))


# =============================================================================================== section: sweeps
SWEEP_VALUES = [0.0, -0.0, 0.5, -0.5, 1.0, 0.1, 1 / 3, 2.5, -1.25, 1e-3, 100.0, 12345.678, 1e-9, 0.30000001]
UNIT_FACTOR = {"ns": ("us", 1e-3), "us": ("ns", 1e3), "GHz": ("MHz", 1e3), "MHz": ("GHz", 1e-3)}


def gen_meta(rng):
    u = rng.random()
    if u < 0.6:
        return None
    paths = [["q0_0", "readout", "freq"], ["a"], [], ["x", "y"], ["deep", "er", "path", "here"]]
    if u < 0.8:
        nonempty = [p_ for p_ in paths if p_]  # a DeviceParameter without path, idx and units writes nothing at all
        return ("dp", list(nonempty[int(rng.integers(len(nonempty)))]), [None, 1, 2, 7, -1][int(rng.integers(5))],
                [None, "ns", "GHz"][int(rng.integers(3))])
    n = int(rng.integers(0, 3))
    dps = [(list(paths[int(rng.integers(len(paths)))]), [None, 0, 1, 3][int(rng.integers(4))]) for _ in range(n)]
    return ("md", dps or None, bool(rng.integers(2)), [None, "label", ""][int(rng.integers(3))], [None, "ns", "MHz"][int(rng.integers(3))])


def b_meta(m):
    from cirq_google.study.device_parameter import DeviceParameter, Metadata
    if m is None:
        return None
    if m[0] == "dp":
        return DeviceParameter(path=list(m[1]), idx=m[2], units=m[3])
    return Metadata(device_parameters=None if m[1] is None else [DeviceParameter(path=list(p), idx=i) for p, i in m[1]],
                    is_const=m[2], label=m[3], unit=m[4])


def cmp_meta(m, got):
    from cirq_google.study.device_parameter import DeviceParameter, Metadata
    if m is None:
        return None if got is None else "unexpected metadata %r" % (got,)
    if m[0] == "dp":
        if type(got) is not DeviceParameter:
            return "expected DeviceParameter, got %r" % (got,)
        want = (list(m[1]), m[2], m[3], None)
        have = (list(got.path), got.idx, got.units, got.value)
        return None if want == have else "DeviceParameter (path, idx, units, value) %r != %r" % (have, want)
    if type(got) is not Metadata:
        return "expected Metadata, got %r" % (got,)
    have_dp = None if not got.device_parameters else [(list(d.path), d.idx) for d in got.device_parameters]
    want_dp = None if not m[1] else [(list(p), i) for p, i in m[1]]
    want = (want_dp, m[2], m[3], m[4])
    have = (have_dp, bool(got.is_const), got.label, got.unit)
    return None if want == have else "Metadata (device_parameters, is_const, label, unit) %r != %r" % (have, want)


class _Keys:
    def __init__(self, rng):
        self.rng, self.n = rng, 0

    def new(self):
        self.n += 1
        return ["p%d", "key %d", "θ%d", "a_%d"][int(self.rng.integers(4))] % self.n


def gen_leaf(rng, key, unit=None, allow_const=True, nonempty=False):
    vals = lambda n: [float(rng.choice(SWEEP_VALUES)) if rng.random() < 0.7 else float(rng.uniform(-50, 50)) for _ in range(n)]  # noqa: E731
    u = rng.random()
    meta = gen_meta(rng)
    if u < 0.35:
        n = int(rng.integers(1 if nonempty else 0, 7))
        a, b = vals(2)
        return ("linspace", key, a, b, n, meta, unit)
    if u < 0.5 and allow_const and unit is None:
        c = [int(rng.integers(-5, 100)), vals(1)[0], None, "text", ""][int(rng.integers(5))]
        return ("points", key, [c], meta, None)
    if u < 0.6 and unit is None:
        return ("points", key, [int(x) for x in rng.integers(-10, 1000, size=int(rng.integers(2, 6)))], meta, None)
    n = int(rng.integers(1, 7))
    return ("points", key, vals(n), meta, unit)


def gen_sweep(rng, keys, depth=0, nonempty=False):
    u = rng.random()
    unit = [None, None, None, "ns", "GHz", "us"][int(rng.integers(6))]
    if depth >= 3 or u < 0.3:
        return gen_leaf(rng, keys.new(), unit, nonempty=nonempty)
    if u < 0.35:
        return ("unit",)
    k = int(rng.integers(1, 4))
    if u < 0.5:
        return ("product", [gen_sweep(rng, keys, depth + 1, nonempty) for _ in range(k)])
    if u < 0.65:
        return ("zip", [gen_sweep(rng, keys, depth + 1, nonempty) for _ in range(k)])
    if u < 0.78:
        return ("ziplongest", [gen_sweep(rng, keys, depth + 1, True) for _ in range(k)])
    if u < 0.9:
        key = keys.new()
        return ("concat", [gen_leaf(rng, key, unit, allow_const=(unit is None), nonempty=nonempty) for _ in range(k)])
    rows = int(rng.integers(1 if nonempty else 0, 4))
    ks = [keys.new() for _ in range(int(rng.integers(1, 3)))]
    return ("list", [{k_: float(rng.choice(SWEEP_VALUES)) if rng.random() < 0.8 else int(rng.integers(0, 9)) for k_ in ks} for _ in range(rows)])


def sweep_size(s):
    """number of assignments, computed without enumerating"""
    k = s[0]
    if k == "unit":
        return 1
    if k == "points":
        return len(s[2])
    if k == "linspace":
        return s[4]
    if k == "list":
        return len(s[1])
    sizes = [sweep_size(c) for c in s[1]]
    if k == "product":
        n = 1
        for x in sizes:
            n *= x
        return n
    if k == "zip":
        return min(sizes) if sizes else 0
    if k == "ziplongest":
        return max(sizes) if sizes else 0
    return sum(sizes)


def gen_bounded_sweep(rng, keys, limit=1500):
    for _ in range(20):
        spec = gen_sweep(rng, keys)
        if sweep_size(spec) <= limit:
            return spec
    return gen_leaf(rng, keys.new())


def has_unit_node(s):
    if s[0] == "unit":
        return True
    if s[0] in ("points", "linspace", "list"):
        return False
    return any(has_unit_node(c) for c in s[1])


def b_sweep(s, rng=None):
    cirq, tunits = _S["cirq"], _S["tunits"]
    k = s[0]
    if k == "unit":
        return cirq.UnitSweep
    if k == "points":
        _, key, vals, meta, unit = s
        if unit is not None:
            u = getattr(tunits, unit)
            other, f = UNIT_FACTOR[unit]
            pts = []
            for i, v in enumerate(vals):
                pts.append(v * u if (i == 0 or rng is None or rng.random() < 0.7) else (v * f) * getattr(tunits, other))
            return cirq.Points(key, pts, metadata=b_meta(meta))
        return cirq.Points(key, list(vals), metadata=b_meta(meta))
    if k == "linspace":
        _, key, a, b, n, meta, unit = s
        if unit is not None:
            u = getattr(tunits, unit)
            other, f = UNIT_FACTOR[unit]
            stop = b * u if (rng is None or rng.random() < 0.7) else (b * f) * getattr(tunits, other)
            return cirq.Linspace(key, a * u, stop, n, metadata=b_meta(meta))
        return cirq.Linspace(key, a, b, n, metadata=b_meta(meta))
    if k == "list":
        return cirq.ListSweep([cirq.ParamResolver(dict(d)) for d in s[1]])
    subs = [b_sweep(c, rng) for c in s[1]]
    return {"product": cirq.Product, "zip": cirq.Zip, "ziplongest": cirq.ZipLongest, "concat": cirq.Concat}[k](*subs)


def sweep_leaves(s):
    if s[0] in ("points", "linspace"):
        return [s]
    if s[0] in ("unit",):
        return []
    if s[0] == "list":
        keys = list(s[1][0].keys()) if s[1] else []
        return [("points", k, [d[k] for d in s[1]], None, None) for k in keys]
    out = []
    for c in s[1]:
        out += sweep_leaves(c)
    return out


def cirq_leaves(sw):
    cirq = _S["cirq"]
    if sw is cirq.UnitSweep:
        return []
    if isinstance(sw, cirq.Product):
        kids = sw.factors
    elif isinstance(sw, (cirq.Zip, cirq.Concat)):
        kids = sw.sweeps
    else:
        return [sw]
    out = []
    for c in kids:
        out += cirq_leaves(c)
    return out


def leaf_meta(lf):
    return lf[3] if lf[0] == "points" else lf[5]


def model_of(s):
    """strip metadata/unit fields for the refmodel enumerator"""
    if s[0] == "points":
        return ("points", s[1], s[2])
    if s[0] == "linspace":
        return ("linspace", s[1], s[2], s[3], s[4])
    if s[0] in ("unit", "list"):
        return s
    return (s[0], [model_of(c) for c in s[1]])


def cmp_sweep_value(exp, got, unit, f64, mag):
    tunits = _S["tunits"]
    if unit is not None:
        if not isinstance(got, tunits.Value):
            return "expected a value in %s, got %r" % (unit, got)
        try:
            got = got[unit]
        except Exception as e:  # noqa
            return "unit mismatch: %r is not in %s (%s)" % (got, unit, type(e).__name__)
    if exp is None or isinstance(exp, str):
        return None if (got == exp and type(got) is type(exp)) else "%r != %r" % (got, exp)
    if not is_realish(got):
        return "expected number %r, got %r" % (exp, got)
    tol = (1e-12 * mag + 1e-300) if f64 else (2e-7 * mag + 1e-7)
    return None if abs(float(got) - float(exp)) <= tol else "%r != %r (%s)" % (got, exp, "double" if f64 else "float")


def check_sweep_roundtrip(ctx, spec, rt, f64, mech, monitor="sweep-assignments", **wit):
    rows = W.enumerate_sweep(model_of(spec))
    leaves = sweep_leaves(spec)
    units, mags = {}, {}
    for lf in leaves:
        units[lf[1]] = lf[-1]
        nums = [abs(float(v)) for v in (lf[2] if lf[0] == "points" else [lf[2], lf[3]]) if is_realish(v)]
        mags[lf[1]] = max([mags.get(lf[1], 1.0)] + nums)
    errs = []
    try:
        got_rows = [list(pt) for pt in rt.param_tuples()]
    except Exception as e:  # noqa
        got_rows = None
        errs.append("enumerating the round-tripped sweep raised %s: %s" % (type(e).__name__, e))
    if got_rows is not None:
        if len(got_rows) != len(rows):
            errs.append("%d assignments, expected %d" % (len(got_rows), len(rows)))
        else:
            for i, (er, gr) in enumerate(zip(rows, got_rows)):
                ed, gd = dict(er), {str(k): v for k, v in gr}
                if sorted(ed) != sorted(gd):
                    errs.append("row %d keys %r != %r" % (i, sorted(gd), sorted(ed)))
                    break
                for k, v in ed.items():
                    r = cmp_sweep_value(v, gd[k], units.get(k), f64, mags.get(k, 1.0))
                    if r:
                        errs.append("row %d %s: %s" % (i, k, r))
                if len(errs) > 5:
                    break
    gl = cirq_leaves(rt)
    if len(gl) != len(leaves):
        errs.append("%d single sweeps came back, expected %d" % (len(gl), len(leaves)))
    else:
        for lf, g in zip(leaves, gl):
            if str(g.key) != lf[1]:
                errs.append("single sweep key %r != %r" % (g.key, lf[1]))
            r = cmp_meta(leaf_meta(lf), getattr(g, "metadata", None))
            if r:
                errs.append("sweep %s: %s" % (lf[1], r))
    ctx.check(not errs, monitor, mech, lambda: "; ".join(errs[:3]), sweep=spec, errors=errs[:6], float64=f64, **wit)
    return rows


def sec_sweeps(ctx, rng, case):
    cirq, v2, v1, cg = _S["cirq"], _S["v2"], _S["v1"], _S["cg"]
    kind = case % 10
    if kind == 9 and case // 10 >= 12:
        kind = 0  # the deterministic edges need only a few repetitions
    keys = _Keys(rng)
    if kind <= 5:
        spec = gen_bounded_sweep(rng, keys)
        f64 = bool(rng.random() < 0.4)
        try:
            sw = b_sweep(spec, rng)
        except (ValueError, TypeError) as e:
            raise Reject("sweep-builder:%s" % type(e).__name__)
        msg = v2.sweep_to_proto(sw, use_float64=f64)
        msg2 = type(msg)()
        msg2.ParseFromString(msg.SerializeToString())
        rt = v2.sweep_from_proto(msg2)
        rows = check_sweep_roundtrip(ctx, spec, rt, f64, "C16:sweep-roundtrip")
        ctx.distinct(("sweep", repr(spec), f64), nontrivial=len(rows) > 1 or any(leaf_meta(lf) for lf in sweep_leaves(spec)))
        ctx.sample({"sweep": spec, "float64": f64, "assignments": len(rows)})
    elif kind == 6:  # run context
        nsw = int(rng.integers(1, 4))
        form = int(rng.integers(5))
        f64 = bool(rng.random() < 0.4)
        compress = bool(rng.random() < 0.5)
        specs = [gen_bounded_sweep(rng, keys, 500) for _ in range(nsw)]
        try:
            built_sweeps = [b_sweep(s, rng) for s in specs]
        except (ValueError, TypeError) as e:
            raise Reject("sweep-builder:%s" % type(e).__name__)
        if form == 0:
            sweepable, specs = None, [("unit",)]
        elif form == 1:
            sweepable, specs = built_sweeps[0], specs[:1]
        elif form == 2:
            sweepable = built_sweeps
        elif form == 3:
            d = {keys.new(): float(rng.choice(SWEEP_VALUES)) for _ in range(int(rng.integers(1, 4)))}
            sweepable, specs = cirq.ParamResolver(d), [("zip", [("points", k, [v], None, None) for k, v in d.items()])]
        else:
            d = {keys.new(): float(rng.choice(SWEEP_VALUES)) for _ in range(int(rng.integers(1, 4)))}
            sweepable, specs = dict(d), [("zip", [("points", k, [v], None, None) for k, v in d.items()])]
        if rng.random() < 0.5:
            reps = int(rng.integers(1, 100000))
            want_reps = [reps] * len(specs)
        else:
            reps = [int(x) for x in rng.integers(1, 5000, size=len(specs))]
            want_reps = list(reps)
            if len(specs) == 1 and rng.random() < 0.3:  # one sweep, several repetition counts: documented broadcast
                reps = [int(x) for x in rng.integers(1, 5000, size=3)]
                want_reps, specs = list(reps), specs * 3
        msg = v2.run_context_to_proto(sweepable, reps, compress_proto=compress, use_float64=f64)
        errs = []
        if compress:
            if len(msg.parameter_sweeps):
                errs.append("compressed run context still carries parameter_sweeps")
            inner = v2.run_context_pb2.RunContext()
            inner.ParseFromString(gzip.decompress(msg.compressed_run_context))
            msg = inner
        if len(msg.parameter_sweeps) != len(specs):
            errs.append("%d parameter sweeps, expected %d" % (len(msg.parameter_sweeps), len(specs)))
        else:
            for ps, spec, r in zip(msg.parameter_sweeps, specs, want_reps):
                if ps.repetitions != r:
                    errs.append("repetitions %d != %d" % (ps.repetitions, r))
                check_sweep_roundtrip(ctx, spec, v2.sweep_from_proto(ps.sweep), f64, "C16:run-context-sweep", form=form)
        ctx.check(not errs, "run-context", "C16:run-context-shape", lambda: "; ".join(errs), form=form, reps=reps)
        ctx.distinct(("rc", form, repr(specs), repr(reps), compress, f64), nontrivial=True)
    elif kind == 7:  # v1 sweeps: products of zips of single sweeps, float fields
        def leaf():
            lf = gen_leaf(rng, keys.new(), None, allow_const=False)
            if lf[0] == "points" and not all(is_real(v) for v in lf[2]):
                lf = ("points", lf[1], [0.5], None, None)
            return lf[:3] + (None, None) if lf[0] == "points" else lf[:5] + (None, None)
        form = int(rng.integers(5))
        if form == 0:
            spec = ("unit",)
        elif form == 1:
            spec = leaf()
        elif form == 2:
            spec = ("zip", [leaf() for _ in range(int(rng.integers(1, 4)))])
        elif form == 3:
            spec = ("product", [("zip", [leaf() for _ in range(int(rng.integers(1, 3)))]) if rng.random() < 0.5 else leaf()
                                for _ in range(int(rng.integers(1, 4)))])
        else:
            spec = ("concat", [leaf()])
        sw = b_sweep(spec, rng)
        reps = int(rng.integers(1, 10000))
        try:
            msg = v1.sweep_to_proto(sw, reps)
        except ValueError as e:
            if "cannot convert to zip-product form" in str(e) and form == 4:
                ctx.reject("v1-not-zip-product")
                return
            raise
        msg2 = type(msg)()
        msg2.ParseFromString(msg.SerializeToString())
        rt = v1.sweep_from_proto(msg2)
        ok_reps = msg2.repetitions == reps
        # v1 has no metadata; compare assignments only
        rows = W.enumerate_sweep(model_of(spec))
        got_rows = [dict(pt) for pt in rt.param_tuples()]
        errs = [] if ok_reps else ["repetitions %d != %d" % (msg2.repetitions, reps)]
        if len(rows) != len(got_rows):
            errs.append("%d assignments, expected %d" % (len(got_rows), len(rows)))
        else:
            for i, (er, gd) in enumerate(zip(rows, got_rows)):
                ed = dict(er)
                if sorted(ed) != sorted(map(str, gd)):
                    errs.append("row %d keys" % i)
                    continue
                for k, v in ed.items():
                    mag = max(1.0, abs(v), *[abs(float(x)) for lf in sweep_leaves(spec) if lf[1] == k
                                             for x in (lf[2] if lf[0] == "points" else [lf[2], lf[3]])])
                    r = cmp_sweep_value(v, gd[k], None, False, mag)
                    if r:
                        errs.append("row %d %s: %s" % (i, k, r))
        ctx.check(not errs, "v1-sweep-assignments", "C16:v1-sweep-roundtrip", lambda: "; ".join(errs[:3]), sweep=spec)
        ctx.distinct(("v1sweep", repr(spec), reps), nontrivial=len(rows) > 1)
    elif kind == 8:  # FiniteRandomVariable
        n = int(rng.integers(1, 5))
        dist = {}
        for _ in range(n):
            dist[float(rng.choice(SWEEP_VALUES + [2.0, 3.0, 7.25]))] = float(rng.choice([0.25, 0.5, 1.0, 0.1, 3.0]))
        meta = gen_meta(rng)
        length, seed = int(rng.integers(1, 20)), int(rng.integers(0, 2 ** 31 - 1))
        key = keys.new()
        frv = cg.study.FiniteRandomVariable(key, distribution=dist, length=length, seed=seed, metadata=b_meta(meta))
        msg = v2.sweep_to_proto(frv, use_float64=bool(rng.integers(2)))
        msg2 = type(msg)()
        msg2.ParseFromString(msg.SerializeToString())
        rt = v2.sweep_from_proto(msg2)
        errs = []
        mech = "C16:finite-random-variable-roundtrip"
        if type(rt) is not cg.study.FiniteRandomVariable:
            errs.append("came back as %r" % (rt,))
        else:
            if rt.key != key or rt.length != length or rt.seed != seed:
                errs.append("(key, length, seed) = %r" % ((rt.key, rt.length, rt.seed),))
            if {float(k): float(v) for k, v in rt.distribution.items()} != dist:
                errs.append("distribution %r != %r" % (dict(rt.distribution), dist))
            r = cmp_meta(meta, rt.metadata)
            if r:
                errs.append(r)
            if list(rt.param_tuples()) != list(frv.param_tuples()):
                # known mechanism: the drawn values depend on the *order* of the distribution dict, and the proto
                # map does not keep it.  Explained only if re-ordering the original reproduces what came back.
                reordered = cg.study.FiniteRandomVariable(key, distribution={k_: dist[float(k_)] for k_ in rt.distribution},
                                                          length=length, seed=seed)
                if not errs and list(rt.distribution) != list(dist) and list(reordered.param_tuples()) == list(rt.param_tuples()):
                    mech = "C16:finite-random-variable-values-depend-on-distribution-order"
                errs.append("enumerated values differ: %r != %r (distribution order %r -> %r)" % (
                    [v for ((_, v),) in rt.param_tuples()][:6], [v for ((_, v),) in frv.param_tuples()][:6], list(dist),
                    list(rt.distribution)))
        check_known(ctx, not errs, "random-variable-sweep", mech, lambda: "; ".join(errs), dist=dist,
                  length=length, seed=seed)
        ctx.distinct(("frv", repr(dist), length, seed, repr(meta)), nontrivial=n > 1)
    else:  # deterministic edges
        from cirq_google.study.device_parameter import DeviceParameter
        e = (case // 10) % 6
        ctx.distinct(("sweep-edge", e, case // 60))
        if e == 0:  # DeviceParameter with idx=0
            dp = DeviceParameter(path=["q", "amp"], idx=0, units="ns")
            sw = cirq.Points("a", [1.0, 2.0], metadata=dp) if (case // 60) % 2 == 0 else cirq.Linspace("a", 0.0, 1.0, 3, metadata=dp)
            rt = v2.sweep_from_proto(v2.sweep_to_proto(sw))
            got = rt.metadata
            ok = type(got) is DeviceParameter and got.idx == 0 and list(got.path) == ["q", "amp"] and got.units == "ns"
            ctx.check(ok, "sweep-edge-device-parameter-idx0", "C16:device-parameter-idx-zero-dropped",
                      "DeviceParameter(idx=0) came back as %r (index 0 is written only when truthy)" % (got,))
        elif e == 1:  # empty Points
            for f64 in (False, True):
                try:
                    rt = v2.sweep_from_proto(v2.sweep_to_proto(cirq.Points("a", []), use_float64=f64))
                except IndexError as ex:
                    ctx.check(False, "sweep-edge-empty-points", "C16:empty-points-sweep-indexerror",
                              "sweep_to_proto(cirq.Points('a', [])) raises IndexError(%s)" % ex)
                    return
                ctx.check(len(list(rt.param_tuples())) == 0 and rt.keys == ["a"], "sweep-edge-empty-points",
                          "C16:empty-points-sweep-roundtrip", "empty Points came back as %r" % (rt,))
        elif e == 2:  # unit sweep and empty combinators
            for sw, n in [(cirq.UnitSweep, 1), (cirq.Product(), 1), (cirq.Zip(), 0), (cirq.Linspace("a", 0, 1, 0), 0),
                          (cirq.Product(cirq.UnitSweep, cirq.Points("a", [1, 2])), 2)]:
                rt = v2.sweep_from_proto(v2.sweep_to_proto(sw))
                ctx.check(len(list(rt.param_tuples())) == n == len(list(sw.param_tuples())), "sweep-edge-unit", "C16:unit-empty-sweep",
                          "%r came back as %r" % (sw, rt))
        elif e == 3:  # float64 linspace whose endpoints are 0.0 (falsy double fields)
            for a, b in [(0.0, 0.0), (0.0, 0.1), (0.1, 0.0), (-0.0, 1e-300)]:
                rt = v2.sweep_from_proto(v2.sweep_to_proto(cirq.Linspace("a", a, b, 3), use_float64=True))
                got = [v for ((_, v),) in rt.param_tuples()]
                want = W.linspace_values(a, b, 3)
                ctx.check(got == want, "sweep-edge-float64-zero", "C16:float64-linspace-zero-endpoint", "%r != %r" % (got, want))
        elif e == 4:  # unsupported sweep type: documented ValueError
            class Odd(cirq.Points):
                pass
            try:
                v2.sweep_to_proto(cirq.Points(_S["sympy"].Symbol("a") + 1, [1, 2]) if False else _OddSweep())
                ctx.check(False, "sweep-edge-rejections", "C16:unknown-sweep-accepted", "unknown sweep type serialized")
            except ValueError as ex:
                if "cannot convert to v2 Sweep proto" not in str(ex):
                    raise
                ctx.reject("unknown-sweep-type")
                ctx.ok("sweep-edge-rejections")
        else:  # run context: mismatched repetitions: documented ValueError
            try:
                v2.run_context_to_proto([cirq.Points("a", [1]), cirq.Points("a", [2])], [1, 2, 3])
                ctx.check(False, "sweep-edge-rejections", "C16:run-context-length-mismatch-accepted", "mismatch accepted")
            except ValueError as ex:
                if "must match" not in str(ex):
                    raise
                ctx.reject("run-context-length-mismatch")
                ctx.ok("sweep-edge-rejections")


class _OddSweep:
    """not a known sweep type"""
    keys = ["a"]

    def __len__(self):
        return 0


# =============================================================================================== section: results
def sec_results(ctx, rng, case):
    cirq, v2, v1 = _S["cirq"], _S["v2"], _S["v1"]
    kind = case % 4
    if kind == 0:  # pack_bits / unpack_bits for every length 0..70 (and some longer)
        n = (case // 4) % 71 if rng.random() < 0.9 else int(rng.integers(71, 600))
        dens = float(rng.choice([0.5, 0.1, 0.9, 0.0, 1.0]))
        bits = (rng.random(n) < dens)
        data = v2.pack_bits(np.array(bits, dtype=bool))
        ref = W.pack_bits_ref(bits.tolist())
        ctx.check(bytes(data) == ref, "pack-bits", "C16:pack-bits-layout",
                  lambda: "pack_bits(%d bits) = %r, little-endian reference %r" % (n, bytes(data)[:12], ref[:12]), n=n, bits=bits.tolist()[:80])
        back = v2.unpack_bits(ref, n)
        ctx.check(len(back) == n and [bool(b) for b in back] == bits.tolist(), "unpack-bits", "C16:unpack-bits-layout",
                  lambda: "unpack_bits of the reference bytes differs (n=%d)" % n, n=n)
        # padding bits set to one must be ignored
        if n % 8:
            dirty = bytearray(ref)
            dirty[-1] |= (0xFF << (n % 8)) & 0xFF
            back2 = v2.unpack_bits(bytes(dirty), n)
            ctx.check([bool(b) for b in back2] == bits.tolist(), "unpack-bits", "C16:unpack-bits-padding", "padding leaked", n=n)
        # other integer dtypes of the same bits
        data2 = v2.pack_bits(np.array(bits, dtype=np.uint8))
        ctx.check(bytes(data2) == ref, "pack-bits", "C16:pack-bits-layout", "uint8 input packs differently", n=n)
        ctx.distinct(("pack", n, bits.tobytes()), nontrivial=bool(bits.any()) and n % 8 != 0)
        ctx.sample({"pack_bits_n": n})
        return
    if kind == 3:  # v1 pack_results / unpack_results
        reps = (case // 4) % 71
        nk = int(rng.integers(0, 4))
        meas = []
        for i in range(nk):
            size = int(rng.integers(1, 6))
            meas.append(("k%d" % i, rng.random((reps, size)) < 0.5))
        data = v1.pack_results(meas)
        flat = []
        for r_ in range(reps):
            for _, arr in meas:
                flat += [bool(b) for b in arr[r_]]
        ref = W.pack_bits_ref(flat) if nk else b""
        ctx.check(bytes(data) == ref, "v1-pack-results", "C16:v1-pack-results-layout",
                  lambda: "pack_results bytes %r != reference %r" % (bytes(data)[:12], ref[:12]), reps=reps, sizes=[a.shape[1] for _, a in meas])
        if nk:
            out = v1.unpack_results(ref, reps, [(k, a.shape[1]) for k, a in meas])
            ok = sorted(out) == sorted(k for k, _ in meas) and all(
                out[k].shape == a.shape and np.array_equal(np.asarray(out[k], dtype=bool), a) for k, a in meas)
            ctx.check(ok, "v1-unpack-results", "C16:v1-unpack-results-layout", "unpack_results differs", reps=reps)
        ctx.distinct(("v1pack", reps, nk, ref), nontrivial=reps % 8 != 0 and nk > 0)
        return
    # results_to_proto / results_from_proto
    big = rng.random() < 0.08
    pool = [cirq.GridQubit(r_, c_) for r_ in range(7) for c_ in range(10)] if big else [cirq.GridQubit(r_, c_) for r_ in range(3) for c_ in range(4)]
    nkeys = int(rng.integers(1, 4))
    specs = []
    moments = []
    for i in range(nkeys):
        nq = int(rng.integers(30, 71)) if big and i == 0 else int(rng.integers(1, 6))
        idx = rng.permutation(len(pool))[:nq]
        qs = [pool[int(j)] for j in idx]
        inst = int(rng.choice([1, 1, 2, 3]))
        mask = tuple(bool(b) for b in rng.integers(0, 2, size=int(rng.integers(0, nq + 1))))
        tags = [(), ("t",), (1, "x")][int(rng.integers(3))]
        key = ["m%d" % i, "key %d" % i, "z_%d" % i][int(rng.integers(3))]
        specs.append((key, qs, inst, mask, tags))
        for _ in range(inst):
            op = cirq.measure(*qs, key=key, invert_mask=mask)
            if tags:
                op = op.with_tags(*tags)
            moments.append(cirq.Moment(op))
            if rng.random() < 0.5:
                moments.append(cirq.Moment(cirq.X(qs[0])))
    order = rng.permutation(len(moments)) if False else range(len(moments))
    circuit = cirq.Circuit([moments[int(i)] for i in order])
    infos = v2.find_measurements(circuit)
    errs = []
    if len(infos) != nkeys:
        errs.append("%d measurement infos, expected %d" % (len(infos), nkeys))
    else:
        for inf, (key, qs, inst, mask, tags) in zip(infos, specs):
            full = list(mask) + [False] * (len(qs) - len(mask))
            if inf.key != key or list(inf.qubits) != qs or inf.instances != inst or list(inf.invert_mask) != full or list(inf.tags) != list(tags):
                errs.append("info %r != (%r, %r, %d, %r, %r)" % (inf, key, qs, inst, full, tags))
    ctx.check(not errs, "find-measurements", "C16:find-measurements", lambda: "; ".join(errs[:2]))
    if errs:
        return
    nsweeps = int(rng.integers(1, 4))
    plain = []  # plain-Python copy: [sweep][result] -> (params, {key: bits[rep][inst][qubit]})
    trial_sweeps = []
    for s_ in range(nsweeps):
        reps = (case // 4 + 7 * s_) % 71 if kind == 1 else int(rng.integers(0, 71))
        nres = int(rng.integers(1, 4))
        sweep_plain, sweep_res = [], []
        for r_ in range(nres):
            params = {"p%d" % j: float(rng.choice(SWEEP_VALUES)) for j in range(int(rng.integers(0, 3)))}
            recs, recs_plain = {}, {}
            for key, qs, inst, mask, tags in specs:
                arr = (rng.random((reps, inst, len(qs))) < 0.5)
                dt = [np.uint8, bool, np.int64, np.int8][int(rng.integers(4))]
                recs[key] = arr.astype(dt)
                recs_plain[key] = arr.tolist()
            sweep_res.append(cirq.ResultDict(params=cirq.ParamResolver(params), records=recs))
            sweep_plain.append((params, recs_plain, reps))
        trial_sweeps.append(sweep_res)
        plain.append(sweep_plain)
    msg = v2.results_to_proto(trial_sweeps, infos)
    msg2 = type(msg)()
    msg2.ParseFromString(msg.SerializeToString())
    # (a) the message itself, decoded by the reference unpacker
    errs = []
    if len(msg2.sweep_results) != nsweeps:
        errs.append("%d sweep results, expected %d" % (len(msg2.sweep_results), nsweeps))
    else:
        for si, (sr, sp) in enumerate(zip(msg2.sweep_results, plain)):
            if sr.repetitions != sp[0][2] or len(sr.parameterized_results) != len(sp):
                errs.append("sweep %d: repetitions %d / %d results" % (si, sr.repetitions, len(sr.parameterized_results)))
                continue
            for ri, (pr, (params, recs_plain, reps)) in enumerate(zip(sr.parameterized_results, sp)):
                ga = dict(pr.params.assignments)
                if sorted(ga) != sorted(params) or any(not W.f32_close(ga[k], v) for k, v in params.items()):
                    errs.append("sweep %d result %d params %r != %r" % (si, ri, ga, params))
                if [mr.key for mr in pr.measurement_results] != [s[0] for s in specs]:
                    errs.append("sweep %d result %d keys %r" % (si, ri, [mr.key for mr in pr.measurement_results]))
                    continue
                for mr, (key, qs, inst, mask, tags) in zip(pr.measurement_results, specs):
                    if mr.instances != inst or [q.qubit.id for q in mr.qubit_measurement_results] != ["%d_%d" % (q.row, q.col) for q in qs]:
                        errs.append("sweep %d result %d key %s: instances/qubits wrong" % (si, ri, key))
                        continue
                    for qi, qmr in enumerate(mr.qubit_measurement_results):
                        want = [1 if recs_plain[key][a][b][qi] else 0 for a in range(reps) for b in range(inst)]
                        got = W.unpack_bits_ref(qmr.results, reps * inst)
                        if got != want or len(qmr.results) != (reps * inst + 7) // 8:
                            errs.append("sweep %d result %d key %s qubit %d: packed bits differ" % (si, ri, key, qi))
    ctx.check(not errs, "results-proto-layout", "C16:results-to-proto-layout", lambda: "; ".join(errs[:3]), reps=[sp[0][2] for sp in plain])

    def compare(back, label, qubit_perm=None):
        e2 = []
        if len(back) != nsweeps:
            return ["%s: %d sweeps" % (label, len(back))]
        for si, (bs, sp) in enumerate(zip(back, plain)):
            if len(bs) != len(sp):
                e2.append("%s: sweep %d has %d results" % (label, si, len(bs)))
                continue
            for ri, (res, (params, recs_plain, reps)) in enumerate(zip(bs, sp)):
                gp = {str(k): v for k, v in res.params.param_dict.items()}
                if sorted(gp) != sorted(params) or any(not W.f32_close(gp[k], v) for k, v in params.items()):
                    e2.append("%s: sweep %d result %d params %r" % (label, si, ri, gp))
                if res.repetitions != reps and any(True for _ in specs):
                    e2.append("%s: sweep %d result %d repetitions %r != %d" % (label, si, ri, res.repetitions, reps))
                for key, qs, inst, mask, tags in specs:
                    arr = res.records.get(key)
                    want = np.array(recs_plain[key], dtype=bool).reshape((reps, inst, len(qs)))
                    if qubit_perm is not None:
                        want = want[:, :, qubit_perm[key]]
                    if arr is None or tuple(arr.shape) != want.shape or not np.array_equal(np.asarray(arr, dtype=bool), want):
                        e2.append("%s: sweep %d result %d key %s records differ (shape %r, expected %r)" % (
                            label, si, ri, key, None if arr is None else tuple(arr.shape), want.shape))
        return e2

    errs = compare(v2.results_from_proto(msg2, infos), "with-measurements")
    errs += compare(v2.results_from_proto(msg2), "without-measurements")
    # (b) qubit order inside the message shuffled: with the measurement list the declared order is restored,
    #     without it the order of the message is reported
    msg3 = type(msg)()
    msg3.CopyFrom(msg2)
    perms = {}
    for key, qs, inst, mask, tags in specs:
        perms[key] = [int(i) for i in rng.permutation(len(qs))]
    for sr in msg3.sweep_results:
        for pr in sr.parameterized_results:
            for mr in pr.measurement_results:
                items = [type(q)() for q in mr.qubit_measurement_results]
                for it, q in zip(items, mr.qubit_measurement_results):
                    it.CopyFrom(q)
                del mr.qubit_measurement_results[:]
                for i in perms[mr.key]:
                    mr.qubit_measurement_results.add().CopyFrom(items[i])
    errs += compare(v2.results_from_proto(msg3, infos), "shuffled-with-measurements")
    errs += compare(v2.results_from_proto(msg3), "shuffled-without-measurements", qubit_perm=perms)
    ctx.check(not errs, "results-roundtrip", "C16:results-roundtrip", lambda: "; ".join(errs[:3]), reps=[sp[0][2] for sp in plain],
              keys=[(s[0], len(s[1]), s[2]) for s in specs])
    anybit = any(any(any(any(q for q in i_) for i_ in r_) for r_ in rp[k_]) for sp in plain for (_, rp, _) in sp for k_ in rp)
    import hashlib
    dig = hashlib.blake2b(repr([[rp for (_, rp, _) in sp] for sp in plain]).encode(), digest_size=8).hexdigest()
    ctx.distinct(("results", [(s[0], len(s[1]), s[2]) for s in specs], [[(repr(p), r_) for p, _, r_ in sp] for sp in plain], dig),
                 nontrivial=anybit and (nkeys > 1 or any(sp[0][2] % 8 for sp in plain)))
    ctx.sample({"keys": [(s[0], len(s[1]), s[2]) for s in specs], "reps": [sp[0][2] for sp in plain]})


# =============================================================================================== section: devices
GATE_NAMES = ["syc", "sqrt_iswap", "sqrt_iswap_inv", "cz", "phased_xz", "virtual_zpow", "physical_zpow", "coupler_pulse", "meas",
              "wait", "fsim_via_model", "two_pulse_fsim", "cz_pow_gate", "internal_gate", "reset", "analog_detune_qubit",
              "analog_detune_coupler_only", "wait_gate_with_unit"]


def probe_ops(rng, qa, qb):
    """(label, accepted-by set of gate-spec names, constructor(q0, q1) -> op, arity).  The accepting names are
    written from the documentation of the GateSpecification messages (device.proto) and grid_device._GATES."""
    cirq, cg, tunits = _S["cirq"], _S["cg"], _S["tunits"]
    e = float(rng.choice([0.37, -0.61, 0.123, 1.7]))
    P = [
        ("X**e", {"phased_xz"}, lambda a, b: cirq.X(a) ** e, 1),
        ("Y**e", {"phased_xz"}, lambda a, b: cirq.Y(a) ** e, 1),
        ("H**e", {"phased_xz"}, lambda a, b: cirq.H(a) ** e, 1),
        ("I", {"phased_xz"}, lambda a, b: cirq.I(a), 1),
        ("PhasedX", {"phased_xz"}, lambda a, b: cirq.PhasedXPowGate(exponent=e, phase_exponent=0.2)(a), 1),
        ("PhasedXZ", {"phased_xz"}, lambda a, b: cirq.PhasedXZGate(x_exponent=e, z_exponent=0.3, axis_phase_exponent=0.1)(a), 1),
        ("Clifford", {"phased_xz"}, lambda a, b: _S["cliffords"][int(abs(e) * 100) % 24](a), 1),
        ("Z**e", {"virtual_zpow"}, lambda a, b: cirq.Z(a) ** e, 1),
        ("Z**e physical", {"physical_zpow"}, lambda a, b: (cirq.Z(a) ** e).with_tags(cg.PhysicalZTag()), 1),
        ("CZ", {"cz", "cz_pow_gate"}, lambda a, b: cirq.CZ(a, b), 2),
        ("CZ**e", {"cz_pow_gate"}, lambda a, b: cirq.CZ(a, b) ** e, 2),
        ("SYC", {"syc"}, lambda a, b: cg.SYC(a, b), 2),
        ("FSim(pi/2,pi/6)", {"syc"}, lambda a, b: cirq.FSimGate(math.pi / 2, math.pi / 6)(a, b), 2),
        ("SQRT_ISWAP", {"sqrt_iswap"}, lambda a, b: cirq.SQRT_ISWAP(a, b), 2),
        ("SQRT_ISWAP_INV", {"sqrt_iswap_inv"}, lambda a, b: cirq.SQRT_ISWAP_INV(a, b), 2),
        ("ISWAP**e", set(), lambda a, b: cirq.ISWAP(a, b) ** e, 2),
        ("FSim(e,0.4)", set(), lambda a, b: cirq.FSimGate(e, 0.4)(a, b), 2),
        ("FSim via model", {"fsim_via_model"}, lambda a, b: cirq.FSimGate(e, 0.4)(a, b).with_tags(cg.FSimViaModelTag()), 2),
        ("FSim two pulse", {"two_pulse_fsim"}, lambda a, b: cirq.FSimGate(e, 0.4)(a, b).with_tags(cg.TwoPulseFSimTag()), 2),
        ("measure1", {"meas"}, lambda a, b: cirq.measure(a, key="m"), 1),
        ("measure2", {"meas"}, lambda a, b: cirq.measure(a, b, key="m"), -2),
        ("wait", {"wait"}, lambda a, b: cirq.wait(a, nanos=10), 1),
        ("wait2", {"wait"}, lambda a, b: cirq.wait(a, b, nanos=10), -2),
        ("wait with unit", {"wait", "wait_gate_with_unit"}, lambda a, b: cg.ops.WaitGateWithUnit(10 * tunits.ns)(a), 1),
        ("reset", {"reset"}, lambda a, b: cirq.ResetChannel()(a), 1),
        ("internal", {"internal_gate"}, lambda a, b: cg.InternalGate("G", "m", 1)(a), 1),
        ("internal2", {"internal_gate"}, lambda a, b: cg.InternalGate("G", "m", 2)(a, b), 2),
        ("coupler pulse", {"coupler_pulse"},
         lambda a, b: cg.experimental.CouplerPulse(hold_time=cirq.Duration(nanos=10), coupling_mhz=20.0)(a, b), 2),
        ("CNOT", set(), lambda a, b: cirq.CNOT(a, b), 2),
        ("SWAP", set(), lambda a, b: cirq.SWAP(a, b), 2),
        ("T-ish depolarize", set(), lambda a, b: cirq.depolarize(0.1)(a), 1),
    ]
    return P


def sec_devices(ctx, rng, case):
    cirq, cg, v2 = _S["cirq"], _S["cg"], _S["v2"]
    GridDevice = cg.GridDevice
    if case % 5 == 4:  # malformed specifications named in _validate_device_specification
        e = (case // 5) % 7
        spec = v2.device_pb2.DeviceSpecification()
        spec.valid_qubits.extend(["0_0", "0_1", "1_1"])
        ts = spec.valid_targets.add()
        ts.name = "2_qubit_targets"
        ts.target_ordering = v2.device_pb2.TargetSet.SYMMETRIC
        ts.targets.add().ids.extend(["0_0", "0_1"])
        spec.valid_gates.add().cz.SetInParent()
        pat = None
        if e == 0:
            spec.valid_qubits.append("0_1")
            pat = "duplicate qubit"
        elif e == 1:
            spec.valid_qubits.append(["q0_2", "-1_2", "a", "1", "1_2_3", "1_ 2"][(case // 35) % 6])
            pat = "not in the GridQubit form"
        elif e == 2:
            ts.targets.add().ids.extend(["0_0", "5_5"])
            pat = "which is not in valid_qubits"
        elif e == 3:
            ts.targets.add().ids.extend(["0_0", "0_0"])
            pat = "repeated qubits"
        elif e == 4:
            ts2 = spec.valid_targets.add()
            ts2.name = "asym"
            ts2.target_ordering = v2.device_pb2.TargetSet.ASYMMETRIC
            ts2.targets.add().ids.extend(["0_0", "1_1"])
            pat = "cannot be ASYMMETRIC"
        elif e == 5:
            spec.qubit_attributes["7_7"].attributes["x"].int_value = 1
            pat = "qubit_attributes contains qubit"
        else:
            pat = None  # well-formed control
        try:
            d = GridDevice.from_proto(spec)
            ok = pat is None
            msg = "malformed specification accepted (expected ValueError matching %r)" % pat
            if pat is None:
                ok = d.metadata.qubit_set == frozenset([cirq.GridQubit(0, 0), cirq.GridQubit(0, 1), cirq.GridQubit(1, 1)])
                msg = "control specification gives qubits %r" % (d.metadata.qubit_set,)
        except ValueError as ex:
            ok = pat is not None and pat in str(ex)
            msg = "ValueError(%s) where %r was expected" % (ex, pat)
            if ok:
                ctx.reject("malformed-device-spec")
        ctx.check(ok, "device-malformed-spec", "C16:device-spec-validation", msg, variant=e)
        ctx.distinct(("dev-malformed", e, case // 35))
        return
    # ---- well-formed specification, built here
    rows, cols = int(rng.integers(1, 4)), int(rng.integers(1, 5))
    r0, c0 = int(rng.choice([0, 0, 3, 10])), int(rng.choice([0, 0, 2, 12]))
    cells = [(r0 + i, c0 + j) for i in range(rows) for j in range(cols)]
    keep = [c for c in cells if rng.random() < 0.85] or cells[:1]
    adj = [(a, b) for a in keep for b in keep if a < b and abs(a[0] - b[0]) + abs(a[1] - b[1]) == 1]
    pairs = [p for p in adj if rng.random() < 0.75]
    if rng.random() < 0.15 and len(keep) >= 2:  # a non-adjacent pair is legal in the specification
        a, b = keep[0], keep[-1]
        if a != b and (a, b) not in pairs:
            pairs.append((a, b))
    k = int(rng.integers(0, len(GATE_NAMES) + 1))
    if rng.random() < 0.25:
        k = len(GATE_NAMES)
    names = [GATE_NAMES[int(i)] for i in rng.permutation(len(GATE_NAMES))[:k]]
    durs = {n: int(rng.choice([0, 0, 1000, 12000, 25500, 1])) for n in names}
    spec = v2.device_pb2.DeviceSpecification()
    order = [keep[int(i)] for i in rng.permutation(len(keep))]
    spec.valid_qubits.extend("%d_%d" % q for q in order)
    if pairs or rng.random() < 0.5:
        ts = spec.valid_targets.add()
        ts.name = "2_qubit_targets"
        ts.target_ordering = v2.device_pb2.TargetSet.SYMMETRIC
        for a, b in pairs:
            x, y = (a, b) if rng.random() < 0.5 else (b, a)
            ts.targets.add().ids.extend(["%d_%d" % x, "%d_%d" % y])
    if rng.random() < 0.3 and keep:  # single-qubit target sets are ignored for pairs
        ts1 = spec.valid_targets.add()
        ts1.name = "meas_targets"
        ts1.target_ordering = v2.device_pb2.TargetSet.SYMMETRIC
        ts1.targets.add().ids.extend(["%d_%d" % keep[0]])
    for n in names:
        g = spec.valid_gates.add()
        getattr(g, n).SetInParent()
        g.gate_duration_picos = durs[n]
    attrs = {}
    if rng.random() < 0.4:
        for q in keep[:2]:
            attrs["%d_%d" % q] = {"freq": 5.5, "ok": True, "n": 3, "name": "x"}
            for an, av in attrs["%d_%d" % q].items():
                vp = spec.qubit_attributes["%d_%d" % q].attributes[an]
                if isinstance(av, bool):
                    vp.bool_value = av
                elif isinstance(av, int):
                    vp.int_value = av
                elif isinstance(av, float):
                    vp.double_value = av
                else:
                    vp.string_value = av
    dev = GridDevice.from_proto(spec)
    md = dev.metadata
    # what the device object says it is
    qset = frozenset(cirq.GridQubit(*q) for q in keep)
    pset = frozenset(frozenset([cirq.GridQubit(*a), cirq.GridQubit(*b)]) for a, b in pairs)
    errs = []
    if md.qubit_set != qset:
        errs.append("qubit_set %r != %r" % (sorted(md.qubit_set), sorted(qset)))
    if frozenset(md.qubit_pairs) != pset:
        errs.append("qubit_pairs %r != %r" % (md.qubit_pairs, pset))
    ctx.check(not errs, "device-from-spec", "C16:device-from-proto-qubits-pairs", lambda: "; ".join(errs))
    # round trip through to_proto
    out = dev.to_proto()
    out2 = type(out)()
    out2.ParseFromString(out.SerializeToString())
    dev2 = GridDevice.from_proto(out2)
    errs = []
    if dev2 != dev:
        errs.append("from_proto(to_proto(d)) != d")
    if sorted(out2.valid_qubits) != sorted("%d_%d" % q for q in keep):
        errs.append("valid_qubits %r" % (list(out2.valid_qubits),))
    got_pairs = sorted(tuple(sorted(t.ids)) for ts_ in out2.valid_targets for t in ts_.targets if len(t.ids) == 2)
    if got_pairs != sorted(tuple(sorted(["%d_%d" % a, "%d_%d" % b])) for a, b in pairs):
        errs.append("valid_targets %r" % (got_pairs,))
    got_gates = {g.WhichOneof("gate"): g.gate_duration_picos for g in out2.valid_gates}
    if got_gates != durs:
        errs.append("valid_gates %r != %r" % (got_gates, durs))
    got_attrs = {q: {n: getattr(v, v.WhichOneof("val")) for n, v in a.attributes.items()} for q, a in out2.qubit_attributes.items()}
    if got_attrs != attrs:
        errs.append("qubit_attributes %r != %r" % (got_attrs, attrs))
    ctx.check(not errs, "device-roundtrip", "C16:device-to-proto-roundtrip", lambda: "; ".join(errs[:3]), gates=names, qubits=keep, pairs=pairs)
    # validate_operation accepts exactly what the specification lists
    probes = probe_ops(rng, None, None)
    outside = cirq.GridQubit(r0 + 50, c0 + 50)
    nonpairs = [(a, b) for a in keep for b in keep if a != b and (a, b) not in pairs and (b, a) not in pairs]
    gateset = set(names)
    n_acc = 0
    for _ in range(14):
        label, accept, make, arity = probes[int(rng.integers(len(probes)))]
        gate_ok = bool(accept & gateset)
        where = int(rng.integers(4))
        if abs(arity) == 1:
            q = cirq.GridQubit(*keep[int(rng.integers(len(keep)))]) if where != 0 else outside
            op = make(q, None)
            want = gate_ok and where != 0
        else:
            if where == 0:
                a, b = cirq.GridQubit(*keep[0]), outside
                want = False
            elif where == 1 and nonpairs:
                pa, pb = nonpairs[int(rng.integers(len(nonpairs)))]
                a, b = cirq.GridQubit(*pa), cirq.GridQubit(*pb)
                want = gate_ok and arity == -2  # variadic gates (measurement, wait) need no pair
            elif pairs:
                pa, pb = pairs[int(rng.integers(len(pairs)))]
                if rng.random() < 0.5:
                    pa, pb = pb, pa
                a, b = cirq.GridQubit(*pa), cirq.GridQubit(*pb)
                want = gate_ok
            else:
                continue
            op = make(a, b)
        try:
            dev.validate_operation(op)
            got = True
        except ValueError:
            got = False
        n_acc += int(got)
        ctx.check(got == want, "device-validate", "C16:device-validate-operation",
                  lambda: "validate_operation(%s on %r) %s, specification says %s (gates %r)" % (
                      label, op.qubits, "accepts" if got else "rejects", "accept" if want else "reject", sorted(gateset)),
                  label=label, gates=sorted(gateset), qubits=keep, pairs=pairs)
        # the device rebuilt from its own proto decides the same
        try:
            dev2.validate_operation(op)
            got2 = True
        except ValueError:
            got2 = False
        ctx.check(got2 == got, "device-validate-after-roundtrip", "C16:device-roundtrip-changes-validation", label, label=label)
    ctx.distinct(("dev", tuple(sorted(names)), tuple(keep), tuple(pairs), tuple(sorted(durs.items()))), nontrivial=len(names) >= 2 and len(pairs) >= 1)
    ctx.sample({"gates": names, "qubits": keep, "pairs": pairs})


# =============================================================================================== section: v1 programs
def sec_v1_programs(ctx, rng, case):
    """api.v1: gate_to_proto / xmon_op_from_proto / circuit_as_schedule_to_protos / circuit_from_schedule_from_protos.
    The v1 format has three gate messages (ExpW, ExpZ, Exp11) and measurements; X/Y powers are *documented* to become
    PhasedXPow gates, so gates are compared through their catalogue matrices (numeric) or fields (symbols)."""
    cirq, v1, sympy = _S["cirq"], _S["v1"], _S["sympy"]
    nq = int(rng.integers(1, 6))
    qubits = WP.gen_qubits(rng, nq, "grid")
    st = WP.State(rng, qubits, "full", bool(rng.random() < 0.4))

    def par():
        v = st.param()
        return ("sym", v[2][0]) if is_marker(v, "expr") else v

    specs = []
    for _ in range(int(rng.integers(1, 14))):
        kind = WP._wchoice(rng, {"XPow": 2, "YPow": 2, "ZPow": 2, "PhasedXPow": 2, "CZPow": 2 if nq > 1 else 0, "Measure": 1})
        n = 2 if kind == "CZPow" else (int(rng.integers(1, nq + 1)) if kind == "Measure" else 1)
        qs = [qubits[int(i)] for i in rng.permutation(nq)[:n]]
        if kind == "Measure":
            mask = tuple(bool(b) for b in rng.integers(0, 2, size=int(rng.integers(0, n + 1))))
            p = {"key": WP._choice(rng, WP.KEYS) + str(len(specs)), "mask": mask}
        elif kind == "PhasedXPow":
            p = {"exponent": par(), "phase_exponent": par()}
        else:
            p = {"exponent": par()}
        specs.append({"k": kind, "p": p, "q": qs, "t": [], "c": []})
    ops = [b_op(o) for o in specs]
    circuit = cirq.Circuit(ops)
    flat = list(circuit.all_operations())
    protos = list(v1.circuit_as_schedule_to_protos(circuit))
    protos = [type(pb).FromString(pb.SerializeToString()) for pb in protos]
    errs = []
    if len(protos) != len(flat):
        errs.append("%d protos for %d operations" % (len(protos), len(flat)))
    else:
        for i, (pb, op) in enumerate(zip(protos, flat)):
            spec = next(sp for sp, o in zip(specs, ops) if o is op or o == op)
            got = v1.xmon_op_from_proto(pb)
            gq = [x_qubit(q) for q in got.qubits]
            want_q = [tuple(q) for q in spec["q"]]
            if gq != want_q and not (spec["k"] == "CZPow" and sorted(gq) == sorted(want_q)):
                errs.append("op %d qubits %r != %r" % (i, gq, want_q))
                continue
            k, p, g = spec["k"], spec["p"], got.gate
            if k == "Measure":
                full = tuple(p["mask"]) + (False,) * (len(want_q) - len(p["mask"]))
                if type(g) is not cirq.MeasurementGate or g.key != p["key"] or tuple(bool(b) for b in g.full_invert_mask()) != full:
                    errs.append("op %d measurement %r != key %r mask %r" % (i, g, p["key"], full))
                continue
            want_cls = {"XPow": cirq.PhasedXPowGate, "YPow": cirq.PhasedXPowGate, "PhasedXPow": cirq.PhasedXPowGate,
                        "ZPow": cirq.ZPowGate, "CZPow": cirq.CZPowGate}[k]
            if not isinstance(g, want_cls):  # cirq.Z ** 1.0 is the _PauliZ subclass of ZPowGate
                errs.append("op %d gate type %s, expected %s" % (i, type(g).__name__, want_cls.__name__))
                continue
            e = b_val(p["exponent"])
            ph = {"XPow": 0.0, "YPow": 0.5}.get(k, b_val(p.get("phase_exponent", 0.0)))
            r = cmp_param(e, g.exponent)
            if r and is_realish(e) and is_realish(g.exponent):
                # equal up to the period of the documented matrix
                a = G.phased_xpow(0.0, float(e)) if want_cls is cirq.PhasedXPowGate else G.eigen_gate(k, float(e))
                b = G.phased_xpow(0.0, float(g.exponent)) if want_cls is cirq.PhasedXPowGate else G.eigen_gate(k, float(g.exponent))
                if L.phase_equal(a, b, 2e-6):
                    r = None
            if r:
                errs.append("op %d exponent %s" % (i, r))
            if want_cls is cirq.PhasedXPowGate:
                gp = g.phase_exponent
                r = cmp_param(ph, gp)
                if r and is_realish(ph) and is_realish(gp):
                    d = (float(ph) - float(gp)) % 2.0
                    if min(d, 2.0 - d) <= 4e-7 * max(1.0, abs(float(ph))) + 1e-7:
                        r = None
                if r:
                    errs.append("op %d phase_exponent %s" % (i, r))
    back = v1.circuit_from_schedule_from_protos(protos)
    if len(list(back.all_operations())) != len(flat):
        errs.append("circuit_from_schedule_from_protos: %d operations, expected %d" % (len(list(back.all_operations())), len(flat)))
    else:
        for q in circuit.all_qubits():
            a = [len(op.qubits) for op in circuit.all_operations() if q in op.qubits]
            b = [len(op.qubits) for op in back.all_operations() if q in op.qubits]
            if a != b:
                errs.append("per-qubit operation sequence on %r changed" % (q,))
    ctx.check(not errs, "v1-program-roundtrip", "C16:v1-program-roundtrip", lambda: "; ".join(errs[:3]), ops=specs)
    ctx.distinct(("v1prog", repr(specs)), nontrivial=len(specs) >= 2)
    ctx.sample({"v1_ops": [(o["k"], o["p"]) for o in specs][:4]})


def _wrap(f):
    def g(ctx, rng, case):
        try:
            f(ctx, rng, case)
        except Reject as r:
            ctx.reject(str(r) or "out-of-domain")
    g.__name__ = f.__name__
    return g


SECTIONS = [
    # name, function, quick cases, thorough cases, time weight (measured: 27 / 11 / 0.4 / 0.4 / 0.4 / 2.5 / 4.3 ms per case)
    ("programs", sec_programs, 2800, 120000, 8.0),
    ("multi", sec_multi, 840, 40000, 1.5),
    ("prog_edges", sec_prog_edges, 63, 168, 0.2),
    ("args", sec_args, 7000, 300000, 0.6),
    ("sweeps", sec_sweeps, 10000, 400000, 0.8),
    ("results", sec_results, 7100, 200000, 2.5),
    ("devices", sec_devices, 1500, 60000, 1.2),
    ("v1_programs", sec_v1_programs, 1400, 60000, 0.8),
]
SECTIONS = [(n, _wrap(f), a, b, w) for (n, f, a, b, w) in SECTIONS]
