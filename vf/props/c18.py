"""C18 - all views of measurement results tell the same story.

Monitors: every view of cirq.ResultDict (records, measurements, data, repetitions, histogram,
multi_measurement_histogram, str, repr, ==, +, JSON), the big_endian_* digit functions and the
Sampler convenience entry points, observed on generated asymmetric records.
Oracle: vf.refmodel.records_model (plain lists [rep][instance][digit] and Python big ints).
An icontract invariant on cirq.ResultDict compares the cached private views with the model
around every public access of a registered result (records a verdict, never raises)."""
from __future__ import annotations

import collections
import gzip
import itertools
import json
import re
import weakref

import numpy as np

from vf.refmodel import records_model as RM

LEVEL = "exploration"
RULE = ("results generated from a pure-Python records model: 0-9 repetitions, 1-5 keys (incl. path separators and "
        "qubit-style names), 1-3 instances, 1-70 digits, bits / bases 3-5 / mixed radix / base 12, dtypes bool..int64, "
        "C / Fortran / strided layouts, built through records= or measurements=; rows drawn distinct and "
        "non-palindromic where the shape allows; a case is non-trivial when it has >= 1 repetition, some row differs "
        "from its reversal (endianness visible) and, with >= 2 repetitions, the repetitions differ; distinct by "
        "full content fingerprint.  Digit-function cases are distinct by (bases, digits); sampler cases by "
        "(entry point, circuits, sweeps, repetitions, completion order)")
ASSUMPTIONS = [
    "records_model.py is the specification of the views (big-endian, [rep][instance][digit])",
    "str() format (keys sorted, one line per key instance, per digit the values over repetitions) is taken from the "
    "observed format and only checked for >= 1 repetition; repr/eval only for >= 1 repetition",
    "default histogram folds and the data frame are specified for bits only; flattened views only when every key "
    "of the result is measured once per repetition (otherwise the documented ValueError is an expected rejection)",
    "the data frame dtype rule (int64, object when a key is wider than 63 bits) is taken from DESIGN.md",
    "Simulator is only used on deterministic X/measure circuits; with 0 repetitions only key set and repetitions "
    "are checked",
]
PACKAGES = ["cirq_google"]
MIN_EVAL = {"engine-result-json": 30, "processor-call-args": 30, "validator-called": 20, "records==model": 200, "measurements==model": 100, "data==model": 50, "histogram==model": 100,
            "multi_histogram==model": 50, "add==model-concat": 50, "json-roundtrip": 50, "digits==model": 200,
            "sampler-order+shape": 100, "invariant:cached-views==model": 500}
MUST_REACH = [
    "cirq/study/result.py:ResultDict.measurements", "cirq/study/result.py:ResultDict.records",
    "cirq/study/result.py:ResultDict.data", "cirq/study/result.py:Result.dataframe_from_measurements",
    "cirq/study/result.py:Result.histogram", "cirq/study/result.py:Result._vectorized_histogram",
    "cirq/study/result.py:Result.multi_measurement_histogram", "cirq/study/result.py:Result.__add__",
    "cirq/study/result.py:Result.__eq__", "cirq/study/result.py:_pack_digits", "cirq/study/result.py:_unpack_digits",
    "cirq/study/result.py:_unpack_bits", "cirq/value/digits.py:big_endian_int_to_digits",
    "cirq/value/digits.py:big_endian_digits_to_int", "cirq/value/digits.py:big_endian_int_to_bits",
    "cirq/value/digits.py:big_endian_bits_to_int", "cirq/work/sampler.py:Sampler.run_batch_async",
    "cirq/work/sampler.py:Sampler.sample", "cirq/work/sampler.py:Sampler.run",
    "cirq/work/sampler.py:Sampler._normalize_batch_args", "cirq/work/zeros_sampler.py:ZerosSampler.run_sweep",
    "cirq/sim/simulator.py:SimulatesSamples.run_sweep_iter",
    "cirq_google/engine/engine_result.py:EngineResult.from_result", "cirq_google/engine/engine_result.py:EngineResult.__eq__",
    "cirq_google/engine/engine_result.py:EngineResult._from_json_dict_",
    "cirq_google/engine/processor_sampler.py:ProcessorSampler.run_batch_async",
    "cirq_google/engine/processor_sampler.py:ProcessorSampler._run_sweep_async",
    "cirq_google/engine/validating_sampler.py:ValidatingSampler.run_batch_async",
    "cirq_google/engine/validating_sampler.py:ValidatingSampler.run_sweep",
]

# Marginal probe (ndarray as `base` together with digit_count): in the annotated domain (Iterable[int]) but
# unusual; set to False to drop it from the workload.
INCLUDE_NDARRAY_BASE = True

_S = {}
_REG = {}

KEY_POOL = ["a", "b", "m0", "q(0)", "q(1),q(2)", "0:a", "1:0:z", "x y", "Ω", "k_long_name", "Z", "a:b", "c/d",
            "q(3)", "_", "10"]
BIT_DTYPES = ["bool", "int8", "uint8", "int32", "int64"]
DIG_DTYPES = ["int8", "uint8", "int32", "int64", "uint16"]
INT64_MAX = (1 << 63) - 1


# =========================================================================== registry + invariant
def _register(r, m):
    i = id(r)
    _REG[i] = (weakref.ref(r, lambda _ref, i=i: _REG.pop(i, None)), m)
    return r


def _model_of(r):
    ent = _REG.get(id(r))
    if ent is None or ent[0]() is not r:
        return None
    return ent[1]


def _arr_eq(arr, shape, nested):
    return arr is not None and tuple(arr.shape) == tuple(shape) and np.asarray(arr).tolist() == nested


def _invariant(self):
    """Cached private views of a registered ResultDict agree with its model (reads private state only)."""
    m = _model_of(self)
    if m is None:
        return True
    ctx = _S["ctx"]
    d = self.__dict__
    recs, meas, data = d.get("_records"), d.get("_measurements"), d.get("_data")
    bad = None
    if recs is not None:
        if set(recs.keys()) != set(m.keys):
            bad = "records-keys"
        else:
            for k in m.keys:
                if not _arr_eq(recs[k], m.record_shape(k), m.recs[k]):
                    bad = "records-content"
    if meas is not None and bad is None:
        if not m.flattenable():
            if getattr(m, "_partial_reported", False):
                return True
            m._partial_reported = True
            _check(ctx, False, "invariant:cached-views==model", KNOWN_PARTIAL_CACHE,
                      "ResultDict._measurements holds a partial dict (keys %r of %r) after the flattened view of a "
                      "repeated key was rejected; later accesses no longer raise" % (list(meas.keys()), m.keys),
                      shapes=[m.shapes[k] for k in m.keys], reps=m.reps)
            return True
        elif set(meas.keys()) != set(m.keys):
            bad = "measurements-keys"
        else:
            for k in m.keys:
                if not _arr_eq(meas[k], (m.reps, m.shapes[k][1]), m.rows(k)):
                    bad = "measurements-content"
    if data is not None and bad is None and m.flattenable() and m.is_binary():
        cols = m.data_columns()
        try:
            if list(data.columns) != m.keys or any([int(v) for v in data[k]] != cols[k] for k in m.keys):
                bad = "data-content"
        except (TypeError, ValueError):
            bad = "data-content"
    ctx.check(bad is None, "invariant:cached-views==model", "C18:invariant:%s" % bad,
              "cached private view of ResultDict disagrees with the model after a public access",
              keys=m.keys, shapes=[m.shapes[k] for k in m.keys], reps=m.reps)
    return True


def setup(ctx):
    import cirq

    _S["ctx"] = ctx
    try:
        import icontract

        icontract.invariant(_invariant)(cirq.ResultDict)
        _S["icontract"] = True
        ctx.event("icontract-invariant-attached")
    except Exception as e:  # noqa: fall back to explicit calls after every access
        _S["icontract"] = False
        ctx.event("icontract-unavailable:%s" % type(e).__name__)


def _touch(r):
    """Explicit invariant evaluation when icontract could not be attached."""
    if not _S.get("icontract"):
        _invariant(r)


# =========================================================================== generators
def _pick_nd(rng):
    u = rng.random()
    if u < 0.45:
        return int(rng.integers(1, 9))
    if u < 0.70:
        return int(rng.integers(9, 41))
    if u < 0.85:
        return int(rng.choice([62, 63, 64, 65]))
    return int(rng.integers(41, 71))


def _pick_bases(rng, kind, nd):
    if kind == "bits":
        return [2] * nd
    if kind == "uniform":
        return [int(rng.integers(3, 6))] * nd
    if kind == "mixed":
        return [int(x) for x in rng.integers(2, 6, size=nd)]
    return [12] * nd


def gen_rows(rng, nrows, bases):
    """nrows digit rows, distinct and non-palindromic where the radix leaves room."""
    nd = len(bases)
    cap = RM.radix_capacity(bases)
    hi = np.array(bases, dtype=np.int64)
    seen, out, tries = set(), [], 0
    while len(out) < nrows:
        row = tuple(int(x) for x in rng.integers(0, hi))
        tries += 1
        if tries < 40 * (nrows + 1):
            if row in seen and cap > len(seen):
                continue
            if nd >= 2 and row == row[::-1] and cap > 4 * (nrows + 2):
                continue
        seen.add(row)
        out.append(list(row))
    return out


def gen_model(rng, profile=None, reps=None, shapes_like=None, params=None):
    """profile: bits-flat | bits-rep | digits-flat | digits-rep."""
    if profile is None:
        profile = str(rng.choice(["bits-flat", "bits-rep", "digits-flat", "digits-rep"], p=[0.42, 0.10, 0.33, 0.15]))
    if reps is None:
        reps = int(rng.choice([0, 1, 2, 3, 4, 5, 6, 7, 8, 9], p=[0.05, 0.07, 0.12, 0.14, 0.12, 0.1, 0.1, 0.1, 0.1, 0.1]))
    if shapes_like is not None:
        keys = list(shapes_like.keys)
        shapes = dict(shapes_like.shapes)
        bases = dict(shapes_like.bases)
        dtypes = dict(shapes_like.dtypes)
    else:
        nkeys = int(rng.choice([1, 2, 3, 4, 5], p=[0.25, 0.3, 0.2, 0.15, 0.1]))
        keys = [str(k) for k in rng.choice(KEY_POOL, size=nkeys, replace=False)]
        shapes, bases, dtypes = {}, {}, {}
        for k in keys:
            ni = 1 if profile.endswith("flat") else int(rng.choice([1, 2, 3], p=[0.3, 0.45, 0.25]))
            nd = _pick_nd(rng)
            kind = "bits" if profile.startswith("bits") else str(
                rng.choice(["bits", "uniform", "mixed", "big"], p=[0.25, 0.3, 0.38, 0.07]))
            shapes[k] = (ni, nd)
            bases[k] = _pick_bases(rng, kind, nd)
            dtypes[k] = str(rng.choice(BIT_DTYPES if kind == "bits" else DIG_DTYPES))
        if profile.endswith("rep") and all(shapes[k][0] == 1 for k in keys):
            k = keys[int(rng.integers(len(keys)))]
            shapes[k] = (2, shapes[k][1])
    recs = {}
    for k in keys:
        ni, nd = shapes[k]
        rows = gen_rows(rng, reps * ni, bases[k])
        recs[k] = [[rows[r * ni + j] for j in range(ni)] for r in range(reps)]
    # joint duplicates so that histogram counts exceed one
    if reps >= 2 and rng.random() < 0.4:
        for _ in range(int(rng.integers(1, 1 + reps // 2))):
            src, dst = (int(x) for x in rng.choice(reps, size=2, replace=False))
            for k in keys:
                if rng.random() < 0.8:
                    recs[k][dst] = [list(inst) for inst in recs[k][src]]
    if params is None:
        params = {}
        for name in ["t", "u", "theta"][: int(rng.integers(0, 3))]:
            params[name] = [0.25, 2, -1.5, 3.0, 7][int(rng.integers(5))]
    m = RM.RecordsModel(keys, recs, shapes, params)
    m.bases, m.dtypes, m.profile = bases, dtypes, profile
    return m


def _layout(rng, arr):
    u = rng.random()
    if u < 0.6 or arr.size == 0:
        return arr
    if u < 0.8:
        return np.asfortranarray(arr)
    big = np.zeros(tuple(2 * s for s in arr.shape), dtype=arr.dtype)
    view = big[tuple(slice(None, None, 2) for _ in arr.shape)]
    view[...] = arr
    return view


def build_arrays(rng, m, dtypes=None, layout=True):
    out = {}
    for k in m.keys:
        dt = (dtypes or m.dtypes)[k]
        arr = np.array(m.recs[k], dtype=dt).reshape(m.record_shape(k))
        out[k] = _layout(rng, arr) if layout else arr
    return out


def build_result(rng, m, mode=None, dtypes=None, layout=True):
    """Returns (cirq.ResultDict registered with its model, arrays given to the constructor, mode)."""
    import cirq

    arrays = build_arrays(rng, m, dtypes, layout)
    if mode is None:
        mode = "measurements" if (m.flattenable() and rng.random() < 0.35) else "records"
    pr = cirq.ParamResolver(dict(m.params))
    if mode == "measurements":
        given = {k: a[:, 0, :] for k, a in arrays.items()}
        r = cirq.ResultDict(params=pr, measurements=given)
    else:
        given = arrays
        r = cirq.ResultDict(params=pr, records=given)
    _register(r, m)
    _touch(r)
    return r, given, mode


def _nontrivial(m):
    a = m.asymmetry()
    return m.reps >= 1 and a["endianness"] and (m.reps < 2 or a["reps_differ"]), a


def _wit(m, **kw):
    d = dict(keys=m.keys, shapes=[list(m.shapes[k]) for k in m.keys], reps=m.reps, params=m.params,
             dtypes=[m.dtypes[k] for k in m.keys] if hasattr(m, "dtypes") else None,
             records={k: m.recs[k] for k in m.keys if m.reps * m.shapes[k][0] * m.shapes[k][1] <= 160})
    d.update(kw)
    return d


# =========================================================================== fold functions (usable on numpy rows and lists)
def _f_tuple(row):
    return tuple(int(x) for x in row)


def _f_sum(row):
    return sum(int(x) for x in row)


def _f_first(row):
    return int(row[0])


def _f_last(row):
    return int(row[-1])


def _f_str(row):
    return "".join(str(int(x)) for x in row)


def _f_weighted(row):
    return sum((i + 1) * int(x) for i, x in enumerate(row))


ROW_FOLDS = [("tuple", _f_tuple), ("sum", _f_sum), ("first", _f_first), ("last", _f_last), ("str", _f_str),
             ("weighted", _f_weighted)]


def _counter_ints(c):
    """Counter with numeric keys -> ({int: count}, kinds of key types seen)."""
    out, kinds = {}, set()
    for k, v in c.items():
        if isinstance(k, (bool, np.bool_)):
            kinds.add("bool")
        elif isinstance(k, (int, np.integer)):
            kinds.add("int")
        elif isinstance(k, (float, np.floating)) and float(k).is_integer():
            kinds.add("float")
        else:
            kinds.add("other")
            out[("other", repr(k))] = int(v)
            continue
        out[int(k)] = out.get(int(k), 0) + int(v)
    return out, kinds


def _np_accumulator(dtype_name):
    """(bits, signed) of the numpy scalar type that `0 + row[i]` produces for a row of this dtype."""
    if dtype_name == "bool":
        return 64, True
    dt = np.dtype(dtype_name)
    return dt.itemsize * 8, dt.kind == "i"


# =========================================================================== section: views
KNOWN_PARTIAL_CACHE = "C18:measurements-partial-cache-after-rejection"
KNOWN_FOLD_OVERFLOW = "C18:histogram-fold_base-wide:numpy-accumulator-overflow"
KNOWN_DIGITS_OVERFLOW = "C18:digits_to_int-numpy-digits:accumulator-overflow"
KNOWN_NDARRAY_BASE = "C18:int_to_digits-ndarray-base+digit_count:ambiguous-truth"
KNOWN_KEYS = (KNOWN_PARTIAL_CACHE, KNOWN_FOLD_OVERFLOW, KNOWN_DIGITS_OVERFLOW, KNOWN_NDARRAY_BASE)
_KNOWN_CAP = 3


def _check(ctx, cond, monitor, mech, msg="", **w):
    """ctx.check, except that a mechanism classified as an already explained defect is stored at most
    _KNOWN_CAP times per worker (the rest is counted as an event) so that it cannot crowd out other violations."""
    if cond or mech not in KNOWN_KEYS:
        return ctx.check(cond, monitor, mech, msg, **w)
    ctx.ok(monitor)
    n = _S.setdefault("known_count", {})
    n[mech] = n.get(mech, 0) + 1
    if n[mech] <= _KNOWN_CAP:
        ctx.fail(mech, msg() if callable(msg) else msg, **w)
    ctx.event("explained-by:" + mech)
    return False


def _expect_flatten_error(ctx, m, r, fn, what):
    """A flattened view of a result with a repeated key: the documented ValueError is the expected outcome.

    Explained-by classification: once one flattened access has been (correctly) rejected, ResultDict keeps the
    partially filled `_measurements` dict; a later access that then returns silently or raises KeyError is
    attributed to that mechanism only if the partial cache is really there."""
    stale = getattr(m, "_rejected_once", False) and r.__dict__.get("_measurements") is not None
    try:
        fn()
    except ValueError as e:
        ok = "Cannot extract 2D measurements for repeated keys" in str(e)
        ctx.check(ok, "flatten-rejection", "C18:flatten-wrong-error:" + what, "ValueError with another message: %s" % e)
        ctx.reject("repeated-key-flattened-view")
        m._rejected_once = True
        return
    except KeyError as e:
        _check(ctx, False, "flatten-rejection", KNOWN_PARTIAL_CACHE if stale else "C18:flatten-keyerror:" + what,
                  "flattened view %s of a result with a repeated key raised KeyError(%s) instead of the documented "
                  "ValueError (after an earlier, correctly rejected access)" % (what, e), view=what, **_wit(m))
        return
    _check(ctx, False, "flatten-rejection", KNOWN_PARTIAL_CACHE if stale else "C18:flatten-no-error:" + what,
              "flattened view %s of a result with a key measured more than once returned silently instead of raising "
              "the documented ValueError%s" % (what, " (after an earlier, correctly rejected access)" if stale else ""),
              view=what, cached_keys=list((r.__dict__.get("_measurements") or {}).keys()), **_wit(m))


def check_records(ctx, r, m, tag="records"):
    rec = r.records
    ok = list(rec.keys()) == m.keys if tag == "records" else set(rec.keys()) == set(m.keys)
    ctx.check(ok, "records==model", "C18:%s-keys" % tag, "keys %r != %r" % (list(rec.keys()), m.keys))
    if set(rec.keys()) != set(m.keys):
        return False
    good = True
    for k in m.keys:
        good &= ctx.check(_arr_eq(rec[k], m.record_shape(k), m.recs[k]), "records==model", "C18:%s-content" % tag,
                          lambda: "records[%r] shape %s, model shape %s" % (k, rec[k].shape, m.record_shape(k)),
                          key=k, got=rec[k], **_wit(m))
    ctx.check(r.repetitions == m.reps, "repetitions==model", "C18:repetitions", "%r != %r" % (r.repetitions, m.reps))
    return good


def check_data(ctx, df, m, mech="C18:data"):
    """Data frame (bits only): one row per repetition, one column per key, exact big-endian integers."""
    cols = m.data_columns()
    if not ctx.check(list(df.columns) == m.keys, "data==model", mech + "-columns", "%r" % list(df.columns)):
        return
    ctx.check(len(df) == m.reps and list(df.index) == list(range(m.reps)), "data==model", mech + "-index",
              "index %r for %d repetitions" % (list(df.index)[:12], m.reps))
    for k in m.keys:
        vals = list(df[k])
        typed = all(isinstance(v, (int, np.integer)) and not isinstance(v, (bool, np.bool_)) for v in vals)
        try:
            got = [int(v) for v in vals]
        except (TypeError, ValueError):
            got = None
        w = dict(key=k, width=m.shapes[k][1], got=[str(v) for v in vals[:10]], want=[str(v) for v in cols[k][:10]])
        if got != cols[k] and got == [RM.bits_to_int(row[::-1]) for row in m.rows(k)]:
            ctx.check(False, "data==model", mech + "-little-endian", "data[%r] is the little-endian integer" % k, **w)
        else:
            ctx.check(got == cols[k], "data==model", mech + "-values",
                      "data[%r] is not the big-endian integer of each repetition" % k, **w)
        ctx.check(typed, "data-exact-int-type", mech + "-value-type", "data[%r] holds non-integer objects: %r" %
                  (k, sorted({type(v).__name__ for v in vals})), **w)
    want_obj = m.data_needs_object()
    kinds = {str(df[k].dtype) for k in m.keys}
    ctx.check(kinds == ({"object"} if want_obj else {"int64"}), "data-dtype", mech + "-dtype",
              "column dtypes %r, widths %r" % (sorted(kinds), [m.shapes[k][1] for k in m.keys]))


def _check_hist(ctx, got, want, mech, msg, known_alt=None, **w):
    """Compare a Counter with integer keys against the model Counter; classify by mechanism."""
    g, kinds = _counter_ints(got)
    if "float" in kinds:
        ctx.event("histogram-float-keys")
    if g == dict(want):
        ctx.check("other" not in kinds and "bool" not in kinds, "histogram==model", mech + "-key-type",
                  "key types %r" % sorted(kinds), **w)
        return True
    key = mech
    if known_alt is not None:
        for name, alt in known_alt:
            if g == dict(alt):
                key = name if name.startswith("C18:") else mech + ":" + name
                break
    _check(ctx, False, "histogram==model", key, msg, got={str(k): v for k, v in list(g.items())[:8]},
              want={str(k): v for k, v in list(want.items())[:8]}, **w)
    return False


def check_histograms(ctx, rng, r, m, given):
    import cirq

    ks = list(m.keys)
    rng.shuffle(ks)
    for k in ks[:2]:
        nd = m.shapes[k][1]
        bases = m.bases[k]
        rows = m.rows(k)
        binary = m.is_binary(k)
        w = dict(key=k, width=nd, bases=bases if len(set(bases)) > 1 else bases[:1], dtype=m.dtypes[k], reps=m.reps,
                 rows=rows if m.reps * nd <= 200 else None)
        designator = _designator(rng, k)
        if binary:
            want = m.histogram(k, RM.bits_to_int)
            little = m.histogram(k, lambda row: RM.bits_to_int(row[::-1]))
            _check_hist(ctx, r.histogram(key=designator), want, "C18:histogram-default",
                        "histogram(key) != Counter of big-endian integers over the model rows",
                        known_alt=[("little-endian", little)], **w)
            _touch(r)
        # fold_base as one integer (>= every base of the key)
        b = max(bases) + int(rng.integers(0, 3)) * int(rng.random() < 0.3)
        _fold_base_case(ctx, r, m, k, designator, b, [b] * nd, w)
        # fold_base as per-digit list
        fb = list(bases) if rng.random() < 0.5 else tuple(bases)
        _fold_base_case(ctx, r, m, k, designator, fb, list(bases), w)
        # custom fold function
        name, f = ROW_FOLDS[int(rng.integers(len(ROW_FOLDS)))]
        got = r.histogram(key=designator, fold_func=f)
        ctx.check(dict(got) == dict(m.histogram(k, f)), "histogram==model", "C18:histogram-fold_func:" + name,
                  "histogram(key, fold_func=%s) != Counter over the model rows" % name, **w)
        # documented rejections
        if rng.random() < 0.15:
            try:
                r.histogram(key=k, fold_func=f, fold_base=2)
                ctx.check(False, "histogram-rejections", "C18:histogram-both-folds-accepted", "no ValueError")
            except ValueError as e:
                ctx.check("Cannot specify both" in str(e), "histogram-rejections", "C18:histogram-both-folds-message", str(e))
                ctx.reject("histogram:fold_func+fold_base")
            try:
                r.histogram(key=k, fold_base=list(bases) + [2])
                ctx.check(False, "histogram-rejections", "C18:histogram-wrong-base-count-accepted", "no ValueError", **w)
            except ValueError as e:
                ctx.check("len(digits) != len(base)" in str(e), "histogram-rejections",
                          "C18:histogram-wrong-base-count-message", str(e))
                ctx.reject("histogram:len(fold_base)")
    # multi-key histograms: subsets in any order
    for _ in range(2):
        n = int(rng.integers(0, len(m.keys) + 1))
        sub = [str(x) for x in rng.choice(m.keys, size=n, replace=False)] if n else []
        if n and rng.random() < 0.15:
            sub.append(sub[0])
        w = dict(keys=sub, reps=m.reps, widths=[m.shapes[k][1] for k in sub])
        des = [_designator(rng, k) for k in sub]
        if all(m.is_binary(k) for k in sub):
            want = m.multi_histogram(sub, lambda t: tuple(RM.bits_to_int(row) for row in t))
            got = r.multi_measurement_histogram(keys=des)
            gg = {tuple(int(x) for x in kk): int(v) for kk, v in got.items()}
            ctx.check(gg == dict(want) and sum(got.values()) == m.reps, "multi_histogram==model",
                      "C18:multi_histogram-default", "multi_measurement_histogram(keys) != Counter over model rows",
                      got=list(gg.items())[:6], want=list(want.items())[:6], **w)
        name, f = ROW_FOLDS[int(rng.integers(len(ROW_FOLDS)))]
        if rng.random() < 0.5:
            ff = lambda t, f=f: tuple(f(row) for row in t)  # noqa: E731
        else:
            ff = lambda t, f=f: (len(t), sum(_f_weighted(row) * (i + 1) for i, row in enumerate(t)))  # noqa: E731
        got = r.multi_measurement_histogram(keys=des, fold_func=ff)
        ctx.check(dict(got) == dict(m.multi_histogram(sub, ff)), "multi_histogram==model",
                  "C18:multi_histogram-fold_func", "multi_measurement_histogram(keys, fold_func) != model", **w)
    _touch(r)


def _designator(rng, k):
    """The same key as str, cirq.Qid or iterable of Qids when its name is a qubit-style name."""
    import cirq

    if rng.random() < 0.5:
        return k
    if k == "q(0)":
        return cirq.LineQubit(0)
    if k == "q(3)":
        return [cirq.LineQubit(3)]
    if k == "q(1),q(2)":
        return (cirq.LineQubit(1), cirq.LineQubit(2))
    return k


def _fold_base_case(ctx, r, m, k, designator, fold_base, base_list, w):
    rows = m.rows(k)
    want = m.histogram(k, lambda row: RM.digits_to_int(row, base_list))
    wide = RM.radix_capacity(base_list) - 1 > INT64_MAX
    bits, signed = _np_accumulator(m.dtypes[k])
    wrapped = collections.Counter(RM.wrapped_digits_to_int(row, base_list, bits, signed) for row in rows)
    kind = "int" if isinstance(fold_base, int) else "list"
    mech = "C18:histogram-fold_base-%s%s" % (kind, "-wide" if wide else "")
    w = dict(w, fold_base=fold_base if isinstance(fold_base, int) or len(set(fold_base)) > 1 else list(fold_base)[:1],
             capacity_bits=RM.radix_capacity(base_list).bit_length())
    try:
        got = r.histogram(key=designator, fold_base=fold_base)
    except OverflowError as e:
        # numpy scalar arithmetic refusing a Python int: same root cause as the silent wrap-around
        _check(ctx, False, "histogram==model", KNOWN_FOLD_OVERFLOW if wide else mech + ":OverflowError",
                  "OverflowError: %s" % e, **w)
        return
    alts = [(KNOWN_FOLD_OVERFLOW, wrapped)] if wide and dict(wrapped) != dict(want) else None
    _check_hist(ctx, got, want, mech,
                "histogram(key, fold_base=...) != Counter of exact mixed-radix integers over the model rows",
                known_alt=alts, **w)
    ctx.ok("histogram-wide-fallback" if wide else "histogram-vectorized")


def check_text(ctx, r, m):
    import cirq
    import sympy

    if m.reps >= 1:
        s = str(r)
        ctx.check(s == m.text(), "str==model", "C18:str", "str(result) differs from the model text",
                  got=s[:400], want=m.text()[:400])
        try:
            r2 = eval(repr(r), {"cirq": cirq, "np": np, "numpy": np, "sympy": sympy})
        except Exception as e:  # noqa
            ctx.check(False, "repr-eval==model", "C18:repr-not-evaluable", "%s: %s" % (type(e).__name__, e),
                      repr=repr(r)[:400])
            return
        _register(r2, m)
        ok = check_records(ctx, r2, m, tag="repr-eval")
        ctx.check(ok and (r2 == r) is True and dict(r2.params.param_dict) == m.params, "repr-eval==model",
                  "C18:repr-eval", "eval(repr(result)) != result")
        ctx.check(all(r2.records[k].dtype == r.records[k].dtype for k in m.keys), "repr-eval==model",
                  "C18:repr-eval-dtype", "dtype changed through repr")
    else:
        s = str(r)
        lines = s.split("\n") if s else []
        ctx.check([ln.split("=")[0] for ln in lines] == [k for k in sorted(m.keys) for _ in range(
            m.shapes[k][0] if r.__dict__.get("_records") else 1)] or len(lines) == 0 and not m.keys,
            "str==model", "C18:str-empty", "str of a 0-repetition result does not list the sorted keys", got=s)


def sec_views(ctx, rng, case):
    import cirq

    m = gen_model(rng)
    r, given, mode = build_result(rng, m)
    snapshot = {k: a.copy() for k, a in given.items()}
    nontrivial, asym = _nontrivial(m)
    order = [0, 1, 2, 3, 4]
    rng.shuffle(order)  # lazily cached views must not depend on which one is asked first
    for step in order:
        if step == 0:
            check_records(ctx, r, m)
        elif step == 1:
            if m.flattenable():
                meas = r.measurements
                ctx.check(list(meas.keys()) == m.keys, "measurements==model", "C18:measurements-keys", "")
                for k in m.keys:
                    ctx.check(_arr_eq(meas.get(k), (m.reps, m.shapes[k][1]), m.rows(k)), "measurements==model",
                              "C18:measurements-content", "measurements[%r] != records[%r][:, 0, :]" % (k, k),
                              key=k, got=meas.get(k), **_wit(m))
            else:
                _expect_flatten_error(ctx, m, r, lambda: r.measurements, "measurements")
        elif step == 2:
            if not m.flattenable():
                _expect_flatten_error(ctx, m, r, lambda: r.data, "data")
                _expect_flatten_error(ctx, m, r, lambda: r.histogram(key=m.keys[0]), "histogram")
            elif m.is_binary():
                check_data(ctx, r.data, m)
                if rng.random() < 0.3:
                    check_data(ctx, cirq.Result.dataframe_from_measurements(r.measurements), m,
                               mech="C18:dataframe_from_measurements")
        elif step == 3:
            if m.flattenable():
                check_histograms(ctx, rng, r, m, given)
        else:
            check_text(ctx, r, m)
    # nothing above may have changed the records or the caller's arrays
    check_records(ctx, r, m, tag="records-after-views")
    ctx.check(all(np.array_equal(given[k], snapshot[k]) for k in given), "caller-arrays-untouched",
              "C18:input-mutated", "an array handed to the constructor was modified by a view")
    ctx.distinct(("views", mode, m.fingerprint()), nontrivial=nontrivial)
    ctx.event("profile:" + m.profile)
    if asym["rows_distinct"] and asym["cols_distinct"]:
        ctx.event("fully-asymmetric-result")
    ctx.sample({"mode": mode, "keys": m.keys, "shapes": [m.record_shape(k) for k in m.keys],
                "dtypes": [m.dtypes[k] for k in m.keys], "asymmetry": asym,
                "first_key_records": m.recs[m.keys[0]] if m.reps * m.shapes[m.keys[0]][0] * m.shapes[m.keys[0]][1] <= 80 else "large"})


# =========================================================================== section: == and +
def _mutate(rng, m):
    """A model that differs from m in exactly one aspect (or not at all: kind 'same')."""
    kind = str(rng.choice(["same", "digit", "swap-reps", "rename", "drop-key", "params", "swap-inst", "shape"]))
    keys, recs, shapes, params = list(m.keys), {k: [[list(i) for i in rep] for rep in m.recs[k]] for k in m.keys}, \
        dict(m.shapes), dict(m.params)
    k = keys[int(rng.integers(len(keys)))]
    ni, nd = shapes[k]
    if kind == "digit" and m.reps:
        r_, j, i = int(rng.integers(m.reps)), int(rng.integers(ni)), int(rng.integers(nd))
        recs[k][r_][j][i] = (recs[k][r_][j][i] + 1) % m.bases[k][i]
    elif kind == "swap-reps" and m.reps >= 2:
        a, b = (int(x) for x in rng.choice(m.reps, size=2, replace=False))
        recs[k][a], recs[k][b] = recs[k][b], recs[k][a]
    elif kind == "rename":
        new = k + "'"
        keys[keys.index(k)] = new
        recs[new], shapes[new] = recs.pop(k), shapes.pop(k)
    elif kind == "drop-key" and len(keys) > 1:
        keys.remove(k)
        recs.pop(k)
        shapes.pop(k)
    elif kind == "params":
        params["extra"] = 1
    elif kind == "swap-inst" and ni >= 2 and m.reps:
        r_ = int(rng.integers(m.reps))
        recs[k][r_][0], recs[k][r_][1] = recs[k][r_][1], recs[k][r_][0]
    elif kind == "shape" and m.reps and nd >= 2 and ni == 1:
        # same buffer, other factorisation: (reps, 1, nd) -> (reps, 1, nd-1) drops the last digit
        recs[k] = [[inst[:-1] for inst in rep] for rep in recs[k]]
        shapes[k] = (ni, nd - 1)
    m2 = RM.RecordsModel(keys, recs, shapes, params)
    bases, dtypes = {}, {}
    for kk in keys:
        src = kk[:-1] if kk not in m.bases else kk
        bases[kk] = m.bases[src][: shapes[kk][1]]
        dtypes[kk] = str(rng.choice(BIT_DTYPES if set(bases[kk]) <= {2} else DIG_DTYPES))
    m2.bases, m2.dtypes, m2.profile = bases, dtypes, m.profile
    return kind, m2


def sec_combine(ctx, rng, case):
    import cirq

    a = gen_model(rng)
    ra, _, mode_a = build_result(rng, a)
    nontrivial, _ = _nontrivial(a)
    # ---- equality against an independently built twin and against one-aspect mutants
    kind, a2 = _mutate(rng, a)
    ra2, _, _ = build_result(rng, a2)
    want = a.same_story(a2)
    got = ra == ra2
    ctx.check(got is want, "eq==model", "C18:eq:" + kind, "(r1 == r2) is %r, model says %r" % (got, want),
              mutation=kind, **_wit(a))
    ctx.check((ra != ra2) is (not want), "eq==model", "C18:ne:" + kind, "!= inconsistent with the model")
    ctx.check((ra == ra) is True, "eq==model", "C18:eq-reflexive", "")
    # ---- concatenation
    if rng.random() < 0.75:
        b = gen_model(rng, reps=int(rng.integers(0, 7)), shapes_like=a, params=a.params)
        bkind = "compatible"
    else:
        bkind, b = _mutate(rng, a)
    if len(b.keys) >= 2 and rng.random() < 0.45:
        # the same keys handed over in another order: records are paired up by key, not by position
        order = [b.keys[i] for i in rng.permutation(len(b.keys))]
        b2 = RM.RecordsModel(order, b.recs, b.shapes, b.params)
        b2.bases, b2.dtypes, b2.profile = b.bases, b.dtypes, b.profile
        b = b2
        ctx.event("add:b-keys-permuted" if order != list(a.keys) else "add:b-keys-same-order")
    rb, _, _ = build_result(rng, b)
    try:
        want_sum = a.concat(b)
    except RM.ShapeMismatch as e:
        want_sum = None
        why = str(e)
    try:
        rs = ra + rb
    except ValueError as e:
        ok = want_sum is None and "Cannot add results with different" in str(e)
        ctx.check(ok, "add==model-concat", "C18:add-rejected-compatible" if want_sum is not None else "C18:add-error-message",
                  "a + b raised %s" % e, mutation=bkind, **_wit(a))
        if want_sum is None:
            ctx.reject("add:" + why)
        rs = None
    else:
        if want_sum is None:
            ctx.check(False, "add==model-concat", "C18:add-accepted-mismatch:" + why,
                      "a + b of results with different %s did not raise the documented ValueError" % why,
                      mutation=bkind, a=_wit(a), b=_wit(b))
            rs = None
    if rs is not None:
        ok = set(rs.records.keys()) == set(want_sum.keys)
        if ok:
            # (which operand's key order the sum's columns follow is not documented: take the sum's own)
            want_sum = RM.RecordsModel(list(rs.records.keys()), want_sum.recs, want_sum.shapes, want_sum.params)
        _register(rs, want_sum)
        for k in want_sum.keys:
            arr = rs.records.get(k)
            good = _arr_eq(arr, want_sum.record_shape(k), want_sum.recs[k])
            ok &= good
            if not good:
                ni = a.shapes[k][0]
                along_inst = arr is not None and tuple(arr.shape) == (a.reps, 2 * ni, a.shapes[k][1]) and a.reps == b.reps
                ctx.check(False, "add==model-concat", "C18:add-instance-axis" if along_inst else "C18:add-content",
                          "records[%r] of a + b is not a's repetitions followed by b's (shape %s, expected %s)" %
                          (k, None if arr is None else arr.shape, want_sum.record_shape(k)), key=k,
                          a=_wit(a), b_reps=b.reps)
        ctx.check(ok, "add==model-concat", "C18:add-content", "a + b != concatenation along repetitions")
        ctx.check(rs.repetitions == a.reps + b.reps, "add==model-concat", "C18:add-repetitions",
                  "%r != %d + %d" % (rs.repetitions, a.reps, b.reps))
        ctx.check(dict(rs.params.param_dict) == a.params, "add==model-concat", "C18:add-params", "")
        check_records(ctx, ra, a, tag="operand-after-add")
        check_records(ctx, rb, b, tag="operand-after-add")
        # flattened views of the sum
        if want_sum.flattenable() and want_sum.is_binary():
            check_data(ctx, rs.data, want_sum, mech="C18:add-data")
        # associativity with a third operand
        if rng.random() < 0.4:
            c = gen_model(rng, reps=int(rng.integers(0, 4)), shapes_like=a, params=a.params)
            rc, _, _ = build_result(rng, c)
            left, right = (ra + rb) + rc, ra + (rb + rc)
            abc = want_sum.concat(c)
            if set(left.records.keys()) == set(abc.keys):
                abc = RM.RecordsModel(list(left.records.keys()), abc.recs, abc.shapes, abc.params)
            _register(left, abc)
            ok = all(_arr_eq(x.records.get(k), abc.record_shape(k), abc.recs[k]) for x in (left, right) for k in abc.keys)
            ctx.check(ok and (left == right) is True, "add==model-concat", "C18:add-associative", "")
    ctx.distinct(("combine", kind, bkind, a.fingerprint(), b.reps), nontrivial=nontrivial and a.reps + b.reps >= 2)
    ctx.sample({"eq_mutation": kind, "eq": bool(got), "add_operand": bkind, "a_shapes": [a.record_shape(k) for k in a.keys],
                "b_reps": b.reps, "sum_ok": rs is not None})


# =========================================================================== section: JSON
def _payload_check(ctx, k, pay, arr_dtype, m):
    """One packed record of the JSON document against the model."""
    shape = m.record_shape(k)
    flat = m.flat(k)
    w = dict(key=k, shape=shape, dtype=arr_dtype, payload={kk: (vv if kk != "packed_digits" else vv[:80]) for kk, vv in pay.items()})
    ctx.check(pay.get("binary") is m.is_binary(k), "json-payload", "C18:json-binary-flag",
              "binary=%r for %s digits" % (pay.get("binary"), "0/1" if m.is_binary(k) else "non-binary"), **w)
    ctx.check(tuple(pay.get("shape") or ()) == shape and pay.get("dtype") == arr_dtype, "json-payload",
              "C18:json-shape-dtype", "shape/dtype fields %r %r" % (pay.get("shape"), pay.get("dtype")), **w)
    try:
        if pay.get("binary"):
            bits, pad = RM.unpack_bits_hex(pay["packed_digits"], len(flat))
            ok = bits == flat and not any(pad) and len(pad) < 8
            ctx.check(ok, "json-payload", "C18:json-bit-packing",
                      "packed bits are not the C-order records, most significant bit first, zero padded at the end", **w)
            ctx.ok("json-bit-packed")
        else:
            name, shp, data = RM.npy_parse(bytes.fromhex(pay["packed_digits"]))
            ok = data == flat and tuple(shp) == shape and name == arr_dtype
            ctx.check(ok, "json-payload", "C18:json-digit-packing",
                      "npy payload holds dtype %s shape %s" % (name, shp), **w)
            ctx.ok("json-digit-packed")
    except (ValueError, KeyError, SyntaxError) as e:
        ctx.check(False, "json-payload", "C18:json-payload-unreadable", "%s: %s" % (type(e).__name__, e), **w)


def _model_doc(m, params_doc, legacy):
    """A ResultDict JSON document written by the model's own packers."""
    packed = {}
    for k in m.keys:
        shape = m.record_shape(k) if not legacy else (m.reps, m.shapes[k][1])
        flat = m.flat(k)
        if m.is_binary(k):
            packed[k] = {"packed_digits": RM.pack_bits_hex(flat), "binary": True, "dtype": m.dtypes[k], "shape": list(shape)}
        else:
            packed[k] = {"packed_digits": RM.npy_build(m.dtypes[k], shape, flat).hex(), "binary": False,
                         "dtype": m.dtypes[k], "shape": list(shape)}
    doc = {"cirq_type": "ResultDict", "params": params_doc}
    doc["measurements" if legacy else "records"] = packed
    return doc


def sec_json(ctx, rng, case):
    import cirq

    m = gen_model(rng)
    r, given, mode = build_result(rng, m)
    nontrivial, _ = _nontrivial(m)
    use_gzip = rng.random() < 0.2
    if use_gzip:
        blob = cirq.to_json_gzip(r)
        txt = gzip.decompress(blob).decode("utf-8")
    else:
        txt = cirq.to_json(r)
    doc = json.loads(txt)
    ctx.check(doc.get("cirq_type") == "ResultDict" and set(doc.get("records", {})) == set(m.keys), "json-payload",
              "C18:json-document", "cirq_type/keys: %r %r" % (doc.get("cirq_type"), list(doc.get("records", {}))))
    for k in m.keys:
        if k in doc.get("records", {}):
            _payload_check(ctx, k, doc["records"][k], str(r.records[k].dtype), m)
    r2 = cirq.read_json_gzip(gzip_raw=blob) if use_gzip else cirq.read_json(json_text=txt)
    _register(r2, m)
    ok = check_records(ctx, r2, m, tag="json-roundtrip")
    ctx.check(ok and (r2 == r) is True, "json-roundtrip", "C18:json-roundtrip-unequal", "read_json(to_json(r)) != r", **_wit(m))
    same = all(r2.records[k].dtype == r.records[k].dtype and r2.records[k].shape == r.records[k].shape for k in m.keys)
    ctx.check(same, "json-roundtrip", "C18:json-roundtrip-dtype-shape", "dtypes %r -> %r" % (
        [str(r.records[k].dtype) for k in m.keys], [str(r2.records[k].dtype) for k in m.keys]))
    ctx.check(dict(r2.params.param_dict) == m.params, "json-roundtrip", "C18:json-roundtrip-params", "")
    if m.flattenable() and m.is_binary():
        check_data(ctx, r2.data, m, mech="C18:json-data")
    # documents written by the model's own packers (current and legacy 'measurements' form)
    legacy = m.flattenable() and rng.random() < 0.5
    mdoc = _model_doc(m, doc["params"], legacy)
    r3 = cirq.read_json(json_text=json.dumps(mdoc))
    _register(r3, m)
    ok = check_records(ctx, r3, m, tag="json-model-document")
    ctx.check(ok and (r3 == r) is True, "json-read-model-document", "C18:json-read-%s" % ("legacy" if legacy else "records"),
              "a document packed by the model reads back differently", **_wit(m))
    ctx.check(all(str(r3.records[k].dtype) == m.dtypes[k] for k in m.keys), "json-read-model-document",
              "C18:json-read-dtype", "dtypes %r, document says %r" % ([str(r3.records[k].dtype) for k in m.keys],
                                                                      [m.dtypes[k] for k in m.keys]))
    ctx.distinct(("json", mode, use_gzip, legacy, m.fingerprint()), nontrivial=nontrivial)
    ctx.sample({"keys": m.keys, "shapes": [m.record_shape(k) for k in m.keys], "dtypes": [m.dtypes[k] for k in m.keys],
                "binary": [m.is_binary(k) for k in m.keys], "gzip": use_gzip, "legacy_doc": legacy,
                "payload_head": {k: doc["records"][k]["packed_digits"][:32] for k in m.keys if k in doc.get("records", {})}})


# =========================================================================== section: digit functions
def _as_iter(rng, seq):
    u = rng.random()
    if u < 0.4:
        return list(seq)
    if u < 0.7:
        return tuple(seq)
    return iter(list(seq))


def _expect_value_error(ctx, fn, pattern, mech, **w):
    try:
        out = fn()
    except ValueError as e:
        ctx.check(re.search(pattern, str(e)) is not None, "digits-documented-errors", mech + "-message", str(e), **w)
        ctx.reject(mech.split(":", 1)[1])
        return
    ctx.check(False, "digits-documented-errors", mech + "-accepted", "returned %r instead of raising ValueError" % (out,), **w)


def _gen_bases(rng):
    n = int(rng.choice([0, 1, 2, 3, 5, 8, 13, 21, 40, 64, 70, 80]))
    u = rng.random()
    if u < 0.25:
        return [2] * n
    if u < 0.45:
        return [int(rng.integers(2, 10))] * n
    if u < 0.85:
        return [int(x) for x in rng.integers(2, 8, size=n)]
    return [int(rng.choice([2, 3, 10, 1000, 2 ** 40, 2 ** 70 + 1])) for _ in range(n)]


def sec_digits(ctx, rng, case):
    import cirq

    kind = int(rng.integers(6))  # not case % 6: shards stride the case index
    if kind == 0:  # mixed radix, both directions
        bases = _gen_bases(rng)
        digits = [int(rng.integers(0, min(b, 2 ** 62))) if b < 2 ** 62 else int(rng.integers(0, 2 ** 62)) * 3 % b for b in bases]
        want = RM.digits_to_int(digits, bases)
        w = dict(bases=bases if len(bases) <= 24 else bases[:24] + ["..."], digits=digits if len(digits) <= 24 else digits[:24] + ["..."],
                 n=len(bases))
        got = cirq.big_endian_digits_to_int(_as_iter(rng, digits), base=_as_iter(rng, bases))
        little = RM.digits_to_int(digits[::-1], bases[::-1])
        ctx.check(got == want and type(got) is int, "digits==model",
                  "C18:digits_to_int-little-endian" if got == little != want else "C18:digits_to_int-mixed",
                  "big_endian_digits_to_int = %r, model %r" % (got, want), **w)
        back = cirq.big_endian_int_to_digits(want, base=_as_iter(rng, bases))
        ctx.check(list(back) == digits, "digits==model", "C18:int_to_digits-mixed", "int_to_digits(%r) = %r" % (want, back), **w)
        back2 = cirq.big_endian_int_to_digits(want, digit_count=len(bases), base=tuple(bases))
        ctx.check(list(back2) == digits, "digits==model", "C18:int_to_digits-mixed-count", "%r" % (back2,), **w)
        ctx.check(all(type(x) is int for x in back), "digits-types", "C18:int_to_digits-types", "")
        ctx.distinct(("mixed", tuple(bases), tuple(digits)), nontrivial=len(bases) >= 2 and digits != digits[::-1])
        ctx.sample({"bases": w["bases"], "digits": w["digits"], "value": str(want)})
    elif kind == 1:  # one base for all digits, explicit digit_count (base 2 takes a fast path)
        b = int(rng.choice([2, 2, 3, 4, 5, 7, 10, 16, 257]))
        n = int(rng.choice([0, 1, 2, 3, 7, 8, 9, 31, 63, 64, 65, 70, 100]))
        digits = [int(x) for x in rng.integers(0, b, size=n)]
        if n and rng.random() < 0.4:
            z = int(rng.integers(1, n + 1))
            digits[:z] = [0] * z  # leading zeros
        want = RM.digits_to_int(digits, [b] * n)
        w = dict(base=b, n=n, digits=digits if n <= 24 else None, value=str(want))
        got = cirq.big_endian_digits_to_int(_as_iter(rng, digits), base=b)
        ctx.check(got == want and type(got) is int, "digits==model", "C18:digits_to_int-uniform", "%r != %r" % (got, want), **w)
        back = cirq.big_endian_int_to_digits(want, digit_count=n, base=b)
        ctx.check(list(back) == digits and len(back) == n, "digits==model", "C18:int_to_digits-uniform(base=%s)" %
                  ("2" if b == 2 else "n"), "int_to_digits(%r, digit_count=%d, base=%d) = %r" % (want, n, b, back), **w)
        ctx.check(all(type(x) is int for x in back), "digits-types", "C18:int_to_digits-types", "")
        ctx.distinct(("uniform", b, tuple(digits)), nontrivial=n >= 2 and digits != digits[::-1])
    elif kind == 2:  # bits
        n = int(rng.choice([0, 1, 2, 3, 5, 8, 9, 31, 32, 63, 64, 65, 70, 128]))
        bits = [int(x) for x in rng.integers(0, 2, size=n)]
        want = RM.bits_to_int(bits)
        form = int(rng.integers(4))
        arg = [bits, [bool(x) for x in bits], np.array(bits, dtype=bool), np.array(bits, dtype=np.int8)][form]
        got = cirq.big_endian_bits_to_int(arg)
        w = dict(n=n, bits=bits if n <= 32 else None, form=["int", "bool", "np.bool", "np.int8"][form])
        ctx.check(got == want and type(got) is int, "digits==model",
                  "C18:bits_to_int-little-endian" if got == RM.bits_to_int(bits[::-1]) != want else "C18:bits_to_int",
                  "%r != %r" % (got, want), **w)
        back = cirq.big_endian_int_to_bits(want, bit_count=n)
        ctx.check(list(back) == bits, "digits==model", "C18:int_to_bits", "%r" % (back,), **w)
        # documented: values beyond 2**bit_count lose their high bits, negatives use two's complement
        val = int(rng.integers(-2 ** 62, 2 ** 62)) * int(rng.choice([1, 1, 2 ** 20, 2 ** 70]))
        cnt = int(rng.choice([0, 1, 4, 8, 33, 64, 70, 90]))
        got2 = cirq.big_endian_int_to_bits(val, bit_count=cnt)
        ctx.check(list(got2) == RM.int_to_bits(val, cnt), "digits==model", "C18:int_to_bits-twos-complement",
                  "int_to_bits(%d, bit_count=%d) = %r" % (val, cnt, got2), val=str(val), bit_count=cnt)
        ctx.check(cirq.big_endian_bits_to_int(got2) == val % (1 << cnt), "digits==model", "C18:bits-int-inverse", "")
        ctx.distinct(("bits", tuple(bits), str(val), cnt), nontrivial=n >= 2 and bits != bits[::-1])
    elif kind == 3:  # exhaustive over a small mixed radix: a bijection onto range(capacity) that keeps lexicographic order
        n = int(rng.integers(1, 5))
        bases = [int(x) for x in rng.integers(2, 6, size=n)]
        cap = RM.radix_capacity(bases)
        tuples = list(itertools.product(*[range(b) for b in bases]))  # lexicographic
        vals = [cirq.big_endian_digits_to_int(t, base=bases) for t in tuples]
        ctx.check(vals == list(range(cap)), "digits==model", "C18:digits_to_int-not-lexicographic-bijection",
                  "digit tuples in lexicographic order do not map to 0..capacity-1", bases=bases, head=vals[:12])
        backs = [tuple(cirq.big_endian_int_to_digits(v, base=bases)) for v in range(cap)]
        ctx.check(backs == tuples, "digits==model", "C18:int_to_digits-not-inverse", "", bases=bases)
        if len(set(bases)) == 1:
            backs = [tuple(cirq.big_endian_int_to_digits(v, digit_count=n, base=bases[0])) for v in range(cap)]
            ctx.check(backs == tuples, "digits==model", "C18:int_to_digits-not-inverse(uniform)", "", bases=bases)
        ctx.ok("digits-exhaustive-radix", cap)
        ctx.distinct(("exhaustive", tuple(bases)), nontrivial=n >= 2)
    elif kind == 4:  # documented errors
        bases = [int(x) for x in rng.integers(2, 7, size=int(rng.integers(1, 9)))]
        digits = [int(rng.integers(0, b)) for b in bases]
        i = int(rng.integers(len(bases)))
        bad = list(digits)
        bad[i] = bases[i] if rng.random() < 0.6 else -1
        w = dict(bases=bases, digits=bad)
        _expect_value_error(ctx, lambda: cirq.big_endian_digits_to_int(bad, base=bases), r"Out of range digit",
                            "C18:digits_to_int-out-of-range-digit", **w)
        _expect_value_error(ctx, lambda: cirq.big_endian_digits_to_int(digits + [0], base=bases), r"len\(digits\) != len\(base\)",
                            "C18:digits_to_int-length-mismatch", **w)
        _expect_value_error(ctx, lambda: cirq.big_endian_int_to_digits(3, base=int(bases[0])), r"[Dd]igit count",
                            "C18:int_to_digits-no-digit-count", **w)
        _expect_value_error(ctx, lambda: cirq.big_endian_int_to_digits(0, digit_count=len(bases) + 1, base=bases),
                            r"Inconsistent digit count", "C18:int_to_digits-inconsistent-count", **w)
        cap = RM.radix_capacity(bases)
        over = cap + int(rng.integers(0, 5)) * int(rng.integers(0, cap + 1))
        _expect_value_error(ctx, lambda: cirq.big_endian_int_to_digits(over, base=bases), r"Out of range",
                            "C18:int_to_digits-value-too-large", value=over, **w)
        nb = int(rng.integers(1, 70))
        _expect_value_error(ctx, lambda: cirq.big_endian_int_to_digits((1 << nb) + int(rng.integers(0, 1 << min(nb, 60))),
                                                                       digit_count=nb, base=2), r"Out of range",
                            "C18:int_to_digits-value-too-large(base=2)", digit_count=nb)
        ctx.distinct(("errors", tuple(bases), tuple(bad)), nontrivial=True)
    else:  # numpy integers as digits: this is how ResultDict.histogram(fold_base=...) calls the function
        bases = _gen_bases(rng)
        bases = [min(b, 100) for b in bases] or [3]
        dt = str(rng.choice(["int8", "uint8", "int32", "int64", "bool"]))
        if dt == "bool":
            bases = [2] * len(bases)
        digits = [int(rng.integers(0, b)) for b in bases]
        want = RM.digits_to_int(digits, bases)
        bits, signed = _np_accumulator(dt)
        wrapped = RM.wrapped_digits_to_int(digits, bases, bits, signed)
        w = dict(bases=bases if len(bases) <= 24 else bases[:24] + ["..."], dtype=dt, n=len(bases), want=str(want),
                 digits=digits if len(digits) <= 24 else None)
        try:
            got = cirq.big_endian_digits_to_int(np.array(digits, dtype=dt), base=bases)
        except OverflowError as e:
            got = None
            w["error"] = str(e)
        if got is not None and int(got) == want:
            ctx.check(True, "digits==model", "C18:digits_to_int-numpy-digits")
            if type(got) is not int:
                ctx.event("digits_to_int-returns-numpy-scalar")
        else:
            explained = want != wrapped and (got is None or int(got) == wrapped)
            _check(ctx, False, "digits==model", KNOWN_DIGITS_OVERFLOW if explained else "C18:digits_to_int-numpy-digits",
                   "big_endian_digits_to_int(np.array(digits, %s), base) = %r, exact value %d (fixed-width wrap-around "
                   "would give %d)" % (dt, got, want, wrapped), **w)
        if INCLUDE_NDARRAY_BASE and rng.random() < 0.15 and len(bases) >= 2:
            try:
                back = cirq.big_endian_int_to_digits(want, digit_count=len(bases), base=np.array(bases))
                ctx.check([int(x) for x in back] == digits, "digits==model", "C18:int_to_digits-ndarray-base", "%r" % (back,), **w)
            except ValueError as e:
                _check(ctx, "ambiguous" not in str(e), "digits==model", KNOWN_NDARRAY_BASE,
                          "big_endian_int_to_digits(v, digit_count=n, base=np.array(bases)) raised ValueError: %s" % e, **w)
        ctx.distinct(("npdigits", dt, tuple(bases), tuple(digits)), nontrivial=len(bases) >= 2)


# =========================================================================== section: sampler entry points
def _mix_bit(cid, code, r, j, inst, i):
    x = ((cid + 1) * 2654435761) ^ ((code + 3) * 40503) ^ ((r + 5) * 2246822519) ^ ((j + 7) * 3266489917) \
        ^ ((inst + 11) * 668265263) ^ ((i + 13) * 374761393)
    x &= 0xFFFFFFFF
    x ^= x >> 15
    x = (x * 2246822519) & 0xFFFFFFFF
    x ^= x >> 13
    x = (x * 3266489917) & 0xFFFFFFFF
    x ^= x >> 16
    return x & 1


def fake_model(cid, keyspecs, code, pdict, reps):
    """Definition of the fake sampler's answer: key 'tag' spells (circuit id, resolver code, repetition index,
    repetitions) in 8+8+4+4 bits; every other key holds pseudo-random bits of all coordinates."""
    keys, recs, shapes = ["tag"], {}, {"tag": (1, 24)}
    recs["tag"] = [[RM.int_to_bits(cid, 8) + RM.int_to_bits(code, 8) + RM.int_to_bits(r, 4) + RM.int_to_bits(reps, 4)]
                   for r in range(reps)]
    for j, (name, ni, nd) in enumerate(keyspecs):
        keys.append(name)
        shapes[name] = (ni, nd)
        recs[name] = [[[_mix_bit(cid, code, r, j, inst, i) for i in range(nd)] for inst in range(ni)] for r in range(reps)]
    return RM.RecordsModel(keys, recs, shapes, pdict)


def _code_of(pdict):
    """Resolver -> 8-bit code: a in 1..15 (0 = absent), b in 0..15."""
    return (int(pdict.get("a", 0)) << 4) | int(pdict.get("b", 0))


class _Book:
    """What the harness knows about the circuits it handed out."""

    def __init__(self):
        self.circuits, self.specs, self.log = [], [], []

    def add(self, circuit, keyspecs):
        self.circuits.append(circuit)
        self.specs.append(keyspecs)
        return len(self.circuits) - 1

    def cid_of(self, program):
        for i, c in enumerate(self.circuits):
            if c is program:
                return i
        for i, c in enumerate(self.circuits):
            if c == program:
                return i
        raise AssertionError("fake sampler got a circuit the harness never made")


def _make_fakes():
    import cirq
    import duet

    class FakeBase(cirq.Sampler):
        def __init__(self, book):
            self.book = book
            self.expect, self.perm = 1, [0]
            self.waiting, self.arrivals, self.completions, self.timeouts = [], [], [], 0

        def _answer(self, program, params, repetitions):
            cid = self.book.cid_of(program)
            out = []
            for pr in cirq.to_resolvers(params):
                pd = {str(k): v for k, v in pr.param_dict.items()}
                m = fake_model(cid, self.book.specs[cid], _code_of(pd), pd, repetitions)
                out.append(cirq.ResultDict(params=pr, records={
                    k: np.array(m.recs[k], dtype=np.uint8).reshape(m.record_shape(k)) for k in m.keys}))
            self.book.log.append((cid, repetitions, len(out)))
            return out

    class SyncFake(FakeBase):
        def run_sweep(self, program, params, repetitions=1):
            return self._answer(program, params, repetitions)

    class AsyncFake(FakeBase):
        async def run_sweep_async(self, program, params, repetitions=1):
            fut = duet.AwaitableFuture()
            me = len(self.arrivals)
            self.arrivals.append(me)
            self.waiting.append(fut)
            if len(self.waiting) >= self.expect:
                w, self.waiting = self.waiting, []
                order = self.perm if len(self.perm) == len(w) else range(len(w))
                for i in order:
                    w[i].set_result(None)
            try:
                async with duet.timeout_scope(3.0):
                    await fut
            except TimeoutError:
                self.timeouts += 1
            self.completions.append(me)
            return self._answer(program, params, repetitions)

    return SyncFake, AsyncFake


def _gen_sweep(rng, allow_multi=True):
    """Abstract sweep -> (cirq sweepable, [param dict per resolver in the documented order], description)."""
    import cirq

    kind = str(rng.choice(["none", "dict", "resolver", "points", "product", "zip", "dicts", "sweeps", "mixed-order"]))
    if kind in ("sweeps", "mixed-order") and not allow_multi:
        kind = "product"
    avals = [int(x) for x in rng.choice(np.arange(1, 16), size=int(rng.integers(1, 5)), replace=False)]
    bvals = [int(x) for x in rng.choice(np.arange(0, 16), size=int(rng.integers(1, 4)), replace=False)]
    if kind == "none":
        return None, [{}], kind
    if kind == "dict":
        return {"a": avals[0]}, [{"a": avals[0]}], kind
    if kind == "resolver":
        return cirq.ParamResolver({"a": avals[0], "b": bvals[0]}), [{"a": avals[0], "b": bvals[0]}], kind
    if kind == "points":
        return cirq.Points("a", avals), [{"a": v} for v in avals], kind
    if kind == "product":  # the first factor is the outer loop
        if rng.random() < 0.3:
            sw = cirq.Points("b", bvals) * cirq.Points("a", avals)
            return sw, [{"a": x, "b": y} for y in bvals for x in avals], kind + "-ba"
        sw = cirq.Points("a", avals) * cirq.Points("b", bvals)
        return sw, [{"a": x, "b": y} for x in avals for y in bvals], kind
    if kind == "zip":
        n = min(len(avals), len(bvals))
        fa, fb = cirq.Points("a", avals[:n]), cirq.Points("b", bvals[:n])
        sw = cirq.Zip(fb, fa) if rng.random() < 0.3 else cirq.Zip(fa, fb)
        return sw, [{"a": x, "b": y} for x, y in zip(avals[:n], bvals[:n])], kind
    if kind == "dicts":
        ds = [{"a": x, "b": bvals[i % len(bvals)]} for i, x in enumerate(avals)]
        # the spelling order of a dict's keys carries no meaning
        return [({"b": d["b"], "a": d["a"]} if rng.random() < 0.4 else dict(d)) for d in ds], ds, kind
    if kind == "mixed-order":
        # several sweeps over the same two symbols, each spelling them in its own order
        n = min(len(avals), len(bvals))
        parts, pds = [], []
        for _ in range(int(rng.integers(2, 4))):
            xs = [int(x) for x in rng.choice(np.arange(1, 16), size=n, replace=False)]
            ys = [int(x) for x in rng.choice(np.arange(0, 16), size=n, replace=False)]
            fa, fb = cirq.Points("a", xs), cirq.Points("b", ys)
            form = int(rng.integers(4))
            if form == 0:
                parts.append(cirq.Zip(fa, fb))
            elif form == 1:
                parts.append(cirq.Zip(fb, fa))
            elif form == 2:
                parts.append({"b": ys[0], "a": xs[0]})
                xs, ys = xs[:1], ys[:1]
            else:
                parts.append({"a": xs[0], "b": ys[0]})
                xs, ys = xs[:1], ys[:1]
            pds += [{"a": x, "b": y} for x, y in zip(xs, ys)]
        return parts, pds, kind
    first = cirq.Points("a", avals)
    more = [int(x) for x in rng.choice(np.arange(1, 16), size=2, replace=False)]
    return [first, cirq.Points("a", more)], [{"a": v} for v in avals + more], kind


def _gen_fake_circuit(rng, book, wide=False):
    import cirq

    nk = int(rng.integers(1, 4))
    names = [str(x) for x in rng.choice(["m", "z", "k_0", "q(0)", "out", "A"], size=nk, replace=False)]
    specs, ops = [], [cirq.measure(*cirq.LineQubit.range(24), key="tag")]
    for name in names:
        ni = int(rng.choice([1, 1, 1, 2, 3]))
        nd = int(rng.choice([1, 2, 3, 5, 9, 17])) if not wide else int(rng.choice([64, 70]))
        specs.append((name, ni, nd))
        for _ in range(ni):
            ops.append(cirq.measure(*cirq.LineQubit.range(nd), key=name))
    c = cirq.Circuit(ops, strategy=cirq.InsertStrategy.NEW)
    if rng.random() < 0.3:
        c = c.freeze()
    return book.add(c, specs)


def _match(ctx, res, m, mech, what, **w):
    """One returned Result against the model of the run it must come from."""
    import cirq

    ok = isinstance(res, cirq.Result) and set(res.records.keys()) == set(m.keys) and all(
        _arr_eq(res.records[k], m.record_shape(k), m.recs[k]) for k in m.keys)
    pd = {str(k): v for k, v in res.params.param_dict.items()} if isinstance(res, cirq.Result) else None
    decoded = None
    if not ok and isinstance(res, cirq.Result) and "tag" in res.records and res.records["tag"].size:
        t = [int(x) for x in res.records["tag"][0, 0, :]]
        decoded = dict(circuit=RM.bits_to_int(t[:8]), resolver_code=RM.bits_to_int(t[8:16]), reps=RM.bits_to_int(t[20:24]),
                       shape=list(res.records["tag"].shape))
    want_tag = dict(circuit=RM.bits_to_int(m.recs["tag"][0][0][:8]), resolver_code=_code_of(m.params), reps=m.reps) \
        if "tag" in m.keys and m.reps else None
    ctx.check(ok and pd == m.params, "sampler-order+shape", mech,
              "%s: returned result does not belong to the requested (circuit, resolver, repetitions)" % what,
              returned_run=decoded, requested_run=want_tag, returned_params=pd, requested_params=m.params, **w)
    return ok


def _sample_frame_check(ctx, df, blocks, mech, **w):
    """sample(): blocks = [(param dict, model)] in sweep order; rows = repetitions of each block in turn,
    columns = sorted parameter names then measurement keys, index = repetition number within the block."""
    pkeys = sorted(blocks[0][0].keys()) if blocks else []
    mkeys = blocks[0][1].keys
    want_cols = pkeys + mkeys
    if not ctx.check(list(df.columns) == want_cols, "sample==run_sweep-rows", mech + "-columns",
                     "columns %r, expected %r" % (list(df.columns), want_cols), **w):
        return
    want_index, want_rows = [], []
    for pd, m in blocks:
        cols = m.data_columns()
        for r in range(m.reps):
            want_index.append(r)
            want_rows.append([pd[k] for k in pkeys] + [cols[k][r] for k in mkeys])
    ctx.check(list(df.index) == want_index, "sample==run_sweep-rows", mech + "-index", "index %r" % list(df.index)[:20], **w)
    got_rows = [[int(v) if isinstance(v, (int, np.integer)) or (isinstance(v, float) and v.is_integer()) else v
                 for v in row] for row in df.itertuples(index=False, name=None)]
    ctx.check(got_rows == want_rows, "sample==run_sweep-rows", mech + "-rows",
              "data frame rows are not the run_sweep results in sweep order with their parameter values",
              got=[[str(x) for x in row] for row in got_rows[:6]], want=[[str(x) for x in row] for row in want_rows[:6]], **w)


def sec_samplers(ctx, rng, case):
    import cirq
    import duet

    if "fakes" not in _S:
        _S["fakes"] = _make_fakes()
    SyncFake, AsyncFake = _S["fakes"]
    book = _Book()
    use_async = rng.random() < 0.5
    s = (AsyncFake if use_async else SyncFake)(book)
    entry = str(rng.choice(["run", "run_sweep", "sample", "run_batch", "run_async", "run_sweep_async", "run_batch_async",
                            "batch-errors"], p=[0.1, 0.14, 0.18, 0.22, 0.06, 0.08, 0.16, 0.06]))
    w = dict(entry=entry, fake="async" if use_async else "sync")
    fp = None
    if entry in ("run", "run_async"):
        cid = _gen_fake_circuit(rng, book)
        reps = int(rng.integers(0, 8))
        form = int(rng.integers(3))
        pd = [{}, {"a": int(rng.integers(1, 16))}, {"a": int(rng.integers(1, 16)), "b": int(rng.integers(0, 16))}][form]
        arg = None if not pd else (dict(pd) if rng.random() < 0.5 else cirq.ParamResolver(dict(pd)))
        if entry == "run":
            res = s.run(book.circuits[cid], arg, reps) if rng.random() < 0.5 else s.run(
                book.circuits[cid], param_resolver=arg, repetitions=reps)
        else:
            res = duet.run(s.run_async, book.circuits[cid], arg, reps)
        m = fake_model(cid, book.specs[cid], _code_of(pd), pd, reps)
        if _match(ctx, res, m, "C18:%s-wrong-run" % entry, entry, **w):
            _register(res, m) if isinstance(res, cirq.ResultDict) else None
        fp = (entry, use_async, tuple(book.specs[cid]), tuple(sorted(pd.items())), reps)
    elif entry in ("run_sweep", "run_sweep_async"):
        cid = _gen_fake_circuit(rng, book)
        reps = int(rng.integers(0, 8))
        sw, pds, kind = _gen_sweep(rng)
        if entry == "run_sweep":
            out = s.run_sweep(book.circuits[cid], sw, reps)
        else:
            out = duet.run(s.run_sweep_async, book.circuits[cid], sw, reps)
        ctx.check(len(out) == len(pds), "sampler-order+shape", "C18:%s-count" % entry,
                  "%d results for %d resolvers" % (len(out), len(pds)), sweep=kind, **w)
        for i, (res, pd) in enumerate(zip(out, pds)):
            _match(ctx, res, fake_model(cid, book.specs[cid], _code_of(pd), pd, reps), "C18:%s-order" % entry,
                   "%s[%d] of sweep %s" % (entry, i, kind), sweep=kind, position=i, **w)
        fp = (entry, use_async, kind, tuple(book.specs[cid]), tuple(tuple(sorted(p.items())) for p in pds), reps)
    elif entry == "sample":
        wide = rng.random() < 0.2
        cid = _gen_fake_circuit(rng, book, wide=wide)
        flat = all(ni == 1 for _, ni, _ in book.specs[cid])
        reps = int(rng.integers(1, 7))
        sw, pds, kind = _gen_sweep(rng)
        kw = {} if sw is None and rng.random() < 0.5 else {"params": sw}
        if not flat:
            try:
                s.sample(book.circuits[cid], repetitions=reps, **kw)
                ctx.check(False, "sample==run_sweep-rows", "C18:sample-repeated-key-accepted",
                          "sample() of a circuit with a repeated key returned a frame", **w)
            except ValueError as e:
                ctx.check("repeated keys" in str(e), "sample==run_sweep-rows", "C18:sample-repeated-key-message", str(e))
                ctx.reject("sample:repeated-key")
        else:
            df = s.sample(book.circuits[cid], repetitions=reps, **kw)
            blocks = [(pd, fake_model(cid, book.specs[cid], _code_of(pd), pd, reps)) for pd in pds]
            _sample_frame_check(ctx, df, blocks, "C18:sample", sweep=kind, reps=reps, wide=wide, **w)
            if rng.random() < 0.2:  # documented rejection: sweeps over different parameters
                try:
                    s.sample(book.circuits[cid], repetitions=1, params=[cirq.Points("a", [1]), cirq.Points("b", [2])])
                    ctx.check(False, "sample==run_sweep-rows", "C18:sample-inconsistent-sweeps-accepted", "")
                except ValueError as e:
                    ctx.check("Inconsistent sweep parameters" in str(e), "sample==run_sweep-rows",
                              "C18:sample-inconsistent-sweeps-message", str(e))
                    ctx.reject("sample:inconsistent-sweeps")
        fp = (entry, use_async, kind, wide, tuple(book.specs[cid]), tuple(tuple(sorted(p.items())) for p in pds), reps)
    elif entry in ("run_batch", "run_batch_async"):
        n = int(rng.integers(1, 6))
        cids = [_gen_fake_circuit(rng, book) for _ in range(n)]
        if n >= 2 and rng.random() < 0.3:
            cids[-1] = cids[0]  # the same program twice, with its own sweep and repetitions
        programs = [book.circuits[c] for c in cids]
        sweeps = [_gen_sweep(rng) for _ in range(n)]
        no_params = rng.random() < 0.2
        if no_params:
            sweeps = [(None, [{}], "none")] * n
        if rng.random() < 0.5:
            reps_arg = int(rng.integers(0, 6))
            reps_list = [reps_arg] * n
        else:
            reps_list = [int(x) for x in rng.permutation(8)[:n]]
            reps_arg = list(reps_list)
        perm = [int(x) for x in rng.permutation(n)]
        s.expect, s.perm = n, perm
        args = (programs,) if no_params else (programs, [sw for sw, _, _ in sweeps])
        if entry == "run_batch":
            out = s.run_batch(*args, repetitions=reps_arg)
        else:
            out = duet.run(s.run_batch_async, *args, reps_arg) if not no_params else duet.run(
                s.run_batch_async, programs, None, reps_arg)
        w.update(n=n, completion_order=perm if use_async else "sequential", circuits=cids, repetitions=reps_list)
        if use_async:
            ctx.check(s.timeouts == 0 and not s.waiting, "async-fake-quiescent", "C18:run_batch-not-concurrent",
                      "the async fake was not offered all %d runs before the first had to complete" % n, **w)
            if s.completions != sorted(s.completions):
                ctx.event("async-out-of-order-completion")
        ctx.check(len(out) == n, "sampler-order+shape", "C18:%s-count" % entry, "%d result lists for %d programs" % (len(out), n), **w)
        for i in range(min(n, len(out))):
            pds = sweeps[i][1]
            ctx.check(len(out[i]) == len(pds), "sampler-order+shape", "C18:%s-inner-count" % entry,
                      "program %d: %d results for %d resolvers" % (i, len(out[i]), len(pds)), **w)
            for j, (res, pd) in enumerate(zip(out[i], pds)):
                _match(ctx, res, fake_model(cids[i], book.specs[cids[i]], _code_of(pd), pd, reps_list[i]),
                       "C18:%s-order" % entry, "%s[%d][%d]" % (entry, i, j), position=[i, j], **w)
        fp = (entry, use_async, tuple(perm), tuple(cids), tuple(reps_list),
              tuple(tuple(tuple(sorted(p.items())) for p in sw[1]) for sw in sweeps), tuple(tuple(book.specs[c]) for c in cids))
    else:  # documented ValueError for batches whose lists do not line up
        n = int(rng.integers(1, 4))
        programs = [book.circuits[_gen_fake_circuit(rng, book)] for _ in range(n)]
        try:
            s.run_batch(programs, [None] * (n + 1))
            ctx.check(False, "batch-rejections", "C18:run_batch-params-length-accepted", "")
        except ValueError as e:
            ctx.check("len(programs) and len(params_list) must match" in str(e), "batch-rejections",
                      "C18:run_batch-params-length-message", str(e))
            ctx.reject("run_batch:len(params_list)")
        try:
            s.run_batch(programs, repetitions=[1] * (n + 1))
            ctx.check(False, "batch-rejections", "C18:run_batch-repetitions-length-accepted", "")
        except ValueError as e:
            ctx.check("len(programs) and len(repetitions) must match" in str(e), "batch-rejections",
                      "C18:run_batch-repetitions-length-message", str(e))
            ctx.reject("run_batch:len(repetitions)")
        fp = (entry, n)
    ctx.distinct(("sampler",) + fp, nontrivial=entry != "batch-errors")
    ctx.sample(dict(w, fingerprint=repr(fp)[:300]))


# =========================================================================== section: ZerosSampler and Simulator
def _gen_real_circuit(rng, allow_symbols, allow_qudits, repeated_ok=True, max_wires=5):
    """Abstract deterministic program: shift gates (X, or X_d on qudits, optionally X**symbol) and measurements.
    Returns (cirq circuit, keyspecs [(key, instances, dims)], run(params) -> {key: [instance][digit]})."""
    import cirq
    import sympy

    n = int(rng.integers(1, max_wires + 1))
    dims = [int(rng.choice([2, 2, 2, 3, 4])) if allow_qudits else 2 for _ in range(n)]
    qs = [cirq.LineQid(i, d) if d != 2 else cirq.LineQubit(i) for i, d in enumerate(dims)]
    steps, keyshape = [], {}
    names = ["m", "k", "q(0)", "out", "z_1", "B"]
    nsteps = int(rng.integers(2, 9))
    for _ in range(nsteps):
        if rng.random() < 0.55:
            wire = int(rng.integers(n))
            sym = None
            if allow_symbols and dims[wire] == 2 and rng.random() < 0.4:
                sym = str(rng.choice(["a", "b"]))
            steps.append(("x", wire, sym))
        else:
            k = int(rng.integers(1, n + 1))
            wires = [int(x) for x in rng.choice(n, size=k, replace=False)]
            shape = tuple(dims[w_] for w_ in wires)
            cands = [nm for nm in names if nm not in keyshape] + (
                [nm for nm, sh in keyshape.items() if sh == shape] * 2 if repeated_ok else [])
            if not cands:
                continue
            name = str(cands[int(rng.integers(len(cands)))])
            keyshape[name] = shape
            mask = tuple(bool(rng.integers(2)) for _ in wires) if all(d == 2 for d in shape) and rng.random() < 0.3 else ()
            steps.append(("m", name, wires, mask))
    if not any(s[0] == "m" for s in steps):
        steps.append(("m", "m", [0], ()))
        keyshape["m"] = (dims[0],)
    ops = []
    for s in steps:
        if s[0] == "x":
            _, wire, sym = s
            if dims[wire] == 2:
                ops.append(cirq.X(qs[wire]) ** sympy.Symbol(sym) if sym else cirq.X(qs[wire]))
            else:
                ops.append(cirq.XPowGate(dimension=dims[wire]).on(qs[wire]))
        else:
            _, name, wires, mask = s
            ops.append(cirq.measure(*[qs[w_] for w_ in wires], key=name, invert_mask=mask))
    circuit = cirq.Circuit(ops)

    def run(params):
        state = [0] * n
        out = {}
        for s in steps:
            if s[0] == "x":
                _, wire, sym = s
                k = 1 if sym is None else int(params[sym])
                state[wire] = (state[wire] + k) % dims[wire]
            else:
                _, name, wires, mask = s
                row = [state[w_] for w_ in wires]
                for i, flip in enumerate(mask):
                    if flip:
                        row[i] ^= 1
                out.setdefault(name, []).append(row)
        return out

    order = []
    for s in steps:
        if s[0] == "m" and s[1] not in order:
            order.append(s[1])
    keyspecs = [(k, sum(1 for s in steps if s[0] == "m" and s[1] == k), keyshape[k]) for k in order]
    symbols = sorted({s[2] for s in steps if s[0] == "x" and s[2]})
    return circuit, keyspecs, run, symbols, steps


def _gen_binary_sweep(rng, symbols):
    """Sweep over exponents 0/1 for the symbols in use -> (sweepable, [param dicts])."""
    import cirq

    if not symbols:
        return (None, [{}]) if rng.random() < 0.7 else ({}, [{}])
    if len(symbols) == 1:
        vals = [[0, 1], [1, 0], [1], [0, 1, 1]][int(rng.integers(4))]
        return cirq.Points(symbols[0], vals), [{symbols[0]: v} for v in vals]
    u = rng.random()
    if u < 0.4:
        sw = cirq.Points("a", [0, 1]) * cirq.Points("b", [1, 0])
        return sw, [{"a": x, "b": y} for x in [0, 1] for y in [1, 0]]
    if u < 0.7:
        sw = cirq.Zip(cirq.Points("a", [0, 1, 1]), cirq.Points("b", [1, 1, 0]))
        return sw, [{"a": x, "b": y} for x, y in zip([0, 1, 1], [1, 1, 0])]
    ds = [{"a": 1, "b": 0}, {"a": 0, "b": 0}, {"a": 1, "b": 1}]
    return [dict(d) for d in ds], ds


def _real_model(keyspecs, per_rep, reps, pd, zeros=False):
    keys = [k for k, _, _ in keyspecs]
    shapes = {k: (ni, len(shape)) for k, ni, shape in keyspecs}
    recs = {k: [[[0] * shapes[k][1] for _ in range(shapes[k][0])] if zeros else [list(r) for r in per_rep[k]]
                for _ in range(reps)] for k in keys}
    return RM.RecordsModel(keys, recs, shapes, pd)


def _match_real(ctx, res, m, mech, what, check_content=True, **w):
    import cirq

    ok = isinstance(res, cirq.Result) and set(res.records.keys()) == set(m.keys)
    if ok and (m.reps > 0 or check_content):
        for k in m.keys:
            arr = res.records[k]
            ok &= tuple(arr.shape) == m.record_shape(k) and (not check_content or np.asarray(arr).tolist() == m.recs[k])
    pd = {str(k): v for k, v in res.params.param_dict.items()} if isinstance(res, cirq.Result) else None
    ok = ok and res.repetitions == m.reps
    ctx.check(ok and pd == m.params, "sampler-order+shape", mech, "%s: keys/shape/content/params differ from the model" % what,
              got_shapes={k: list(v.shape) for k, v in res.records.items()} if isinstance(res, cirq.Result) else None,
              want_shapes={k: list(m.record_shape(k)) for k in m.keys}, got_params=pd, want_params=m.params,
              got={k: v for k, v in res.records.items() if v.size <= 60} if isinstance(res, cirq.Result) else None,
              want={k: m.recs[k] for k in m.keys if m.reps * m.shapes[k][0] * m.shapes[k][1] <= 60}, **w)
    return ok


def sec_real_samplers(ctx, rng, case):
    import cirq
    import duet

    which = "zeros" if rng.random() < 0.45 else "simulator"
    zeros = which == "zeros"
    circuit, keyspecs, run, symbols, steps = _gen_real_circuit(rng, allow_symbols=True, allow_qudits=True,
                                                               max_wires=6 if zeros else 4)
    sampler = cirq.ZerosSampler() if zeros else cirq.Simulator(seed=int(rng.integers(1 << 30)))
    sw, pds = _gen_binary_sweep(rng, symbols)
    reps = int(rng.integers(0 if zeros else 1, 6))
    if not zeros and rng.random() < 0.08:
        reps = 0
    flat = all(ni == 1 for _, ni, _ in keyspecs)
    bits_only = all(all(d == 2 for d in shape) for _, _, shape in keyspecs)
    entry = str(rng.choice(["run", "run_sweep", "sample", "run_batch", "run_sweep_async", "run_batch_async"]))
    w = dict(sampler=which, entry=entry, circuit=repr(circuit)[:700], reps=reps, sweep=pds)
    content = reps > 0  # Simulator with 0 repetitions: only keys and repetitions are specified
    models = [_real_model(keyspecs, run(pd), reps, pd, zeros=zeros) for pd in pds]
    if entry == "run":
        pd = pds[int(rng.integers(len(pds)))]
        res = sampler.run(circuit, dict(pd) if pd else None, reps)
        m = _real_model(keyspecs, run(pd), reps, pd, zeros=zeros)
        if _match_real(ctx, res, m, "C18:%s-run" % which, "run", check_content=content or zeros, **w) and content:
            m = RM.RecordsModel(list(res.records.keys()), m.recs, m.shapes, pd)  # key order is the sampler's own
            _register(res, m)
            if flat and bits_only:
                check_data(ctx, res.data, m, mech="C18:%s-run-data" % which)
    elif entry in ("run_sweep", "run_sweep_async"):
        out = sampler.run_sweep(circuit, sw, reps) if entry == "run_sweep" else duet.run(sampler.run_sweep_async, circuit, sw, reps)
        ctx.check(len(out) == len(models), "sampler-order+shape", "C18:%s-%s-count" % (which, entry), "%d != %d" % (len(out), len(models)), **w)
        for i, (res, m) in enumerate(zip(out, models)):
            _match_real(ctx, res, m, "C18:%s-%s-order" % (which, entry), "%s[%d]" % (entry, i), check_content=content or zeros,
                        position=i, **w)
    elif entry == "sample":
        reps = max(reps, 1)
        models = [_real_model(keyspecs, run(pd), reps, pd, zeros=zeros) for pd in pds]
        if not flat or not bits_only:
            if not flat:
                try:
                    sampler.sample(circuit, repetitions=reps, params=sw)
                    ctx.check(False, "sample==run_sweep-rows", "C18:%s-sample-repeated-key-accepted" % which, "", **w)
                except ValueError as e:
                    ctx.check("repeated keys" in str(e), "sample==run_sweep-rows", "C18:sample-repeated-key-message", str(e))
                    ctx.reject("sample:repeated-key")
            else:
                ctx.reject("sample:qudit-data-frame-unspecified")
        else:
            df = sampler.sample(circuit, repetitions=reps, params=sw)
            # column order of the measurement keys is the sampler's; compare as the sampler's own key order
            mkeys = [c for c in df.columns if c not in ("a", "b")]
            ok = set(mkeys) == set(models[0].keys)
            ctx.check(ok, "sample==run_sweep-rows", "C18:%s-sample-columns" % which, "%r" % list(df.columns), **w)
            if ok:
                blocks = []
                for pd, m in zip(pds, models):
                    mm = RM.RecordsModel(mkeys, m.recs, m.shapes, pd)
                    blocks.append((pd, mm))
                _sample_frame_check(ctx, df, blocks, "C18:%s-sample" % which, **w)
    else:
        n = int(rng.integers(1, 4))
        progs = [(circuit, keyspecs, run, symbols)]
        for _ in range(n - 1):
            c2, k2, r2, s2, _ = _gen_real_circuit(rng, True, True, max_wires=6 if zeros else 4)
            progs.append((c2, k2, r2, s2))
        sweeps = [_gen_binary_sweep(rng, p[3]) for p in progs]
        reps_list = [int(x) for x in rng.permutation(5)[:n] + 1]
        if entry == "run_batch":
            out = sampler.run_batch([p[0] for p in progs], [s_[0] for s_ in sweeps], reps_list)
        else:
            out = duet.run(sampler.run_batch_async, [p[0] for p in progs], [s_[0] for s_ in sweeps], reps_list)
        ctx.check(len(out) == n, "sampler-order+shape", "C18:%s-%s-count" % (which, entry), "", **w)
        for i in range(min(n, len(out))):
            pds_i = sweeps[i][1]
            ctx.check(len(out[i]) == len(pds_i), "sampler-order+shape", "C18:%s-%s-inner-count" % (which, entry), "", **w)
            for j, (res, pd) in enumerate(zip(out[i], pds_i)):
                m = _real_model(progs[i][1], progs[i][2](pd), reps_list[i], pd, zeros=zeros)
                _match_real(ctx, res, m, "C18:%s-%s-order" % (which, entry), "%s[%d][%d]" % (entry, i, j), position=[i, j],
                            batch_reps=reps_list, **dict(w, circuit=repr(progs[i][0])[:500]))
    # the same sampler object asked again after the same circuit object was edited in place: the answer describes the
    # circuit as it is now (one more key on a fresh qubit, and one more instance of an existing key)
    if isinstance(circuit, cirq.Circuit) and entry in ("run", "run_sweep", "run_batch"):
        fresh = cirq.NamedQubit("c18-added-later")
        k0, ni0, shape0 = keyspecs[0]
        again_q = [cirq.LineQid(100 + i, d) if d != 2 else cirq.LineQubit(100 + i) for i, d in enumerate(shape0)]
        circuit.append([cirq.measure(fresh, key="added-later"), cirq.measure(*again_q, key=k0)])
        keyspecs2 = [(k0, ni0 + 1, shape0)] + list(keyspecs[1:]) + [("added-later", 1, (2,))]
        pd = pds[int(rng.integers(len(pds)))]
        reps2 = max(reps, 1)

        def per_rep2(pd_):
            out = {k_: [list(r) for r in v] for k_, v in run(pd_).items()}
            out[k0] = out[k0] + [[0] * len(shape0)]
            out["added-later"] = [[0]]
            return out

        m2 = _real_model(keyspecs2, per_rep2(pd), reps2, pd, zeros=zeros)
        res2 = sampler.run(circuit, dict(pd) if pd else None, reps2)
        _match_real(ctx, res2, m2, "C18:%s-reused-after-circuit-edit" % which, "run after editing the circuit in place",
                    **dict(w, circuit=repr(circuit)[:700], reps=reps2))
    ctx.distinct(("real", which, entry, tuple(map(repr, steps)), repr(pds), reps),
                 nontrivial=any(s[0] == "x" for s in steps) or zeros)
    ctx.sample({"sampler": which, "entry": entry, "keyspecs": keyspecs, "reps": reps, "sweep": pds, "circuit": str(circuit)[:400]})


def sec_zeros_rejections(ctx, rng, case):
    """Documented ValueError of ZerosSampler: a key measured on different qid shapes."""
    import cirq

    d1, d2 = (2, 3) if rng.random() < 0.5 else (3, 2)
    c = cirq.Circuit(cirq.measure(cirq.LineQid(0, d1), key="k"), cirq.measure(cirq.LineQid(1, d2), key="k"))
    try:
        cirq.ZerosSampler().run(c, repetitions=int(rng.integers(1, 4)))
        ctx.check(False, "zeros-rejections", "C18:zeros-different-shapes-accepted", "")
    except ValueError as e:
        ctx.check("Different qid shapes for repeated measurement" in str(e), "zeros-rejections", "C18:zeros-different-shapes-message", str(e))
        ctx.reject("zeros:different-qid-shapes")
    ctx.distinct(("zeros-reject", d1, d2))


# =========================================================================== section: other readers of the same records
def sec_extras(ctx, rng, case):
    import cirq

    kind = int(rng.integers(2))
    if kind == 0:  # cirq.get_state_histogram: index = all keys' bits concatenated in key order, big-endian
        nkeys = int(rng.integers(1, 4))
        keys = [str(k) for k in rng.choice(["a", "b", "c", "z", "m"], size=nkeys, replace=False)]
        reps = int(rng.integers(1, 10))
        shapes = {k: (1, int(rng.integers(1, 4))) for k in keys}
        recs = {k: [[r] for r in gen_rows(rng, reps, [2] * shapes[k][1])] for k in keys}
        m = RM.RecordsModel(keys, recs, shapes, {})
        m.bases = {k: [2] * shapes[k][1] for k in keys}
        m.dtypes = {k: str(rng.choice(BIT_DTYPES)) for k in keys}
        m.profile = "bits-flat"
        r, _, _ = build_result(rng, m)
        total = sum(shapes[k][1] for k in keys)
        want = [0] * (2 ** total)
        for rep in range(reps):
            want[RM.bits_to_int([b for k in keys for b in recs[k][rep][0]])] += 1
        got = cirq.get_state_histogram(r)
        ctx.check(len(got) == len(want) and [int(x) for x in got] == want, "state_histogram==model", "C18:get_state_histogram",
                  "state histogram is not the count per big-endian concatenation of the keys in order",
                  got=got, want=want if len(want) <= 64 else None, **_wit(m))
        ctx.distinct(("statehist", m.fingerprint()), nontrivial=total >= 2)
    else:  # ClassicalDataDictionaryStore: get_digits / get_int over recorded measurements (mixed radix by qid dimension)
        store = cirq.ClassicalDataDictionaryStore()
        log = {}
        for _ in range(int(rng.integers(1, 6))):
            name = str(rng.choice(["a", "b", "c"]))
            if name in log:
                dims = log[name][0][1]
            else:
                dims = [int(x) for x in rng.integers(2, 6, size=int(rng.integers(1, 8)))]
            digits = [int(rng.integers(0, d)) for d in dims]
            qs = [cirq.LineQid(int(i), d) for i, d in zip(rng.permutation(20)[: len(dims)], dims)]
            store.record_measurement(cirq.MeasurementKey(name), tuple(digits), qs)
            log.setdefault(name, []).append((digits, dims))
        for name, entries in log.items():
            key = cirq.MeasurementKey(name)
            for idx in range(-len(entries), len(entries)):
                digits, dims = entries[idx]
                ctx.check(tuple(store.get_digits(key, idx)) == tuple(digits), "classical-data==model", "C18:store-get_digits", "")
                got = store.get_int(key, idx)
                ctx.check(got == RM.digits_to_int(digits, dims), "classical-data==model", "C18:store-get_int",
                          "get_int(%r, %d) = %r for digits %r dims %r" % (name, idx, got, digits, dims))
            ctx.check(store.get_int(key) == RM.digits_to_int(*entries[-1]), "classical-data==model", "C18:store-get_int-default-latest", "")
        ctx.distinct(("store", repr(sorted(log.items()))), nontrivial=True)


# =========================================================================== section: cirq_google result / sampler wrappers
def _make_engine_fakes():
    import cirq
    import cirq_google
    import duet
    from collections.abc import Mapping

    class FakeJob:
        def __init__(self, results, delay):
            self._results, self._delay = results, delay

        async def results_async(self):
            if self._delay is not None:
                await self._delay
            return self._results

    class FakeProcessor:
        """Stands in for an AbstractProcessor: answers exactly like the documented engine (results grouped by program,
        then by sweep point), tags every result with the run it belongs to, and logs every call."""

        def __init__(self, book):
            self.book, self.calls, self.waiting, self.expect, self.perm = book, [], [], 0, []

        async def run_sweep_async(self, program, params, repetitions=1, **kw):
            if isinstance(program, Mapping):
                progs, form = list(program.values()), "mapping"
            elif isinstance(program, (list, tuple)):
                progs, form = list(program), "list"
            else:
                progs, form = [program], "single"
            cids = [self.book.cid_of(p_) for p_ in progs]
            self.calls.append(dict(cids=cids, form=form, repetitions=repetitions, kw=kw,
                                   keys=list(program.keys()) if form == "mapping" else None))
            out = []
            for cid in cids:
                for pr in cirq.to_resolvers(params):
                    pd = {str(k): v for k, v in pr.param_dict.items()}
                    m = fake_model(cid, self.book.specs[cid], _code_of(pd), pd, repetitions)
                    base = cirq.ResultDict(params=pr, records={
                        k: np.array(m.recs[k], dtype=np.uint8).reshape(m.record_shape(k)) for k in m.keys})
                    out.append(cirq_google.EngineResult.from_result(base, job_id="job-%d" % len(self.calls)))
            delay = None
            if self.expect:
                delay = duet.AwaitableFuture()
                self.waiting.append(delay)
                if len(self.waiting) >= self.expect:
                    w_, self.waiting = self.waiting, []
                    for i in (self.perm if len(self.perm) == len(w_) else range(len(w_))):
                        w_[i].set_result(None)
            return FakeJob(out, delay)

    return FakeProcessor


class _PlainResult:
    pass


def sec_engine(ctx, rng, case):
    import cirq
    import cirq_google
    import duet

    if "engine_fakes" not in _S:
        _S["engine_fakes"] = _make_engine_fakes()
    if "fakes" not in _S:
        _S["fakes"] = _make_fakes()
    FakeProcessor = _S["engine_fakes"]
    kind = str(rng.choice(["engine-result", "processor-batch", "processor-single", "validating"], p=[0.35, 0.35, 0.1, 0.2]))
    w = dict(kind=kind)
    if kind == "engine-result":
        m = gen_model(rng)
        arrays = build_arrays(rng, m)
        job = str(rng.choice(["j", "job-1", "", "projects/p/programs/x/jobs/y"]))
        how = int(rng.integers(3))
        pr = cirq.ParamResolver(dict(m.params))
        if how == 0:
            r = cirq_google.EngineResult(job_id=job, params=pr, records=arrays)
        elif how == 1:
            r = cirq_google.EngineResult.from_result(cirq.ResultDict(params=pr, records=arrays), job_id=job)
        else:
            # a Result that is not a ResultDict: from_result must go through the public views
            base = cirq.ResultDict(params=pr, records=arrays)

            class Other(cirq.Result):
                params = property(lambda self: base.params)
                records = property(lambda self: base.records)
                measurements = property(lambda self: base.measurements)
                data = property(lambda self: base.data)
            if not m.flattenable():
                how = 1
                r = cirq_google.EngineResult.from_result(base, job_id=job)
            else:
                r = cirq_google.EngineResult.from_result(Other(), job_id=job)
        w.update(how=how, **_wit(m))
        check_records(ctx, r, m, tag="engine-result-records")
        if m.flattenable():
            meas = r.measurements
            for k in m.keys:
                ctx.check(_arr_eq(meas.get(k), (m.reps, m.shapes[k][1]), m.rows(k)), "measurements==model",
                          "C18:engine-result-measurements", "EngineResult.measurements[%r] != records[%r][:, 0, :]" % (k, k), key=k, **w)
            if m.is_binary():
                check_data(ctx, r.data, m, mech="C18:engine-result-data")
            check_histograms(ctx, rng, r, m, arrays)
        ctx.check(r.job_id == job and dict(r.params.param_dict) == dict(pr.param_dict), "engine-result-metadata", "C18:engine-result-metadata", "", **w)
        same = cirq_google.EngineResult(job_id=job, params=pr, records={k: a.copy() for k, a in arrays.items()})
        other = cirq_google.EngineResult(job_id=job + "x", params=pr, records=arrays)
        ctx.check(r == same and not (r != same), "engine-result-eq", "C18:engine-result-eq-same", "equal records, params and job id compare unequal", **w)
        ctx.check(r != other and not (r == other), "engine-result-eq", "C18:engine-result-eq-job-id", "a different job id compares equal", **w)
        try:
            back = cirq.read_json(json_text=cirq.to_json(r))
        except Exception as e:  # noqa
            ctx.check(False, "engine-result-json", "C18:engine-result-json-raises:" + type(e).__name__, str(e)[:200], **w)
            back = None
        if back is not None:
            ctx.check(type(back) is cirq_google.EngineResult and back.job_id == job, "engine-result-json", "C18:engine-result-json-metadata", "", **w)
            check_records(ctx, back, m, tag="engine-result-json-records")
            ctx.check(back == r, "engine-result-json", "C18:engine-result-json-eq", "read_json(to_json(r)) != r", **w)
        ctx.distinct(("engine-result", how, m.fingerprint()), nontrivial=_nontrivial(m)[0])
        return
    book = _Book()
    if kind in ("processor-batch", "processor-single"):
        proc = FakeProcessor(book)
        J = 1 if kind == "processor-single" else int(rng.choice([2, 3, 4, 8]))
        conc = int(rng.choice([1, 2, 100]))
        names = dict(run_name="run", device_config_name="cfg") if rng.random() < 0.3 else {}
        s = cirq_google.ProcessorSampler(processor=proc, max_concurrent_jobs=conc, jobs_per_batch=J, **names)
        n = int(rng.integers(1, 8))
        cids = [_gen_fake_circuit(rng, book) for _ in range(n)]
        if n >= 2 and rng.random() < 0.3:
            cids[-1] = cids[0]
        shared = _gen_sweep(rng)
        sweeps = [shared if rng.random() < 0.7 else _gen_sweep(rng) for _ in range(n)]
        if rng.random() < 0.5:
            reps_list = [int(rng.integers(1, 6))] * n
            reps_arg = reps_list[0]
        else:
            reps_list = [int(x) for x in rng.choice([1, 2, 3], size=n)]
            reps_arg = list(reps_list)
        as_mapping = J > 1 and rng.random() < 0.35 and len(set(cids)) == n
        programs = {"prog%d" % i: book.circuits[c] for i, c in enumerate(cids)} if as_mapping else [book.circuits[c] for c in cids]
        entry = str(rng.choice(["run_batch", "run_batch_async", "run_sweep", "run"]))
        w.update(J=J, n=n, circuits=cids, repetitions=reps_list, mapping=as_mapping, entry=entry, max_concurrent_jobs=conc,
                 sweeps=[sw[2] for sw in sweeps])
        if entry in ("run_sweep", "run"):
            cid, sw = cids[0], sweeps[0]
            if entry == "run":
                pd = sw[1][0]
                res = s.run(book.circuits[cid], dict(pd) or None, reps_list[0])
                _match(ctx, res, fake_model(cid, book.specs[cid], _code_of(pd), pd, reps_list[0]), "C18:processor-sampler-run", "run", **w)
                ctx.check(isinstance(res, cirq_google.EngineResult), "sampler-order+shape", "C18:processor-sampler-type", "", **w)
            else:
                out = s.run_sweep(book.circuits[cid], sw[0], reps_list[0])
                ctx.check(len(out) == len(sw[1]), "sampler-order+shape", "C18:processor-sampler-count", "", **w)
                for j, (res, pd) in enumerate(zip(out, sw[1])):
                    _match(ctx, res, fake_model(cid, book.specs[cid], _code_of(pd), pd, reps_list[0]), "C18:processor-sampler-run_sweep-order",
                           "run_sweep[%d]" % j, position=j, **w)
            ctx.check(all(c["kw"] == dict(run_name=names.get("run_name", ""), snapshot_id="", device_config_name=names.get("device_config_name", ""))
                          for c in proc.calls), "processor-call-args", "C18:processor-sampler-config-not-forwarded", "%r" % (proc.calls[:1],), **w)
            ctx.distinct(("processor", entry, tuple(book.specs[cid]), sw[2], reps_list[0]), nontrivial=True)
            return
        args = (programs, [sw[0] for sw in sweeps])
        if entry == "run_batch":
            out = s.run_batch(*args, repetitions=reps_arg)
        else:
            out = duet.run(s.run_batch_async, args[0], args[1], reps_arg)
        ctx.check(len(out) == n, "sampler-order+shape", "C18:processor-sampler-batch-count", "%d result lists for %d programs" % (len(out), n), **w)
        for i in range(min(n, len(out))):
            pds = sweeps[i][1]
            ctx.check(len(out[i]) == len(pds), "sampler-order+shape", "C18:processor-sampler-batch-inner-count",
                      "program %d: %d results for %d resolvers" % (i, len(out[i]), len(pds)), **w)
            for j, (res, pd) in enumerate(zip(out[i], pds)):
                _match(ctx, res, fake_model(cids[i], book.specs[cids[i]], _code_of(pd), pd, reps_list[i]),
                       "C18:processor-sampler-batch-order", "run_batch[%d][%d]" % (i, j), position=[i, j], **w)
        # what reached the processor: every program exactly once, in order, never more than J per call
        sent = [c_ for call in proc.calls for c_ in call["cids"]]
        ctx.check(sent == cids, "processor-call-args", "C18:processor-sampler-programs-sent", "programs sent %r, requested %r" % (sent, cids), **w)
        ctx.check(all(len(call["cids"]) <= J for call in proc.calls), "processor-call-args", "C18:processor-sampler-batch-too-large",
                  "%r" % [len(call["cids"]) for call in proc.calls], **w)
        if as_mapping:
            ks = [k for call in proc.calls for k in (call["keys"] or [None] * len(call["cids"]))]
            ctx.check(ks == list(programs.keys()) or J == 1, "processor-call-args", "C18:processor-sampler-mapping-keys", "%r" % ks, **w)
        if len(proc.calls) < n:
            ctx.event("processor-batched-calls")
        ctx.distinct(("processor-batch", J, tuple(cids), tuple(reps_list), tuple(sw[2] for sw in sweeps), as_mapping),
                     nontrivial=n >= 2 and J >= 2)
        return
    # ValidatingSampler: validation sees the normalised arguments, results are the inner sampler's
    SyncFake, AsyncFake = _S["fakes"]
    inner = SyncFake(book)
    seen = []

    def validator(circuits, sweeps_, repetitions):
        seen.append((list(circuits), list(sweeps_), repetitions))
    n = int(rng.integers(1, 5))
    cids = [_gen_fake_circuit(rng, book) for _ in range(n)]
    sweeps = [_gen_sweep(rng) for _ in range(n)]
    reps_list = [int(x) for x in rng.integers(1, 5, size=n)]
    vs = cirq_google.ValidatingSampler(validator=validator, sampler=inner)
    if rng.random() < 0.5:
        out = vs.run_sweep(book.circuits[cids[0]], sweeps[0][0], reps_list[0])
        ctx.check(len(seen) == 1 and seen[0][0] == [book.circuits[cids[0]]] and seen[0][2] == reps_list[0], "validator-called",
                  "C18:validating-sampler-validator-args", "%r" % (seen,), **w)
        for j, (res, pd) in enumerate(zip(out, sweeps[0][1])):
            _match(ctx, res, fake_model(cids[0], book.specs[cids[0]], _code_of(pd), pd, reps_list[0]), "C18:validating-sampler-run_sweep", "run_sweep[%d]" % j, **w)
        ctx.check(len(out) == len(sweeps[0][1]), "sampler-order+shape", "C18:validating-sampler-count", "", **w)
    else:
        uniform = rng.random() < 0.5
        reps_arg = reps_list[0] if uniform else list(reps_list)
        if uniform:
            reps_list = [reps_list[0]] * n
        out = vs.run_batch([book.circuits[c] for c in cids], [sw[0] for sw in sweeps], reps_arg)
        ctx.check(len(seen) == 1 and len(seen[0][0]) == n and len(seen[0][1]) == n and list(seen[0][2]) == reps_list, "validator-called",
                  "C18:validating-sampler-validator-args", "validator saw %r" % ([len(seen)] + [x[2] for x in seen],), **w)
        ctx.check(len(out) == n, "sampler-order+shape", "C18:validating-sampler-count", "", **w)
        for i in range(min(n, len(out))):
            for j, (res, pd) in enumerate(zip(out[i], sweeps[i][1])):
                _match(ctx, res, fake_model(cids[i], book.specs[cids[i]], _code_of(pd), pd, reps_list[i]), "C18:validating-sampler-run_batch",
                       "run_batch[%d][%d]" % (i, j), **w)
    # a refusing validator stops the run before the inner sampler is asked
    before = len(book.log)

    def refuse(circuits, sweeps_, repetitions):
        raise ValueError("refused by the harness")
    try:
        cirq_google.ValidatingSampler(validator=refuse, sampler=inner).run_sweep(book.circuits[cids[0]], sweeps[0][0], 1)
        ctx.check(False, "validator-called", "C18:validating-sampler-refusal-ignored", "", **w)
    except ValueError as e:
        ctx.check("refused by the harness" in str(e) and len(book.log) == before, "validator-called", "C18:validating-sampler-ran-before-validation", "", **w)
    ctx.distinct(("validating", tuple(cids), tuple(reps_list), tuple(sw[2] for sw in sweeps)), nontrivial=True)


def sec_large(ctx, rng, case):
    """results with more repetitions than any internal batch: histograms still count every repetition"""
    import cirq

    reps = int([50001, 65537, 100003, 150000, 49999, 50000][case % 6])
    nd = int(rng.integers(1, 4))
    base = int(rng.choice([2, 2, 3]))
    # a skewed distribution, so that every outcome shows up in every batch with a different count
    probs = rng.dirichlet(np.ones(base ** nd) * 0.7)
    vals = rng.choice(base ** nd, size=reps, p=probs)
    digits = np.zeros((reps, 1, nd), dtype=np.uint8)
    v = vals.copy()
    for i in range(nd - 1, -1, -1):
        digits[:, 0, i] = v % base
        v //= base
    r = cirq.ResultDict(params=cirq.ParamResolver({}), records={"k": digits})
    want = collections.Counter(int(x) for x in vals)
    kw = {"fold_base": base} if base != 2 else {}
    got = r.histogram(key="k", **kw)
    w = dict(reps=reps, digits=nd, base=base)
    ctx.check(sum(got.values()) == reps, "histogram==model", "C18:histogram-loses-repetitions", "counts sum to %d of %d repetitions" % (sum(got.values()), reps), **w)
    ctx.check(dict(got) == dict(want), "histogram==model", "C18:histogram-large", "histogram of %d repetitions differs from the count of the records" % reps,
              got=dict(list(got.items())[:6]), want=dict(list(want.items())[:6]), **w)
    got2 = r.histogram(key="k", fold_func=lambda row: int("".join(str(int(b)) for b in row), base))
    ctx.check(dict(got2) == dict(want), "histogram==model", "C18:histogram-large-fold_func", "", **w)
    if base == 2:  # (multi_measurement_histogram folds bits only)
        mm = r.multi_measurement_histogram(keys=["k"])
        ctx.check({k_[0]: c for k_, c in mm.items()} == dict(want), "multi_histogram==model", "C18:multi-histogram-large", "", **w)
    half = reps // 2
    a = cirq.ResultDict(params=cirq.ParamResolver({}), records={"k": digits[:half]})
    b = cirq.ResultDict(params=cirq.ParamResolver({}), records={"k": digits[half:]})
    ctx.check(dict((a + b).histogram(key="k", **kw)) == dict(want), "add==model-concat", "C18:histogram-of-sum-large", "", **w)
    ctx.distinct(("large", reps, nd, base), nontrivial=True)


# (name, function, quick cases, thorough cases, time weight).  One of 14 quick shards needs ~10 s of workload on
# an idle machine (measured 18 s for twice these counts), which leaves room for a machine loaded 4x.
SECTIONS = [
    ("views", sec_views, 5000, 300000, 6.0),
    ("combine", sec_combine, 3000, 150000, 2.0),
    ("json", sec_json, 3000, 150000, 2.0),
    ("digits", sec_digits, 12000, 400000, 1.0),
    ("samplers", sec_samplers, 6000, 200000, 2.0),
    ("real_samplers", sec_real_samplers, 3000, 100000, 2.5),
    ("zeros_rejections", sec_zeros_rejections, 28, 64, 0.1),
    ("extras", sec_extras, 2000, 40000, 0.5),
    ("engine", sec_engine, 1500, 40000, 1.5),
    ("large", sec_large, 28, 280, 1.0),
]
